//go:build verif

package alephium

// C08 generators + the runner that drives the real watcher goroutines against the fake node.
//
// Case lines written here (family `alphwatch`):
//
//   conf   <id> mainnet= net= cl= p0= h= ts= height= now= res= clafter=   isEventConfirmed called directly (exact boundaries); net = the shipped
//                                                                    configuration a watcher was constructed from beforehand ("-" none)
//   dur    <id> mainnet= net= transfer= cl= res=                     getConfirmationDuration called directly
//   hconf  <id> bridge= mainnet= evs=<ev,..> hdrs=<h:ts,..> fwd=<pub,..> err=   handleConfirmedEvents called directly (pending events made by the Watcher's toUnconfirmedEvent)
//   winit / wbatch / wtick / wheight <id> ...                        one watcher life (real handleEvents [+ real fetchEvents])
//   reobs  <id> ...                                                  one re-observation request through the real handleObsvRequest
//
// wbatch <id> evs= direct= reqs= out= res= en=: a page handed to the event loop through the watcher's own handleUnconfirmedEvents (evs -> out);
// direct = events the production route never delivers (event index != 0), built by the harness and appended.
// reobs / wreobs carry stray=<chain:tx,..>: what the watcher's own request queue (capacity as in cmd/guardiand/node.go) held after the
// loop had finished with the one request the harness - playing the dispatcher - had put there.
//
// winit carries ctor= (the shipped configuration NewAlephiumWatcher built the Watcher from, "-" = struct literal), w= (what the Watcher
// holds: bridge;governance address;fromGroup;toGroup;isMainnet) and, with a constructor, cfg= (tokenBridge;governance;groupIndex;
// minimalConsistencyLevel of the file). Kinds of lives: poll, pipe, rst, meta, paths (both delivery paths over the same events under
// every configuration source), pgf (one failing request inside a multi-page round).
//
// ev  = id;bh;tx;idx;contract;conv         conv = x | sender.tc.nonce.seq.cl.payload
// pub = tx.tsms.nonce.seq.cl.emitterchain.targetchain.emitter.payload

import (
	"bytes"
	"context"
	"encoding/binary"
	"encoding/hex"
	"encoding/json"
	"fmt"
	"math"
	"os"
	"path/filepath"
	"regexp"
	"sort"
	"strconv"
	"strings"
	"sync/atomic"
	"time"

	sdk "github.com/alephium/go-sdk"
	"github.com/alephium/wormhole-fork/node/pkg/common"
	gossipv1 "github.com/alephium/wormhole-fork/node/pkg/proto/gossip/v1"
	"go.uber.org/zap"
)

const fMinute = int64(60 * 1000)

func renderPub(m *common.MessagePublication) string {
	return fmt.Sprintf("%s.%d.%d.%d.%d.%d.%d.%s.%s", hex.EncodeToString(m.TxHash[:]), m.Timestamp.UnixMilli(), m.Nonce, m.Sequence,
		m.ConsistencyLevel, uint16(m.EmitterChain), uint16(m.TargetChain), hex.EncodeToString(m.EmitterAddress[:]), fhex(m.Payload))
}

func drainPubs(c chan *common.MessagePublication) []string {
	var out []string
	for {
		select {
		case m := <-c:
			out = append(out, renderPub(m))
		default:
			return out
		}
	}
}

func (e *evSpec) toUnconfirmed() *UnconfirmedEvent {
	var fields []sdk.Val
	json.Unmarshal([]byte(e.fields), &fields)
	var sender Byte32
	copy(sender[:], e.m.sender)
	return &UnconfirmedEvent{
		ContractEvent: &sdk.ContractEvent{BlockHash: e.bh, TxId: e.tx, EventIndex: e.idx, Fields: fields},
		msg: &WormholeMessage{txId: e.tx, senderId: sender, targetChainId: e.m.tc, nonce: e.m.nonce, payload: e.m.payload,
			Sequence: e.m.seq, consistencyLevel: e.m.cl},
	}
}

// contractEvent: the event as the client decodes it from the node's JSON.
func (e *evSpec) contractEvent() (*sdk.ContractEvent, bool) {
	var ce sdk.ContractEvent
	if err := json.Unmarshal([]byte(evJSON(e, false)), &ce); err != nil {
		return nil, false
	}
	return &ce, true
}

// unconfirmedVia: the pending form of the event as the watcher itself makes it - Watcher.toUnconfirmedEvent on the event as decoded
// from the node's JSON, the one function through which a fetched event becomes a pending one. What that function rejects (an event
// index other than 0, fields that do not convert) has no production form: only then the value is built by hand.
func (e *evSpec) unconfirmedVia(w *Watcher) (u *UnconfirmedEvent) {
	defer func() {
		if rec := recover(); rec != nil {
			u = e.toUnconfirmed()
		}
	}()
	if ce, ok := e.contractEvent(); ok {
		if pu, err := w.toUnconfirmedEvent(ce); err == nil && pu != nil && pu.ContractEvent != nil && pu.msg != nil {
			return pu
		}
	}
	return e.toUnconfirmed()
}

// pageOf: a page answer holding exactly these events, as the client decodes it.
func pageOf(evs []*evSpec) *sdk.ContractEvents {
	var page sdk.ContractEvents
	js := make([]string, len(evs))
	for i, e := range evs {
		js[i] = evJSON(e, false)
	}
	json.Unmarshal([]byte(fmt.Sprintf(`{"events":[%s],"nextStart":%d}`, strings.Join(js, ","), len(evs))), &page)
	return &page
}

// ---------------------------------------------------------------------------------------------
// the watcher's re-observation request queue

var obsQueueCapCache int

// obsQueueCap: the capacity cmd/guardiand/node.go gives every watcher's request queue (`observationRequestBufferSize`), read from
// the source of the tree under test (the package directory is the working directory); 25 if it cannot be found.
func obsQueueCap() int {
	if obsQueueCapCache == 0 {
		obsQueueCapCache = 25
		if src, err := os.ReadFile(filepath.Join("..", "..", "cmd", "guardiand", "node.go")); err == nil {
			if m := regexp.MustCompile(`(?m)^\s*(?:const\s+)?observationRequestBufferSize\s*=\s*(\d+)`).FindSubmatch(src); m != nil {
				if k, err := strconv.Atoi(string(m[1])); err == nil && k > 0 && k <= 4096 {
					obsQueueCapCache = k
				}
			}
		}
	}
	return obsQueueCapCache
}

func newObsQueue() chan *gossipv1.ObservationRequest {
	return make(chan *gossipv1.ObservationRequest, obsQueueCap())
}

var sentinelSeq uint64

// serveReobs plays the dispatcher: it puts req on the watcher's request queue (a non-blocking send on a buffered channel, empty
// before) and behind it a sentinel request for a transaction whose status request the fake node holds. The loop handles one request
// at a time, in queue order: when the sentinel's status request arrives at the node, the loop has finished with req - every node
// request made, everything published - and is blocked inside the sentinel's. Whatever the queue holds at that moment was put
// there by the watcher itself: it is taken off and returned (chain:tx). Then the sentinel is answered ("transaction not found") and
// the loop goes back to an empty queue. `dead` tells that the loop is gone (panic / return); its value is returned as res.
func serveReobs(n *fakeNode, q chan *gossipv1.ObservationRequest, req *gossipv1.ObservationRequest, dead <-chan string) (stray []string, res string) {
	sentinelSeq++
	stx := fmt.Sprintf("%048x%016x", 0x5e17, sentinelSeq)
	sb, _ := hex.DecodeString(stx)
	n.mu.Lock()
	n.stGate = stx
	n.stArrive, n.stRelease, n.stDone = make(chan struct{}), make(chan struct{}), make(chan struct{}, 1)
	arrive, release, done := n.stArrive, n.stRelease, n.stDone
	n.mu.Unlock()
	defer func() {
		n.mu.Lock()
		n.stGate = ""
		n.mu.Unlock()
	}()
	take := func() {
		for {
			select {
			case x := <-q:
				if x == nil {
					stray = append(stray, "nil")
				} else if !(x.ChainId == 255 && hex.EncodeToString(x.TxHash) == stx) {
					stray = append(stray, fmt.Sprintf("%d:%s", x.ChainId, fhex(x.TxHash)))
				}
			default:
				return
			}
		}
	}
	res = "ok"
	q <- req
	q <- &gossipv1.ObservationRequest{ChainId: 255, TxHash: sb}
	select {
	case <-arrive:
	case res = <-dead:
		take()
		return
	}
	take()
	release <- struct{}{}
	select {
	case <-done:
	case res = <-dead:
	}
	return
}

// ---------------------------------------------------------------------------------------------
// message generation

var fCLs = []int{0, 1, 2, 3, 10, 100, 204, 205, 206, 254, 255}

func (g *fgen) cl() uint8 {
	if g.chance(60) {
		return uint8(g.pick(fCLs...))
	}
	return uint8(g.r.Intn(256))
}

func attestPayload(token []byte, chain uint16, decimals uint8, symbol, name []byte) []byte {
	p := make([]byte, 100)
	p[0] = 2
	copy(p[1:33], token)
	binary.BigEndian.PutUint16(p[33:35], chain)
	p[35] = decimals
	copy(p[36:68], symbol)
	copy(p[68:100], name)
	return p
}

// tokenTruth is what the fake node's token contract reports for a token id.
type tokenTruth struct {
	token    []byte
	decimals uint8
	symbol   []byte // 32 bytes, NUL padded (either side)
	name     []byte
	shape    string // tiAnswer shape actually served
}

func pad32(s []byte, left bool) []byte {
	p := make([]byte, 32)
	if left {
		copy(p[32-len(s):], s)
	} else {
		copy(p, s)
	}
	return p
}

// nulInside puts a zero byte into the middle of a word (words shorter than 2 or already 32 long: a fixed 3-letter word)
func nulInside(w []byte) []byte {
	if len(w) < 2 || len(w) >= 32 {
		w = []byte("USD")
	}
	k := len(w) / 2
	return append(append(append([]byte{}, w[:k]...), 0), w[k:]...)
}

// near-miss variants of a metadata string; nil when the variant would not differ (or not fit)
var nearMiss = map[string]func([]byte) []byte{
	"nulin": func(w []byte) []byte { // "USDT" attested as "US\x00DT"
		if len(w) < 2 || len(w) >= 32 || bytes.IndexByte(w, 0) >= 0 {
			return nil
		}
		return nulInside(w)
	},
	"nulout": func(w []byte) []byte { // contract says "US\x00DT", attested "USDT"
		if bytes.IndexByte(w, 0) < 0 {
			return nil
		}
		return bytes.ReplaceAll(w, []byte{0}, nil)
	},
	"afternul": func(w []byte) []byte { // differs only in a byte after an inner NUL
		k := bytes.IndexByte(w, 0)
		if k < 0 || k+1 >= len(w) {
			return nil
		}
		c := append([]byte{}, w...)
		c[k+1] ^= 1
		return c
	},
	"space": func(w []byte) []byte {
		if len(w) == 0 || len(w) >= 32 {
			return nil
		}
		return append(append([]byte{}, w...), ' ')
	},
	"lspace": func(w []byte) []byte {
		if len(w) == 0 || len(w) >= 32 {
			return nil
		}
		return append([]byte{' '}, w...)
	},
	"case": func(w []byte) []byte {
		c := bytes.ToLower(w)
		if bytes.Equal(c, w) {
			return nil
		}
		return c
	},
}

// otherWord: a different word of at most 32 bytes (one more letter, or one letter changed)
func otherWord(w []byte) []byte {
	c := append([]byte{}, w...)
	if len(c) < 32 {
		return append(c, 'x')
	}
	c[len(c)/2] ^= 1
	return c
}

func (g *fgen) word() []byte {
	n := g.r.Intn(9)
	if g.chance(25) { // up to the full field, so that every byte offset of the payload layout matters
		n = g.pick(31, 32, 32, 9+g.r.Intn(22))
	}
	b := make([]byte, n)
	for i := range b {
		b[i] = byte('A' + g.r.Intn(26))
	}
	return b
}

// degradedShapes: every kind of metadata answer from which GetTokenInfo cannot produce token info (sym / name are the hex strings
// the healthy contract would return, ok the healthy answer).
func degradedShapes(sym, name string, dec uint8, ok string) []string {
	return []string{
		"e", "", "SB" + sym, ok + "|SU1", "SB" + sym + "|SB" + name,
		fmt.Sprintf("F|SB%s|SU%d", name, dec), fmt.Sprintf("SB%s|F|SU%d", sym, dec), fmt.Sprintf("SB%s|SB%s|F", sym, name),
		"F|F|F", fmt.Sprintf("SB%s|N|SU%d", sym, dec), fmt.Sprintf("N|SB%s|SU%d", name, dec), fmt.Sprintf("SB%s|SB%s|N", sym, name),
		fmt.Sprintf("S|SB%s|SU%d", name, dec), fmt.Sprintf("SB%s|S|SU%d", sym, dec), fmt.Sprintf("SB%s|SB%s|S", sym, name),
		fmt.Sprintf("SB%s/B00|SB%s|SU%d", sym, name, dec), fmt.Sprintf("SB%s|SB%s/B00|SU%d", sym, name, dec),
		fmt.Sprintf("SB%s|SB%s|SU%d/U1", sym, name, dec),
		fmt.Sprintf("SU1|SB%s|SU%d", name, dec), fmt.Sprintf("SB%s|SU1|SU%d", sym, dec), fmt.Sprintf("SB%s|SB%s|SB01", sym, name),
		fmt.Sprintf("SB%s|SB%s|SZ", sym, name), fmt.Sprintf("SBzz|SB%s|SU%d", name, dec), fmt.Sprintf("SB%s|SB0|SU%d", sym, dec),
		fmt.Sprintf("SB%s|SB%s|SU256", sym, name), fmt.Sprintf("SB%s|SB%s|SU1x", sym, name),
	}
}

// newToken makes a token whose contract answers consistently (shape S<sym>|S<name>|S<U dec>), possibly degraded.
func (g *fgen) newToken(degrade bool) *tokenTruth {
	t := &tokenTruth{token: g.bytesN(32), decimals: uint8(g.pick(0, 6, 8, 18, 254, g.r.Intn(255))), symbol: g.word(), name: g.word()}
	if g.chance(3) {
		t.decimals = 255
	}
	if g.chance(40) { // a real chain has groups 0..3; the contract lives in the group its id ends with - the bridge's own or another one
		t.token[31] = byte(g.r.Intn(4))
	}
	if g.chance(10) { // the contract's own string has a zero byte inside: only NUL padding at the ends is ever stripped
		if g.chance(50) {
			t.symbol = nulInside(t.symbol)
		} else {
			t.name = nulInside(t.name)
		}
	}
	sym, name := hex.EncodeToString(t.symbol), hex.EncodeToString(t.name)
	if g.chance(30) { // the token contract may report padded strings as well; the watcher trims NULs on both sides
		sym = hex.EncodeToString(pad32(t.symbol, g.chance(50)))
	}
	ok := fmt.Sprintf("SB%s|SB%s|SU%d", sym, name, t.decimals)
	t.shape = ok
	if degrade {
		shapes := degradedShapes(sym, name, t.decimals, ok)
		t.shape = shapes[g.r.Intn(len(shapes))]
	}
	return t
}

// attestFor builds an attestation payload for t; `how` selects faithful or mismatching metadata.
func (g *fgen) attestFor(t *tokenTruth, how string) []byte {
	sym, name := pad32(t.symbol, g.chance(50)), pad32(t.name, g.chance(50))
	dec, chain, tok := t.decimals, uint16(255), t.token
	switch how {
	case "ok":
	case "decimals":
		dec++
	case "symbol":
		sym = pad32(otherWord(t.symbol), true)
	case "name":
		name = pad32(otherWord(t.name), g.chance(50))
	case "chain":
		chain = uint16(g.pick(0, 2, 254, 256))
	default:
		// near-miss encodings of one of the two strings: equal only under a wrong normalisation
		if fn, ok := nearMiss[how]; ok {
			if g.chance(50) {
				if w := fn(t.symbol); w != nil {
					sym = pad32(w, g.chance(50))
				} else {
					sym = pad32(otherWord(t.symbol), true)
				}
			} else {
				if w := fn(t.name); w != nil {
					name = pad32(w, g.chance(50))
				} else {
					name = pad32(otherWord(t.name), true)
				}
			}
		}
	}
	p := attestPayload(tok, chain, dec, sym, name)
	switch how {
	case "len99":
		p = p[:99]
	case "len101":
		p = append(p, 0)
	}
	return p
}

type fcfg struct {
	mainnet bool
	bridge  []byte
	govId   []byte
	gov     string
	tokens  []*tokenTruth
	foreign []string // other contract addresses
	usedTi  map[string]bool
	net     string // "" = the Watcher is a struct literal with generated ids; otherwise it is built by NewAlephiumWatcher from the shipped configuration of that network
}

func (g *fgen) newCfg() *fcfg { return g.newCfgNet("") }

// newCfgNet: net "" = generated contract ids and a random mainnet flag; "mainnet" / "testnet" / "devnet" = what a guardian started
// with --network <net> gets: the contract ids of configs/alephium/<net>.json and isMainnet = (net == "mainnet").
func (g *fgen) newCfgNet(net string) *fcfg {
	c := &fcfg{usedTi: map[string]bool{}, net: net}
	if net == "" {
		c.mainnet, c.bridge, c.govId = g.chance(50), g.bytesN(32), g.bytesN(32)
	} else {
		sc := shipped(net)
		c.mainnet, c.bridge, c.govId = net == "mainnet", sc.bridge, sc.govId
	}
	c.gov = contractAddressOf(c.govId)
	for i := 0; i < 3; i++ {
		c.tokens = append(c.tokens, g.newToken(g.chance(35)))
	}
	c.foreign = []string{contractAddressOf(g.bytesN(32)), contractAddressOf(c.bridge)}
	return c
}

func (c *fcfg) ctor() string {
	if c.net == "" {
		return "-"
	}
	return c.net
}

// buildWatcher: the Watcher of a case. With a shipped configuration it comes out of the production constructor, called the way
// cmd/guardiand/node.go calls it (the fake node then serves the group the configuration names); otherwise it is a struct literal.
func (c *fcfg) buildWatcher(n *fakeNode, msgC chan *common.MessagePublication, obsC chan *gossipv1.ObservationRequest) *Watcher {
	if c.net == "" {
		var bridge Byte32
		copy(bridge[:], c.bridge)
		return &Watcher{
			url: n.srv.URL, governanceContractAddress: c.gov, tokenBridgeContractId: bridge,
			chainIndex: &ChainIndex{FromGroup: n.group, ToGroup: n.group}, msgChan: msgC, obsvReqC: obsC,
			blockPollerEnabled: &atomic.Bool{}, pollIntervalMs: 1, client: NewClient(n.srv.URL, n.key, 10), isMainnet: c.mainnet,
		}
	}
	sc := shipped(c.net)
	n.mu.Lock()
	n.group = int32(sc.cc.GroupIndex)
	n.mu.Unlock()
	w, err := NewAlephiumWatcher(n.srv.URL, n.key, sc.cc, common.ReadinessAlephiumSyncing, msgC, 1, obsC, c.net == "mainnet")
	if err != nil {
		panic("verif harness: NewAlephiumWatcher rejects " + sc.file + ": " + err.Error())
	}
	return w
}

// constructOnly: what a guardian of that network does before its watcher sees anything - it builds the watcher from the shipped
// configuration. The value is dropped; whatever the constructor leaves behind in the package is in force for what follows.
func (g *fgen) constructOnly(net string) {
	c := &fcfg{net: net}
	c.buildWatcher(g.node, make(chan *common.MessagePublication, 1), make(chan *gossipv1.ObservationRequest))
}

func (c *fcfg) installTokens(n *fakeNode) {
	n.mu.Lock()
	defer n.mu.Unlock()
	for _, t := range c.tokens {
		n.ti[contractAddressOf(t.token)] = tiAnswer{t.shape}
	}
}

// randMsg: mostly token-bridge transfers / attestations, sometimes foreign senders and odd payloads.
func (g *fgen) randMsg(c *fcfg) msgSpec {
	m := msgSpec{sender: c.bridge, tc: uint16(g.pick(0, 1, 2, 4, 255, 256, 65534, 65535)), seq: g.r.Uint64() >> uint(g.r.Intn(64)),
		nonce: g.r.Uint32(), cl: g.cl()}
	if g.chance(4) {
		m.seq = math.MaxUint64
	}
	if g.chance(18) {
		m.sender = g.bytesN(32)
		if g.chance(30) { // near miss: one byte off
			m.sender = append([]byte{}, c.bridge...)
			m.sender[g.r.Intn(32)] ^= 1 << uint(g.r.Intn(8))
		}
	}
	switch k := g.r.Intn(100); {
	case k < 45: // transfer
		m.payload = append([]byte{1}, g.bytesN(g.pick(0, 1, 32, 132))...)
	case k < 80: // attestation
		t := c.tokens[g.r.Intn(len(c.tokens))]
		how := "ok"
		if g.chance(30) {
			how = []string{"decimals", "symbol", "name", "chain", "len99", "len101", "nulin", "nulin", "nulout", "afternul", "space", "lspace", "case"}[g.r.Intn(13)]
		}
		m.payload = g.attestFor(t, how)
		if g.chance(6) { // ALPH itself (token id zero): no node call, fixed metadata
			ok := g.chance(70)
			sym, name := []byte("ALPH"), []byte("Alephium")
			if !ok {
				name = []byte("Alephiun")
			}
			m.payload = attestPayload(make([]byte, 32), 255, 18, pad32(sym, true), pad32(name, true))
		}
	case k < 90:
		m.payload = append([]byte{byte(g.pick(0, 3, 255))}, g.bytesN(g.r.Intn(40))...)
	case k < 95:
		m.payload = nil
	default:
		m.payload = []byte{byte(g.pick(1, 2))}
	}
	return m
}

// ---------------------------------------------------------------------------------------------
// direct calls: isEventConfirmed / getConfirmationDuration / handleConfirmedEvents

// genConf: the two finality predicates, called directly. A quarter of the cases each run after a guardian of one network has built
// its watcher from the shipped configuration (net=), with the network flag node.go derives from it; the others before any constructor
// call, with a random flag.
func (g *fgen) genConf(n int) {
	logger := zap.NewNop()
	for _, net := range append([]string{""}, shippedNets...) {
		cnt := n / 2
		if net != "" {
			cnt = n / 6
			g.constructOnly(net)
		}
		netS := net
		if netS == "" {
			netS = "-"
		}
		for i := 0; i < cnt; i++ {
			mainnet := g.chance(50)
			if net != "" {
				mainnet = net == "mainnet"
			}
			cl := g.cl()
			p0 := g.pick(0, 1, 1, 1, 2, 3, -1) // first payload byte, -1 = empty payload
			var payload []byte
			if p0 >= 0 {
				payload = []byte{byte(p0), 7}
			}
			h := int32(g.pick(0, 1, 1000, 5_000_000, math.MaxInt32-300, math.MaxInt32-int(cl), math.MaxInt32-int(cl)+1, math.MaxInt32, -5))
			ts := int64(1_700_000_000_000) + int64(g.r.Intn(1000))
			if g.chance(5) {
				ts = int64(g.pick(0, -1000))
			}
			if g.chance(3) {
				ts = math.MaxInt64 - int64(g.r.Intn(5_000_000))
			}
			eff := int64(cl)
			if mainnet && p0 == 1 && cl < 205 {
				eff = 205
			}
			// height and now around the exact boundaries of the code's two comparisons and of the statement's floors - and of every
			// level a shipped configuration mentions
			height := int32(int64(h) + int64(cl) + int64(g.pick(-2, -1, 0, 0, 1, 2, 300)))
			if g.chance(10) {
				height = int32(g.pick(0, int(h), math.MaxInt32, math.MinInt32))
			}
			lv := g.pick(int(cl), int(eff), 205)
			if g.chance(25) {
				sc := shipped(shippedNets[g.r.Intn(len(shippedNets))])
				lv = sc.levels[g.r.Intn(len(sc.levels))]
			}
			now := ts + int64(lv)*BlockTimeMs + int64(g.pick(-16000, -1, 0, 0, 1, 16000, 1<<40))
			ev := &UnconfirmedEvent{ContractEvent: &sdk.ContractEvent{TxId: "00"}, msg: &WormholeMessage{consistencyLevel: cl, payload: payload}}
			hdr := &sdk.BlockHeaderEntry{Height: h, Timestamp: ts}
			res := isEventConfirmed(logger, ev, hdr, now, height, mainnet)
			g.emit("conf %s mainnet=%s net=%s cl=%d p0=%d h=%d ts=%d height=%d now=%d res=%s clafter=%d", g.id("conf"), fb(mainnet), netS, cl, p0, h, ts, height, now, fb(res),
				ev.msg.consistencyLevel)
		}
		for _, mainnet := range []bool{false, true} {
			if net != "" && mainnet != (net == "mainnet") {
				continue
			}
			for _, transfer := range []bool{false, true} {
				for cl := 0; cl < 256; cl++ {
					if g.tier != "thorough" && cl > 3 && cl < 200 && cl%17 != 0 {
						continue
					}
					res := getConfirmationDuration(mainnet, transfer, uint8(cl))
					g.emit("dur %s mainnet=%s net=%s transfer=%s cl=%d res=%d", g.id("dur"), fb(mainnet), netS, fb(transfer), cl, res)
				}
			}
		}
	}
}

func (g *fgen) genHconf(n int) {
	logger := zap.NewNop()
	for i := 0; i < n; i++ {
		c := g.newCfg()
		var bridge Byte32
		copy(bridge[:], c.bridge)
		msgC := make(chan *common.MessagePublication, 64)
		w := &Watcher{tokenBridgeContractId: bridge, msgChan: msgC, isMainnet: c.mainnet}
		k := g.pick(0, 1, 2, 3, 5, 8)
		// every eighth case is a batch as one height tick confirms it when several blocks become final together: events of
		// different blocks (each block its own timestamp), handed over in the pending map's order - i.e. in any order relative to
		// their sequence numbers - with events of foreign senders anywhere in between
		ordered := i%8 == 0
		var seqs []uint64
		if ordered {
			k = g.pick(2, 3, 5, 8)
			base := uint64(g.r.Intn(1 << 20))
			for j := 0; j < k; j++ {
				seqs = append(seqs, base+uint64(j))
			}
			switch (i / 8) % 3 {
			case 0: // strictly descending
				for a, b := 0, k-1; a < b; a, b = a+1, b-1 {
					seqs[a], seqs[b] = seqs[b], seqs[a]
				}
			case 1: // ascending (a foreign sender goes first, see below)
			default:
				g.r.Shuffle(k, func(a, b int) { seqs[a], seqs[b] = seqs[b], seqs[a] })
			}
		}
		var evs []*evSpec
		var hdrs []string
		var confirmed []*ConfirmedEvent
		for j := 0; j < k; j++ {
			e := &evSpec{id: j, bh: g.hash(), tx: g.hash(), m: g.randMsg(c)}
			if g.chance(8) && !ordered {
				e.idx = int32(g.pick(1, -1, 2))
			}
			h := &sdk.BlockHeaderEntry{Hash: e.bh, Height: int32(g.r.Intn(1000)), Timestamp: int64(g.pick(0, 999, 1000, 1_700_000_000_123, -1, -1001))}
			if ordered {
				e.m.seq, e.m.sender = seqs[j], c.bridge
				if ((i/8)%3 == 1 && j == 0) || ((i/8)%3 == 2 && j == k/2) {
					e.m.sender = g.bytesN(32)
				}
				h.Timestamp = 1_700_000_000_000 + int64(j)*16_000 + int64(g.r.Intn(16_000))
			}
			e.buildFields()
			evs = append(evs, e)
			hdrs = append(hdrs, fmt.Sprintf("%d:%d", h.Height, h.Timestamp))
			confirmed = append(confirmed, &ConfirmedEvent{header: h, event: e.unconfirmedVia(w)})
		}
		errS := "0"
		func() {
			defer func() {
				if r := recover(); r != nil {
					errS = "panic"
				}
			}()
			if err := w.handleConfirmedEvents(logger, confirmed); err != nil {
				errS = "1"
			}
		}()
		g.emit("hconf %s bridge=%s mainnet=%s evs=%s hdrs=%s fwd=%s err=%s", g.id("hconf"), hex.EncodeToString(c.bridge), fb(c.mainnet), renderEvs(evs), fjoin(hdrs, ","),
			fjoin(drainPubs(msgC), ","), errS)
	}
}

// ---------------------------------------------------------------------------------------------
// one watcher life against the fake node

type fblock struct {
	bh     string
	height int32
	ts     int64 // 0 while a `mid` block has not received its first events
	mid    bool  // timestamp placed between floors (>= 10 minutes clear of each)
	evs    []*evSpec
}

type watchRun struct {
	g          *fgen
	id         string
	c          *fcfg
	w          *Watcher
	cancel     context.CancelFunc
	errC       chan error
	evA        chan []*UnconfirmedEvent // fetchEvents -> harness
	evB        chan []*UnconfirmedEvent // harness -> handleEvents
	hC         chan int32               // harness -> handleEvents
	hA         chan int32               // real fetchHeight -> harness (cases with viaFH)
	viaFH      bool                     // heights come from the real fetchHeight polling the fake node's chain-info
	hparked    bool                     // a chain-info request of the height poller is waiting at the gate
	heightDone chan struct{}
	dip        bool // scenario: the node once reports a height far ahead, then falls back (reorg / resync / lagging node)
	anchored   bool // dip scenario: an event in a block with a future timestamp keeps the poller busy meanwhile
	spiked     bool
	msgC       chan *common.MessagePublication
	base       int64 // wall clock (ms) at case start; block timestamps keep >= 10 minutes clear of every floor
	blocks     []*fblock
	byId       map[string]*evSpec // UnconfirmedEvent identity -> spec (fetch path: by position)
	exited     bool
	fetch      bool
	parked     bool // a count request of the fetch loop is waiting at the gate
	nextId     int
	fetchDone  chan struct{}
	handleDone chan struct{}
	panicC     chan string // a watcher goroutine panicked (in production: the guardian process dies)
	panicked   bool
	reobs      bool // this life also runs the real handleObsvRequest loop (same Watcher, same client), like Watcher.Run does
	obsC       chan *gossipv1.ObservationRequest
	reobsDone  chan struct{}
	lives      int  // incarnations started so far (restart scenarios: the loops are started again on the same Watcher value)
	dipped     bool // a count poll of this life was answered lower than an earlier one
}

// newWatchRun: about a third of the lives run a Watcher built by the production constructor from one of the shipped configurations.
func (g *fgen) newWatchRun(kind string, fetch bool, viaFH bool) *watchRun {
	net := ""
	if g.chance(30) {
		net = shippedNets[g.r.Intn(len(shippedNets))]
	}
	return g.newWatchRunNet(kind, fetch, viaFH, net)
}

func (g *fgen) newWatchRunNet(kind string, fetch bool, viaFH bool, net string) *watchRun {
	n := g.node
	n.reset()
	c := g.newCfgNet(net)
	n.gov = c.gov
	c.installTokens(n)
	r := &watchRun{g: g, id: g.id(kind), c: c, fetch: fetch, viaFH: viaFH, base: time.Now().UnixMilli(),
		msgC: make(chan *common.MessagePublication, 4096), obsC: newObsQueue()}
	r.w = c.buildWatcher(n, r.msgC, r.obsC)
	return r
}

func (r *watchRun) catch(who string) {
	if rec := recover(); rec != nil {
		r.panicC <- who
	}
}

// barrier: the event loop accepts an (empty) batch only when it is back in its select, i.e. after the previous batch has been
// filed or the previous height tick has been processed completely (every request of that tick answered, hence logged: the fake
// node logs before it answers). Taken twice so that it never depends on which ready channel the select happened to pick.
// Returns false when the watcher ended instead.
func (r *watchRun) barrier() bool {
	for i := 0; i < 2; i++ {
		select {
		case r.evB <- nil:
		case <-r.errC:
			r.exited = true
			return false
		case <-r.panicC:
			r.exited, r.panicked = true, true
			return false
		}
	}
	return true
}

func (r *watchRun) en() string { return fb(r.w.blockPollerEnabled.Load()) }

// launch starts one incarnation of the watcher the way Watcher.Run does: fresh error / event / height channels and the real
// loops on the SAME Watcher value (handleEvents; for fetch cases fetchEvents, whose first count request is answered count0;
// fetchHeight when heights are polled; handleObsvRequest when the life serves re-observation requests).
// Returns the ` reqs= exit= panic=` part of the line describing the start (fetch cases only).
func (r *watchRun) launch(count0 string) string {
	n := r.g.node
	ctx, cancel := context.WithCancel(context.Background())
	r.cancel = cancel
	r.lives++
	logger := zap.NewNop()
	r.errC, r.evA, r.evB = make(chan error), make(chan []*UnconfirmedEvent), make(chan []*UnconfirmedEvent)
	r.hC, r.hA = make(chan int32), make(chan int32)
	r.handleDone, r.fetchDone, r.panicC = make(chan struct{}), make(chan struct{}), make(chan string, 4)
	r.exited, r.panicked, r.parked, r.hparked = false, false, false, false
	go func() {
		defer close(r.handleDone)
		defer r.catch("handleEvents")
		r.w.handleEvents(ctx, logger, r.w.client, r.errC, r.evB, r.hC)
	}()
	if !r.fetch {
		close(r.fetchDone)
	}
	r.reobsDone = make(chan struct{})
	if r.reobs {
		go func() {
			defer close(r.reobsDone)
			defer r.catch("handleObsvRequest")
			r.w.handleObsvRequest(ctx, logger, r.w.client)
		}()
	} else {
		close(r.reobsDone)
	}
	r.heightDone = make(chan struct{})
	if r.viaFH {
		n.mu.Lock()
		n.hgated = true
		n.mu.Unlock()
		go func() {
			defer close(r.heightDone)
			defer r.catch("fetchHeight")
			r.w.fetchHeight(ctx, logger, r.w.client, r.errC, r.hA)
		}()
	} else {
		close(r.heightDone)
	}
	if !r.fetch {
		return ""
	}
	n.mu.Lock()
	n.gated = true
	switch count0 {
	case "e":
		n.errs["count"] = true
	case "404":
		n.count404 = true
	}
	arrive, release := n.arrive, n.release
	n.mu.Unlock()
	go func() {
		defer close(r.fetchDone)
		defer r.catch("fetchEvents")
		r.w.fetchEvents(ctx, logger, r.w.client, r.errC, r.evA)
	}()
	<-arrive
	release <- struct{}{}
	// the loop either reports an error or comes back with the first tick's count request
	select {
	case <-r.errC:
		r.exited = true
	case <-r.panicC:
		r.exited, r.panicked = true, true
	case <-arrive:
		r.parked = true
	}
	n.mu.Lock()
	delete(n.errs, "count")
	n.count404 = false
	n.mu.Unlock()
	return fmt.Sprintf(" reqs=%s exit=%s panic=%s", fjoin(n.takeLog(), ","), fb(r.exited), fb(r.panicked))
}

// start: the first incarnation of this life.
func (r *watchRun) start(count0 string) {
	line := fmt.Sprintf("winit %s mainnet=%s bridge=%s gov=%s fetch=%s fh=%s ctor=%s ti=%s", r.id, fb(r.c.mainnet), hex.EncodeToString(r.c.bridge), r.c.gov, fb(r.fetch), fb(r.viaFH), r.c.ctor(), r.c.renderTiAddr())
	// what the Watcher of this life holds, and - when the production constructor made it - what the configuration said
	line += fmt.Sprintf(" w=%s;%s;%d;%d;%s", hex.EncodeToString(r.w.tokenBridgeContractId[:]), r.w.governanceContractAddress, r.w.chainIndex.FromGroup,
		r.w.chainIndex.ToGroup, fb(r.w.isMainnet))
	if r.c.net != "" {
		sc := shipped(r.c.net)
		line += fmt.Sprintf(" cfg=%s;%s;%d;%d", sc.cc.Contracts.TokenBridge, sc.cc.Contracts.Governance, sc.cc.GroupIndex, sc.minCL)
	}
	line += r.launch(count0)
	r.g.emit("%s", line)
}

// halt ends the running incarnation the way the supervisor does when Run has returned (or when it restarts a healthy Run): the
// context is cancelled; every loop is waited for. Nothing is released at the gates: a request still parked there is abandoned by
// its (cancelled) client, and the node moves on to new gates with the next incarnation (newEpoch).
func (r *watchRun) halt() {
	r.cancel()
	deadline := time.After(120 * time.Second)
	hd, fd, ed, od := r.handleDone, r.fetchDone, r.heightDone, r.reobsDone
	for hd != nil || fd != nil || ed != nil || od != nil {
		select {
		case <-hd:
			hd = nil
		case <-fd:
			fd = nil
		case <-ed:
			ed = nil
		case <-od:
			od = nil
		case <-r.errC:
		case <-r.evA:
		case <-r.hA:
		case who := <-r.panicC:
			_ = who
			r.panicked = true
		case <-deadline:
			panic("verif harness: watcher goroutines did not stop")
		}
	}
	r.parked, r.hparked = false, false
}

// restart: Run has returned (a node API error reached errC; why = "error") or is cancelled while healthy (why = "cancel"), and
// the supervisor starts it again on the same Watcher value - same client, same poller flag, same process. `down` events are
// appended to the governance contract's log while no incarnation runs.
//
//	wrestart <id> why= down=<n> fwd=<pubs that appeared since the last line> reqs=<first count request> exit= panic= en= stray=<what the request queue held>
func (r *watchRun) restart(why string, count0 string, down []*evSpec) {
	g, n := r.g, r.g.node
	r.halt()
	late := drainPubs(r.msgC)
	sort.Strings(late)
	// no loop runs: whatever the watcher's request queue holds now, the watcher put there itself (the harness hands requests
	// over one at a time and waits for each); it is taken off so that the next incarnation starts with an empty queue
	var stray []string
	for more := true; more; {
		select {
		case x := <-r.obsC:
			if x == nil {
				stray = append(stray, "nil")
			} else {
				stray = append(stray, fmt.Sprintf("%d:%s", x.ChainId, fhex(x.TxHash)))
			}
		default:
			more = false
		}
	}
	key := n.newEpoch()
	// same Client object; only the request header that tells this incarnation's requests from the previous one's changes
	r.w.client.impl.GetConfig().AddDefaultHeader("X-API-KEY", key)
	n.mu.Lock()
	for k := range n.errs {
		delete(n.errs, k)
	}
	n.events = append(n.events, down...)
	n.visible = len(n.events)
	n.count = n.visible
	n.growAfter = nil
	n.pageCap = 1 << 30
	n.mu.Unlock()
	en := r.en()
	rest := r.launch(count0)
	g.emit("wrestart %s why=%s down=%d fwd=%s%s en=%s stray=%s", r.id, why, len(down), fjoin(late, ","), rest, en, fjoin(stray, ","))
}

func (r *watchRun) stop() {
	n := r.g.node
	r.cancel()
	// unblock anything still waiting on a channel or at the gate, and wait until both goroutines are gone
	// (a straggler would otherwise talk to the shared fake node during the next case)
	n.mu.Lock()
	n.gated = false
	n.hgated = false
	n.pageCap = 1 << 30
	arrive, release := n.arrive, n.release
	harrive, hrelease := n.harrive, n.hrelease
	n.mu.Unlock()
	if r.hparked {
		select {
		case hrelease <- struct{}{}:
		case <-time.After(50 * time.Millisecond):
		}
		r.hparked = false
	}
	if r.parked {
		select {
		case release <- struct{}{}:
		case <-time.After(50 * time.Millisecond): // the parked request was already abandoned
		}
		r.parked = false
	}
	deadline := time.After(120 * time.Second)
	hd, fd, ed, od := r.handleDone, r.fetchDone, r.heightDone, r.reobsDone
	for hd != nil || fd != nil || ed != nil || od != nil {
		select {
		case <-hd:
			hd = nil
		case <-fd:
			fd = nil
		case <-ed:
			ed = nil
		case <-od:
			od = nil
		case <-r.errC:
		case <-r.evA:
		case <-r.hA:
		case <-harrive:
			select {
			case hrelease <- struct{}{}:
			case <-time.After(50 * time.Millisecond):
			}
		case <-arrive:
			select {
			case release <- struct{}{}:
			case <-time.After(50 * time.Millisecond): // the handler left with its cancelled request
			}
		case <-deadline:
			panic("verif harness: watcher goroutines did not stop")
		}
	}
}

// newBlock creates a block whose timestamp is chosen relative to the wall clock with wide margins:
// class old (every floor long past), future (no floor reached) or mid: a value at least 10 minutes away from every floor
// the events placed in it can have (fixed when the first events are placed).
func (r *watchRun) newBlock() *fblock {
	g := r.g
	b := &fblock{bh: g.hash(), height: int32(100 + g.r.Intn(50))}
	switch k := g.r.Intn(100); {
	case k < 68:
		b.ts = r.base - 3*60*fMinute - int64(g.r.Intn(86_400_000))
	case k < 76:
		b.ts = r.base + 2*60*fMinute
	default:
		b.mid = true
	}
	r.blocks = append(r.blocks, b)
	n := g.node
	n.mu.Lock()
	n.main[b.bh] = true
	if !b.mid {
		n.hdr[b.bh] = fnHeader{b.height, b.ts}
	}
	n.mu.Unlock()
	return b
}

func fdur(mainnet bool, m msgSpec) int64 {
	cl := int64(m.cl)
	if mainnet && len(m.payload) > 0 && m.payload[0] == 1 && cl < 205 {
		cl = 205
	}
	return cl * BlockTimeMs
}

// clearOf: age x (ms) is at least 10 minutes away from the floors of m under either duration rule
func clearOf(x int64, m msgSpec) bool {
	for _, d := range []int64{fdur(true, m), fdur(false, m)} {
		if x-d < 10*fMinute && d-x < 10*fMinute {
			return false
		}
	}
	return true
}

func pickAge(g *fgen, ms []msgSpec) int64 {
	for try := 0; try < 60; try++ {
		x := int64(g.r.Intn(80)) * fMinute
		ok := true
		for _, m := range ms {
			ok = ok && clearOf(x, m)
		}
		if ok {
			return x
		}
	}
	return 3 * 60 * fMinute
}

// newEvents makes k events spread over existing / new blocks; every block that receives events has its timestamp fixed.
func (r *watchRun) newEvents(k int, allowMalformed bool, oneBlock bool) []*evSpec {
	g := r.g
	var evs []*evSpec
	open := map[*fblock][]msgSpec{}
	// one transaction may publish several messages (two token-bridge calls; a foreign contract's call followed by a
	// token-bridge call; ...): bursts of 2-4 consecutive events share tx id and block, so they also straddle page boundaries
	burstLeft, burstTx := 0, ""
	var burstBlock *fblock
	for j := 0; j < k; j++ {
		m := g.randMsg(r.c)
		var b *fblock
		anchor := false
		if burstLeft > 0 {
			burstLeft--
			b = burstBlock
			if g.chance(70) {
				m.sender = r.c.bridge // the genuine message after a foreign / odd neighbour of the same tx
			}
			if b.mid && b.ts != 0 && !clearOf(r.base-b.ts, m) {
				m.cl, m.payload = b.evs[len(b.evs)-1].m.cl, b.evs[len(b.evs)-1].m.payload
			} else if b.mid && b.ts == 0 && len(open[b]) > 0 && g.chance(50) {
				m.cl = open[b][0].cl
			}
		} else if r.dip && !r.anchored && !oneBlock {
			r.anchored, anchor = true, true
			m = msgSpec{sender: r.c.bridge, tc: 2, seq: uint64(g.r.Intn(1000)), nonce: g.r.Uint32(), cl: g.cl(), payload: []byte{1, 2, 3}}
			b = &fblock{bh: g.hash(), height: int32(100 + g.r.Intn(50)), ts: r.base + 2*60*fMinute}
			r.blocks = append(r.blocks, b)
			g.node.mu.Lock()
			g.node.main[b.bh] = true
			g.node.hdr[b.bh] = fnHeader{b.height, b.ts}
			g.node.mu.Unlock()
		} else if len(r.blocks) > 0 && (oneBlock || g.chance(55)) {
			b = r.blocks[g.r.Intn(len(r.blocks))]
			if b.mid && b.ts != 0 && !clearOf(r.base-b.ts, m) {
				if oneBlock {
					m.cl = b.evs[0].m.cl
					m.payload = b.evs[0].m.payload
				} else {
					b = nil
				}
			}
		}
		if b == nil {
			b = r.newBlock()
		}
		e := &evSpec{id: r.nextId, bh: b.bh, tx: g.hash(), m: m}
		r.nextId++
		if burstTx != "" && b == burstBlock && (burstLeft > 0 || evs[len(evs)-1].tx == burstTx) && len(evs) > 0 && evs[len(evs)-1].bh == b.bh {
			e.tx = burstTx
		} else if len(b.evs) > 0 && g.chance(15) { // several events of one transaction, not adjacent in the log
			e.tx = b.evs[g.r.Intn(len(b.evs))].tx
		}
		if burstLeft == 0 && e.tx != burstTx && !anchor && j+1 < k && g.chance(22) {
			burstLeft, burstTx, burstBlock = 1+g.r.Intn(3), e.tx, b
			if burstLeft > k-1-j {
				burstLeft = k - 1 - j
			}
			if g.chance(35) {
				e.m.sender = g.bytesN(32) // the tx first makes a foreign contract publish
			}
		}
		if burstLeft == 0 && e.tx != burstTx {
			burstTx = ""
		}
		if allowMalformed && !anchor && g.chance(12) {
			e.malform = fMalformKinds[g.r.Intn(len(fMalformKinds))]
		}
		if allowMalformed && !anchor && g.chance(3) {
			e.idx = int32(g.pick(1, -1, 7))
		}
		e.buildFields()
		b.evs = append(b.evs, e)
		if b.mid && b.ts == 0 {
			open[b] = append(open[b], m)
		}
		evs = append(evs, e)
	}
	for _, b := range r.blocks { // slice order: PRNG consumption must not depend on map iteration
		ms, ok := open[b]
		if !ok {
			continue
		}
		b.ts = r.base - pickAge(g, ms)
		n := g.node
		n.mu.Lock()
		n.hdr[b.bh] = fnHeader{b.height, b.ts}
		n.mu.Unlock()
	}
	return evs
}

// batch hands a page to the real handleEvents loop without the fetch loop in front of it - by the production route all the same:
// the page goes through the watcher's own handleUnconfirmedEvents (conversion by toUnconfirmedEvent, attestation validation against
// the node), and what that delivers is what the event loop gets. Events the production route can never deliver but the confirmed-
// event handler guards against (an event index other than 0) are appended as built by the harness (`direct`).
func (r *watchRun) batch(evs []*evSpec) {
	n := r.g.node
	var prod, direct []*evSpec
	for _, e := range evs {
		if e.idx != 0 {
			direct = append(direct, e)
		} else {
			prod = append(prod, e)
		}
	}
	n.takeLog()
	res := "ok"
	var us []*UnconfirmedEvent
	func() {
		defer func() {
			if rec := recover(); rec != nil {
				res, us = "panic", nil
			}
		}()
		var err error
		us, err = r.w.handleUnconfirmedEvents(context.Background(), zap.NewNop(), pageOf(prod))
		if err != nil {
			res, us = "err", nil
		}
	}()
	out := renderUnconfirmeds(us)
	reqs := fjoin(n.takeLog(), ",")
	for _, e := range direct {
		us = append(us, e.toUnconfirmed())
	}
	r.evB <- us
	r.barrier()
	r.g.emit("wbatch %s evs=%s direct=%s reqs=%s out=%s res=%s en=%s", r.id, renderEvs(prod), renderEvs(direct), reqs, out, res, r.en())
}

func (r *watchRun) tables() (string, string) {
	n := r.g.node
	n.mu.Lock()
	defer n.mu.Unlock()
	var ms, hs []string
	for _, b := range r.blocks {
		switch {
		case n.errs["main:"+b.bh]:
			ms = append(ms, b.bh+":e")
		default:
			ms = append(ms, b.bh+":"+fb(n.main[b.bh]))
		}
		h, ok := n.hdr[b.bh]
		switch {
		case n.errs["hdr:"+b.bh] || !ok:
			hs = append(hs, b.bh+":e")
		default:
			hs = append(hs, fmt.Sprintf("%s:%d:%d", b.bh, h.height, h.ts))
		}
	}
	return fjoin(ms, ","), fjoin(hs, ",")
}

// heightTick: the chain is at `height`. Direct cases hand that height to the real handleEvents loop; viaFH cases let the real
// fetchHeight poll it from the fake node (chain-info request gated like the count request) and pass on whatever it passes on.
// `height=` in the line is always the height the node reported last (ground truth); `passed=` is what reached the event loop.
func (r *watchRun) heightTick(height int32, drain bool) {
	n := r.g.node
	passed := "-"
	if r.viaFH {
		en := r.w.blockPollerEnabled.Load()
		if !r.hparked {
			if en {
				select {
				case <-n.harrive:
					r.hparked = true
				case <-time.After(60 * time.Second):
				}
			} else {
				select {
				case <-n.harrive: // a poll that raced with the poller being disabled
					r.hparked = true
				default:
				}
			}
		}
		if !r.hparked {
			mt, ht := r.tables()
			if en { // enabled, yet the poller asks for nothing any more
				r.g.emit("wheight %s height=%d passed=- via=fh stall=1 now=%d main=%s hdr=%s reqs=- fwd=- exit=%s en=%s panic=%s drain=%s", r.id, height,
					time.Now().UnixMilli(), mt, ht, fb(r.exited), r.en(), fb(r.panicked), fb(drain))
			} else { // poller disabled: no height reaches the event loop
				r.g.emit("wskip %s height=%d now=%d main=%s hdr=%s en=%s drain=%s", r.id, height, time.Now().UnixMilli(), mt, ht, r.en(), fb(drain))
			}
			return
		}
	}
	n.mu.Lock()
	n.height = height
	n.mu.Unlock()
	n.takeLog()
	mt, ht := r.tables()
	now := time.Now().UnixMilli()
	if r.viaFH {
		r.hparked = false
		n.hrelease <- struct{}{}
		select {
		case h := <-r.hA:
			passed = fmt.Sprint(h)
			r.hC <- h
		case <-r.errC:
			r.exited = true
		case <-r.panicC:
			r.exited, r.panicked = true, true
		}
	} else {
		passed = fmt.Sprint(height)
		r.hC <- height
	}
	if !r.exited {
		r.barrier()
	}
	fwd := drainPubs(r.msgC)
	sort.Strings(fwd)
	r.g.emit("wheight %s height=%d passed=%s via=%s now=%d main=%s hdr=%s reqs=%s fwd=%s exit=%s en=%s panic=%s drain=%s", r.id, height, passed,
		map[bool]string{true: "fh", false: "direct"}[r.viaFH], now, mt, ht,
		fjoin(sortedLog(n.takeLog()), ","), fjoin(fwd, ","), fb(r.exited), r.en(), fb(r.panicked), fb(drain))
}

// randomHeights: values around the confirmation boundaries of the pending events, plus stalls and steps back.
func (r *watchRun) interestingHeight(cur int32) int32 {
	g := r.g
	if r.dip && r.anchored && !r.spiked {
		r.spiked = true
		return 600 + int32(g.r.Intn(100))
	}
	var cands []int32
	for _, b := range r.blocks {
		for _, e := range b.evs {
			x := b.height + int32(e.m.cl)
			cands = append(cands, x-1, x, x, x+1)
		}
	}
	switch k := g.r.Intn(100); {
	case k < 55 && len(cands) > 0:
		return cands[g.r.Intn(len(cands))]
	case k < 70:
		return cur
	case k < 80:
		return cur + int32(g.r.Intn(20))
	case k < 85:
		return cur - int32(g.r.Intn(5))
	default:
		return 100 + int32(g.r.Intn(450))
	}
}

// flip canonical flags (reorg: orphan / re-include) and inject API errors for the next height tick
func (r *watchRun) perturb(errPct int) {
	g, n := r.g, r.g.node
	n.mu.Lock()
	defer n.mu.Unlock()
	for k := range n.errs {
		if strings.HasPrefix(k, "main:") || strings.HasPrefix(k, "hdr:") || k == "height" {
			delete(n.errs, k)
		}
	}
	if r.viaFH && errPct > 0 && g.chance(3) {
		n.errs["height"] = true
	}
	for _, b := range r.blocks {
		if g.chance(12) {
			n.main[b.bh] = !n.main[b.bh]
		}
		if g.chance(errPct) {
			if g.chance(50) {
				n.errs["main:"+b.bh] = true
			} else {
				n.errs["hdr:"+b.bh] = true
			}
		}
	}
}

// settle: every block canonical, no errors (used for the final drain ticks)
func (r *watchRun) settle() {
	n := r.g.node
	n.mu.Lock()
	defer n.mu.Unlock()
	for k := range n.errs {
		delete(n.errs, k)
	}
}

// pollCase: batches handed in directly, heights, reorgs, API errors.
func (g *fgen) pollCase() {
	r := g.newWatchRun("poll", false, g.chance(50))
	r.start("")
	oneBlock := g.chance(15)
	r.dip = !oneBlock && g.chance(25)
	if oneBlock {
		r.newBlock()
	}
	steps := g.pick(2, 4, 6, 10, 16)
	cur := int32(100)
	for s := 0; s < steps && !r.exited; s++ {
		if g.chance(40) || s == 0 {
			evs := r.newEvents(g.pick(0, 1, 1, 2, 3, 6), false, oneBlock)
			if oneBlock && g.chance(20) && len(evs) > 0 {
				e := evs[g.r.Intn(len(evs))]
				e.idx = int32(g.pick(1, -1))
			}
			r.batch(evs)
		} else {
			r.perturb(g.pick(0, 0, 0, 4))
			cur = r.interestingHeight(cur)
			r.heightTick(cur, false)
		}
	}
	// drain: the chain moves far ahead, nothing fails any more
	for s := 0; s < 2 && !r.exited; s++ {
		r.settle()
		r.heightTick(1000+int32(s), true)
	}
	r.stop()
}

// ---------------------------------------------------------------------------------------------
// restart scenarios: the loops are stopped by a node API error (or cancelled while healthy) and started again on the same
// Watcher value, the way the supervisor restarts Watcher.Run. Everything forwarded across all incarnations of one life is
// judged against the fake node's event log: each fetched event at most once; what is delivered after the last restart and is
// final is owed.

// oldBlock: a canonical block whose timestamp lies hours behind every floor.
func (r *watchRun) oldBlock() *fblock {
	g, n := r.g, r.g.node
	b := &fblock{bh: g.hash(), height: int32(100 + g.r.Intn(50)), ts: r.base - 3*60*fMinute - int64(g.r.Intn(86_400_000))}
	r.blocks = append(r.blocks, b)
	n.mu.Lock()
	n.main[b.bh] = true
	n.hdr[b.bh] = fnHeader{b.height, b.ts}
	n.mu.Unlock()
	return b
}

// mkEvent: a well-typed event carrying m in block b, next position of the governance contract's log.
func (r *watchRun) mkEvent(b *fblock, m msgSpec) *evSpec {
	e := &evSpec{id: r.nextId, bh: b.bh, tx: r.g.hash(), m: m}
	r.nextId++
	e.buildFields()
	b.evs = append(b.evs, e)
	return e
}

// quickEvents: k messages in old canonical blocks with consistency levels 0..3 - final at the first height tick at or above
// block height + 3, whatever the network. Mostly token-bridge transfers; now and then a foreign sender in between.
func (r *watchRun) quickEvents(k int) []*evSpec {
	g := r.g
	var evs []*evSpec
	var b *fblock
	for j := 0; j < k; j++ {
		if b == nil || g.chance(50) {
			b = r.oldBlock()
		}
		m := msgSpec{sender: r.c.bridge, tc: uint16(g.pick(0, 2, 4, 255)), seq: g.r.Uint64() >> uint(g.r.Intn(64)), nonce: g.r.Uint32(), cl: uint8(g.r.Intn(4))}
		if g.chance(75) {
			m.payload = append([]byte{1}, g.bytesN(g.pick(32, 132))...)
		} else {
			m.payload = append([]byte{byte(g.pick(3, 255))}, g.bytesN(g.r.Intn(40))...)
		}
		if g.chance(12) {
			m.sender = g.bytesN(32)
		}
		evs = append(evs, r.mkEvent(b, m))
	}
	return evs
}

func (g *fgen) rstCase(shape int) {
	viaFH := g.chance(50)
	if shape == 4 {
		viaFH = true
	}
	r := g.newWatchRun("rst", true, viaFH)
	n := g.node
	pre := r.newEvents(g.pick(0, 0, 2, 5), true, false) // history before the first start
	n.mu.Lock()
	n.events = append(n.events, pre...)
	n.visible = len(n.events)
	n.count = n.visible
	n.mu.Unlock()
	r.start("")
	h := int32(1000)
	restarts := 0
	tickQuick := func(k int) {
		if !r.exited {
			r.fetchTickEvs(tickScript{newVisible: k, pageSize: g.pick(1, 2, 3, 100), pageErr: -1}, r.quickEvents(k))
		}
	}
	height := func(drain bool) {
		if !r.exited {
			h++
			r.heightTick(h, drain)
		}
	}
	failCount := func() { // the count poll of the next tick fails (events may have been appended meanwhile: they stay unfetched)
		if !r.exited {
			k := g.pick(0, 0, 1, 2)
			r.fetchTickEvs(tickScript{newVisible: k, pageSize: 100, pageErr: -1, countErr: true}, r.quickEvents(k))
		}
	}
	restart := func(why, count0 string) {
		restarts++
		r.restart(why, count0, r.quickEvents(g.pick(0, 0, 0, 1, 3)))
	}
	switch shape {
	case 0: // fetched, handed over and forwarded; the very next count poll fails
		tickQuick(1 + g.r.Intn(3))
		height(false)
		failCount()
		restart("error", "")
	case 1: // fetched and handed over, not yet processed; the next count poll fails
		tickQuick(1 + g.r.Intn(3))
		failCount()
		restart("error", "")
	case 2: // a page request fails: right after the count poll, or between two pages
		k := 2 + g.r.Intn(3)
		if g.chance(50) {
			tickQuick(1 + g.r.Intn(2))
			height(false)
		}
		if !r.exited {
			r.fetchTickEvs(tickScript{newVisible: k, pageSize: 1, pageErr: g.r.Intn(k)}, r.quickEvents(k))
		}
		restart("error", "")
	case 3: // after a hand-over the event loop ends on a main-chain / header error
		evs := r.quickEvents(1 + g.r.Intn(3))
		if !r.exited {
			r.fetchTickEvs(tickScript{newVisible: len(evs), pageSize: g.pick(1, 100), pageErr: -1}, evs)
		}
		n.mu.Lock()
		if g.chance(50) {
			n.errs["main:"+evs[g.r.Intn(len(evs))].bh] = true
		} else {
			n.errs["hdr:"+evs[g.r.Intn(len(evs))].bh] = true
		}
		n.mu.Unlock()
		height(false)
		restart("error", "")
	case 4: // the height poller ends on a chain-info error
		tickQuick(1 + g.r.Intn(3))
		if g.chance(50) {
			height(false)
			tickQuick(1 + g.r.Intn(2))
		}
		n.mu.Lock()
		n.errs["height"] = true
		n.mu.Unlock()
		height(false)
		restart("error", "")
	case 5: // a healthy Run is cancelled and started again (a sibling runnable of the same supervisor group failed)
		tickQuick(1 + g.r.Intn(3))
		if g.chance(70) {
			height(false)
		}
		restart("cancel", "")
	case 6: // the restarted watcher fails at once (the node is still down), and is started a third time
		tickQuick(1 + g.r.Intn(3))
		height(false)
		failCount()
		restart("error", "e")
		restart("error", "")
	case 7: // some messages forwarded, others still pending, when the count poll fails
		r.fetchTick(g.randScript(true), true)
		if !r.exited {
			r.heightTick(r.interestingHeight(100), false)
		}
		tickQuick(1 + g.r.Intn(3))
		height(false)
		failCount()
		restart("error", "")
	default: // random walk with frequent faults; every exit is followed by a restart
		steps := 6 + g.r.Intn(8)
		cur := int32(100)
		for s := 0; s < steps; s++ {
			if r.exited {
				if r.panicked || restarts >= 3 {
					break
				}
				c0 := ""
				if g.chance(10) {
					c0 = "e"
				}
				restart("error", c0)
				continue
			}
			switch k := g.r.Intn(100); {
			case k < 35:
				sc := g.randScript(false)
				if g.chance(12) {
					sc.countErr = true
				}
				if g.chance(12) {
					sc.pageErr = g.r.Intn(3)
				}
				r.fetchTick(sc, true)
			case k < 55:
				tickQuick(g.r.Intn(3))
			case k < 92:
				r.perturb(g.pick(0, 0, 6, 12))
				if g.chance(50) {
					cur = r.interestingHeight(cur)
					r.heightTick(cur, false)
				} else {
					height(false)
				}
			default:
				restart("cancel", "")
			}
		}
		if r.exited && !r.panicked {
			restart("error", "")
		}
	}
	// after the (last) restart: ticks and height ticks with every block canonical and no fault, then the drain
	r.settle()
	n.mu.Lock()
	for _, b := range r.blocks {
		n.main[b.bh] = true
	}
	n.mu.Unlock()
	for round := 0; round < 1+g.r.Intn(2) && !r.exited; round++ {
		if round == 0 || g.chance(60) {
			tickQuick(g.r.Intn(3))
		} else {
			r.fetchTick(g.randScript(true), true)
		}
		height(false)
	}
	if !r.exited {
		r.fetchTickEvs(tickScript{pageSize: 100, pageErr: -1}, nil)
	}
	for s := 0; s < 2 && !r.exited; s++ {
		r.settle()
		height(true)
	}
	r.stop()
}

func (g *fgen) genRestarts(rounds int) {
	for i := 0; i < rounds; i++ {
		for shape := 0; shape <= 8; shape++ {
			g.rstCase(shape)
		}
	}
}

// ---------------------------------------------------------------------------------------------
// re-observation requests

func (g *fgen) reobsCase() {
	n := g.node
	n.reset()
	net := ""
	if g.chance(30) {
		net = shippedNets[g.r.Intn(len(shippedNets))]
	}
	c := g.newCfgNet(net)
	n.gov = c.gov
	c.installTokens(n)
	msgC := make(chan *common.MessagePublication, 256)
	obsC := newObsQueue()
	w := c.buildWatcher(n, msgC, obsC)
	base := time.Now().UnixMilli()
	id := g.id("reobs")

	tx := g.bytesN(32)
	txs := hex.EncodeToString(tx)
	chain := uint32(255)
	if g.chance(6) {
		chain = uint32(g.pick(0, 2, 254, 256))
	}
	hashLen := 32
	if g.chance(6) {
		hashLen = g.pick(0, 31, 33, 64)
	}
	reqHash := append(append([]byte{}, tx...), g.bytesN(32)...)[:hashLen]

	bh1, bh2 := g.hash(), g.hash()
	status := "c:" + bh1
	switch k := g.r.Intn(100); {
	case k < 5:
		status = "mem"
	case k < 10:
		status = "nf"
	case k < 14:
		status = "e"
	}
	// events of the transaction, across contracts and (after a reorg) across blocks
	k := g.pick(0, 1, 1, 2, 2, 3, 5)
	var evs []*evSpec
	var ms1, ms2 []msgSpec
	for j := 0; j < k; j++ {
		e := &evSpec{id: j, bh: bh1, tx: txs, contract: c.gov, m: g.randMsg(c)}
		if g.chance(25) {
			e.contract = c.foreign[g.r.Intn(len(c.foreign))]
		}
		if g.chance(12) {
			e.bh = bh2
		}
		if g.chance(12) {
			e.idx = int32(g.pick(1, -1, 2))
		}
		if g.chance(6) {
			e.malform = fMalformKinds[g.r.Intn(len(fMalformKinds))]
		}
		e.buildFields()
		evs = append(evs, e)
		if e.bh == bh1 {
			ms1 = append(ms1, e.m)
		} else {
			ms2 = append(ms2, e.m)
		}
	}
	// headers: timestamps old / future / clear of every floor by >= 10 minutes
	pickTs := func(ms []msgSpec) int64 {
		switch kk := g.r.Intn(100); {
		case kk < 45:
			return base - 3*60*fMinute - int64(g.r.Intn(86_400_000))
		case kk < 55:
			return base + 2*60*fMinute
		}
		return base - pickAge(g, ms)
	}
	h1 := fnHeader{int32(100 + g.r.Intn(50)), pickTs(ms1)}
	h2 := fnHeader{int32(100 + g.r.Intn(50)), pickTs(ms2)}
	// current height around the boundaries
	var cands []int32
	for _, e := range evs {
		hh := h1.height
		if e.bh == bh2 {
			hh = h2.height
		}
		x := hh + int32(e.m.cl)
		cands = append(cands, x-1, x, x, x+1, x+300)
	}
	height := int32(100 + g.r.Intn(500))
	if len(cands) > 0 && g.chance(75) {
		height = cands[g.r.Intn(len(cands))]
	}
	n.mu.Lock()
	n.status[txs] = status
	if status == "e" {
		n.errs["status:"+txs] = true
	}
	n.txev[txs] = evs
	if g.chance(4) {
		n.errs["txev:"+txs] = true
	}
	n.hdr[bh1], n.hdr[bh2] = h1, h2
	if g.chance(4) {
		n.errs["hdr:"+bh1] = true
	}
	n.main[bh1] = !g.chance(15)
	n.main[bh2] = g.chance(15)
	if g.chance(4) {
		n.errs["main:"+bh1] = true
	}
	n.height = height
	if g.chance(4) {
		n.errs["height"] = true
	}
	evtab := "e"
	if !n.errs["txev:"+txs] {
		evtab = renderEvs(evs)
	}
	tab := func(bh string, h fnHeader) string {
		if n.errs["hdr:"+bh] {
			return bh + ":e"
		}
		return fmt.Sprintf("%s:%d:%d", bh, h.height, h.ts)
	}
	mtab := func(bh string) string {
		if n.errs["main:"+bh] {
			return bh + ":e"
		}
		return bh + ":" + fb(n.main[bh])
	}
	hs := "e"
	if !n.errs["height"] {
		hs = fmt.Sprint(height)
	}
	line := fmt.Sprintf("mainnet=%s ctor=%s bridge=%s gov=%s chain=%d hash=%s status=%s evs=%s hdr=%s,%s main=%s,%s ti=%s height=%s",
		fb(c.mainnet), c.ctor(), hex.EncodeToString(c.bridge), c.gov, chain, fhex(reqHash), status, evtab, tab(bh1, h1), tab(bh2, h2), mtab(bh1), mtab(bh2),
		c.renderTiAddr(), hs)
	n.mu.Unlock()

	ctx, cancel := context.WithCancel(context.Background())
	done := make(chan string, 1)
	go func() {
		defer func() {
			if r := recover(); r != nil {
				done <- "panic"
			}
		}()
		w.handleObsvRequest(ctx, zap.NewNop(), w.client)
		done <- "returned"
	}()
	now := time.Now().UnixMilli()
	stray, res := serveReobs(n, obsC, &gossipv1.ObservationRequest{ChainId: chain, TxHash: reqHash}, done)
	cancel()
	if res == "ok" {
		<-done
	}
	g.emit("reobs %s %s now=%d reqs=%s fwd=%s res=%s stray=%s", id, line, now, fjoin(n.takeLog(), ","), fjoin(drainPubs(msgC), ","), res, fjoin(stray, ","))
}

// ---------------------------------------------------------------------------------------------
// both delivery paths over the same events, under every configuration a guardian can be started with
//
// One life per configuration source - a struct literal (mainnet flag either way) and the Watcher the production constructor builds
// from configs/alephium/{mainnet,testnet,devnet}.json - serves the polling path and re-observation requests for the same events:
// token transfers with consistency levels around every level a shipped configuration mentions (and 205), an attestation, another
// payload, a foreign sender; each transfer once per gap between two candidate floors (block age >= 12 minutes away from
// level x 16 s for each candidate level: the message's own, 205, and every small integer found in the shipped files) and once
// beyond all of them. What each path hands to the signer is judged against the event (`...-forwarded-altered`), against the
// statement's floor (`...-mainnet-transfer-floor`), and the publications of the two paths for one event against each other.

// floorAges: block ages (ms) between and beyond the candidate floors of a message with consistency level cl.
func floorAges(cl uint8) []int64 {
	set := map[int64]bool{int64(cl) * BlockTimeMs: true, 205 * BlockTimeMs: true}
	for _, net := range shippedNets {
		for _, lv := range shipped(net).levels {
			set[int64(lv)*BlockTimeMs] = true
		}
	}
	var ds []int64
	for d := range set {
		ds = append(ds, d)
	}
	sort.Slice(ds, func(a, b int) bool { return ds[a] < ds[b] })
	var ages []int64
	for i := 0; i+1 < len(ds); i++ {
		if ds[i+1]-ds[i] >= 24*fMinute {
			ages = append(ages, (ds[i]+ds[i+1])/2)
		}
	}
	return append(ages, ds[len(ds)-1]+15*fMinute)
}

// agedBlock: a canonical block whose timestamp lies `age` ms before the start of the case.
func (r *watchRun) agedBlock(age int64) *fblock {
	g, n := r.g, r.g.node
	b := &fblock{bh: g.hash(), height: int32(100 + g.r.Intn(50)), ts: r.base - age}
	r.blocks = append(r.blocks, b)
	n.mu.Lock()
	n.main[b.bh] = true
	n.hdr[b.bh] = fnHeader{b.height, b.ts}
	n.mu.Unlock()
	return b
}

func (g *fgen) pathsCase(net string, fetch bool) {
	r := g.newWatchRunNet("paths", fetch, false, net)
	r.reobs = true
	n := g.node
	// one token whose contract answers healthily, for the attestation
	tok := g.newToken(false)
	r.c.tokens[0] = tok
	n.mu.Lock()
	n.ti = map[string]tiAnswer{}
	n.mu.Unlock()
	r.c.installTokens(n)
	r.start("")
	h := int32(1000)
	n.mu.Lock()
	n.height = h
	n.mu.Unlock()
	var levels []int
	for _, nt := range shippedNets {
		levels = append(levels, shipped(nt).levels...)
	}
	cls := []uint8{uint8(g.pick(0, 1, 2, 3)), uint8(g.r.Intn(256))}
	for j := 0; j < 3; j++ { // around the levels the shipped files mention, and around 205
		lv := g.pick(append(levels, 205, 205)...) + g.pick(-1, 0, 1)
		if lv < 0 {
			lv = 0
		}
		if lv > 255 {
			lv = 255
		}
		cls = append(cls, uint8(lv))
	}
	var evs []*evSpec
	mk := func(m msgSpec, age int64) {
		e := r.mkEvent(r.agedBlock(age), m)
		r.registerTx(e, r.c.gov)
		evs = append(evs, e)
	}
	for _, cl := range cls {
		for _, age := range floorAges(cl) {
			mk(msgSpec{sender: r.c.bridge, tc: uint16(g.pick(0, 2, 4, 65535)), seq: g.r.Uint64() >> uint(g.r.Intn(64)), nonce: g.r.Uint32(), cl: cl,
				payload: append([]byte{1}, g.bytesN(g.pick(32, 132))...)}, age)
		}
	}
	far := 3*60*fMinute + int64(g.r.Intn(86_400_000))
	mk(msgSpec{sender: r.c.bridge, tc: 0, seq: uint64(g.r.Intn(1000)), nonce: g.r.Uint32(), cl: g.cl(), payload: g.attestFor(tok, "ok")}, far)
	mk(msgSpec{sender: r.c.bridge, tc: 2, seq: uint64(g.r.Intn(1000)), nonce: g.r.Uint32(), cl: g.cl(), payload: append([]byte{byte(g.pick(0, 3, 255))}, g.bytesN(g.r.Intn(40))...)}, far)
	mk(msgSpec{sender: r.c.bridge, tc: 2, seq: uint64(g.r.Intn(1000)), nonce: g.r.Uint32(), cl: g.cl(), payload: nil}, far)
	mk(msgSpec{sender: g.bytesN(32), tc: 2, seq: uint64(g.r.Intn(1000)), nonce: g.r.Uint32(), cl: uint8(g.r.Intn(4)), payload: append([]byte{1}, g.bytesN(132)...)}, far)
	g.r.Shuffle(len(evs), func(a, b int) { evs[a], evs[b] = evs[b], evs[a] })
	for i, e := range evs { // log positions follow the order of the log
		e.id = i
	}
	n.mu.Lock()
	for _, e := range evs { // registerTx copied the event before its position was final
		for _, c := range n.txev[e.tx] {
			c.id = e.id
		}
	}
	n.mu.Unlock()
	if g.chance(50) { // a re-observation request may reach the watcher before the polling path has seen the event
		for _, e := range evs {
			if !r.exited {
				r.reobserve(e.tx)
			}
		}
	}
	if fetch {
		if !r.exited {
			r.fetchTickEvs(tickScript{newVisible: len(evs), pageSize: g.pick(1, 3, 100), pageErr: -1}, evs)
		}
	} else {
		r.batch(evs)
	}
	if !r.exited {
		r.heightTick(h, false)
	}
	for _, e := range evs {
		if !r.exited {
			r.reobserve(e.tx)
		}
	}
	if fetch && !r.exited {
		r.fetchTickEvs(tickScript{pageSize: 100, pageErr: -1}, nil)
	}
	for s := 0; s < 2 && !r.exited; s++ {
		r.settle()
		h++
		r.heightTick(h, true)
	}
	r.stop()
}

func (g *fgen) genPaths(rounds int) {
	for i := 0; i < rounds; i++ {
		for _, net := range append([]string{"", ""}, shippedNets...) {
			g.pathsCase(net, g.chance(50))
		}
	}
}

// ---------------------------------------------------------------------------------------------
// page-failure histories: one request of a multi-page round fails once (every page position in turn, or the count poll), then
// the node is healthy again. Whether the watcher ends (and is started again by the supervisor) or carries on is its business;
// every message the node served in a page answer of a watcher that keeps running is owed to the signer, exactly once.

func (g *fgen) pgfCase(pages, pos, pageSize int) {
	r := g.newWatchRun("pgf", true, g.chance(50))
	n := g.node
	pre := r.newEvents(g.pick(0, 0, 2), true, false)
	n.mu.Lock()
	n.events = append(n.events, pre...)
	n.visible = len(n.events)
	n.count = n.visible
	n.mu.Unlock()
	r.start("")
	h := int32(1000)
	tickQuick := func(k int) {
		if !r.exited {
			r.fetchTickEvs(tickScript{newVisible: k, pageSize: g.pick(1, 2, 3, 100), pageErr: -1}, r.quickEvents(k))
		}
	}
	height := func(drain bool) {
		if !r.exited {
			h++
			r.heightTick(h, drain)
		}
	}
	if g.chance(50) { // a healthy round first
		tickQuick(1 + g.r.Intn(2))
		height(false)
	}
	k := pages*pageSize - g.r.Intn(pageSize) // the last page may be short
	if !r.exited {
		sc := tickScript{newVisible: k, pageSize: pageSize, pageErr: pos}
		if pos < 0 {
			sc.pageErr, sc.countErr = -1, true
		}
		total := k
		if g.chance(25) { // the log grows while the round is under way
			sc.growAfter = make([]int, 1+g.r.Intn(pages))
			sc.growAfter[len(sc.growAfter)-1] = 1 + g.r.Intn(2)
			total += sc.growAfter[len(sc.growAfter)-1]
		}
		r.fetchTickEvs(sc, r.quickEvents(total))
	}
	if r.exited && !r.panicked { // Run returned the error; the supervisor starts it again on the same Watcher
		r.restart("error", "", r.quickEvents(g.pick(0, 0, 1)))
	}
	// the node is healthy from now on
	r.settle()
	for round := 0; round < 1+g.r.Intn(2); round++ {
		tickQuick(g.r.Intn(3))
		height(false)
	}
	if !r.exited {
		r.fetchTickEvs(tickScript{pageSize: 100, pageErr: -1}, nil)
	}
	for s := 0; s < 2 && !r.exited; s++ {
		r.settle()
		height(true)
	}
	r.stop()
}

func (g *fgen) genPageFail(rounds int) {
	for i := 0; i < rounds; i++ {
		for _, pageSize := range []int{1, 2} {
			for pages := 2; pages <= 4; pages++ {
				for pos := -1; pos < pages; pos++ {
					g.pgfCase(pages, pos, pageSize)
				}
			}
		}
	}
}

// ---------------------------------------------------------------------------------------------
// re-observation while the node API fails: one life serves requests for transactions of the token bridge while ONE kind of node
// request of the re-observation path fails (transaction status, events by transaction id, block header, main-chain test, chain
// height) - once, or for three requests in a row - and then answers again; the same transaction is asked for again afterwards (the
// dispatcher forwards a pair again once its window has lapsed). The harness plays the dispatcher and owns the watcher's request
// queue: after every request it handed over, whatever else is on that queue is recorded (`stray=`).

func (g *fgen) reobsFailCase(pos string, failures int, net string) {
	r := g.newWatchRunNet("rfail", false, false, net)
	r.reobs = true
	n := g.node
	r.start("")
	h := int32(1000)
	n.mu.Lock()
	n.height = h
	n.mu.Unlock()
	evs := r.quickEvents(2 + g.r.Intn(2))
	for _, e := range evs {
		r.registerTx(e, r.c.gov)
	}
	e := evs[0]
	key := map[string]string{"status": "status:" + e.tx, "txev": "txev:" + e.tx, "hdr": "hdr:" + e.bh, "main": "main:" + e.bh, "height": "height"}[pos]
	n.mu.Lock()
	n.errs[key] = true
	n.mu.Unlock()
	for i := 0; i < failures && !r.exited; i++ {
		r.reobserve(e.tx)
		if i == 0 && g.chance(50) && !r.exited { // another transaction in between: only the failing request position is shared
			r.reobserve(evs[1].tx)
		}
	}
	r.settle()
	for i := 0; i < 2 && !r.exited; i++ { // the node answers again
		r.reobserve(e.tx)
	}
	if !r.exited {
		r.reobserve(evs[len(evs)-1].tx)
	}
	r.stop()
}

func (g *fgen) genReobsFail(rounds int) {
	for i := 0; i < rounds; i++ {
		for _, pos := range []string{"status", "txev", "hdr", "main", "height"} {
			for _, failures := range []int{1, 3} {
				net := ""
				if g.chance(30) {
					net = shippedNets[g.r.Intn(len(shippedNets))]
				}
				g.reobsFailCase(pos, failures, net)
			}
		}
	}
}

// genC17: the Alephium watcher's end of C17 ("forwarded ... at most once per (chain, transaction) within the suppression window",
// observed on the watcher's request queue): re-observation requests with node failures at every request position.
func (g *fgen) genC17() {
	nReobs, nFail := 250, 2
	if g.tier == "thorough" {
		nReobs, nFail = 3000, 20
	}
	g.genReobsFail(nFail)
	for i := 0; i < nReobs; i++ {
		g.reobsCase()
	}
}

// genC04: what reaches the signer for one on-chain event must not depend on the path it took or the configuration of the guardian
// (C04: "every honest guardian observing the same message signs the same 32 bytes").
func (g *fgen) genC04() {
	nHconf, nPaths := 120, 2
	if g.tier == "thorough" {
		nHconf, nPaths = 1200, 20
	}
	g.genHconf(nHconf)
	g.genPaths(nPaths)
}

// genC08: finality predicates with exact boundaries, the confirmed-event handler, the event loop with batches handed in
// directly, the whole polling pipeline (fewer cases than under C09) and the re-observation path.
func (g *fgen) genC08() {
	nConf, nHconf, nPoll, nPipe, nReobs := 1500, 300, 500, 200, 1500
	if g.tier == "thorough" {
		nConf, nHconf, nPoll, nPipe, nReobs = 20000, 3000, 6000, 2500, 20000
	}
	g.genConf(nConf)
	g.genHconf(nHconf)
	g.genHunconf(nHconf) // attestation validation at the fetch loop ("attested metadata equals what the token contract reports")
	for i := 0; i < nPoll; i++ {
		g.pollCase()
	}
	for i := 0; i < nPipe; i++ {
		if i%4 == 3 {
			g.pipeCase("faulty")
		} else {
			g.pipeCase("clean")
		}
	}
	for i := 0; i < nReobs; i++ {
		g.reobsCase()
	}
	// "the polling path forwards each fetched event at most once" across restarts of Run on the same Watcher, and attestations
	// after failed metadata lookups of the same token id (see c09_fetch_verif_test.go)
	nRst, nMeta := 8, 1
	if g.tier == "thorough" {
		nRst, nMeta = 80, 8
	}
	g.genRestarts(nRst)
	g.genMeta(nMeta)
	g.genPaths(nMeta * 2)
	g.genPageFail(nMeta)
	g.genDips(nMeta)
	g.genReobsFail(nMeta)
	g.genMetaChange(nMeta) // "the attested metadata equals what the token contract itself reports" while those answers change
}
