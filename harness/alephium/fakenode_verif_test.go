//go:build verif

package alephium

// Shared pieces of the C08 / C09 correspondence harness (family `alphwatch`), injected into package
// alephium by `go test -overlay`:
//
//   * a fake Alephium full node (httptest REST server implementing exactly the endpoints client.go calls),
//     scripted by the case generators and keeping a request/answer log;
//   * event / message specifications with a generator-side ground truth ("does this event convert, and to what");
//   * the writer for `$VERIF_OUT/alphwatch.cases` and the test entry point `TestVerifAlphWatch`
//     (env VERIF_PART = c08 | c09 | c04 | c17 | all selects the generators).
//
// Everything the real code asks the node is answered from tables that are also written into the case
// line, so the Lean model is a pure function of the line stream.

import (
	"bufio"
	"encoding/hex"
	"encoding/json"
	"fmt"
	"math/rand"
	"net/http"
	"net/http/httptest"
	"os"
	"path/filepath"
	"sort"
	"strconv"
	"strings"
	"sync"
	"testing"

	"github.com/alephium/wormhole-fork/node/pkg/common"
	"github.com/btcsuite/btcutil/base58"
)

// ---------------------------------------------------------------------------------------------
// small helpers

func fhex(b []byte) string {
	if len(b) == 0 {
		return "-"
	}
	return hex.EncodeToString(b)
}

func fjoin(xs []string, sep string) string {
	if len(xs) == 0 {
		return "-"
	}
	return strings.Join(xs, sep)
}

func fb(b bool) string {
	if b {
		return "1"
	}
	return "0"
}

type fgen struct {
	r    *rand.Rand
	w    *bufio.Writer
	n    int
	dist map[string]int
	tier string
	node *fakeNode
}

func (g *fgen) id(kind string) string {
	g.n++
	g.dist[kind]++
	return fmt.Sprintf("%s%d", kind, g.n)
}

func (g *fgen) emit(format string, a ...interface{}) {
	fmt.Fprintf(g.w, format+"\n", a...)
}

func (g *fgen) bytesN(n int) []byte {
	b := make([]byte, n)
	g.r.Read(b)
	return b
}

func (g *fgen) hash() string { return hex.EncodeToString(g.bytesN(32)) }

func (g *fgen) pick(xs ...int) int { return xs[g.r.Intn(len(xs))] }

func (g *fgen) chance(pct int) bool { return g.r.Intn(100) < pct }

func contractAddressOf(id []byte) string {
	return base58.Encode(append([]byte{0x03}, id...))
}

// ---------------------------------------------------------------------------------------------
// event specifications (generator ground truth)

// msgSpec is what a well-formed WormholeMessage event carries.
type msgSpec struct {
	sender  []byte // 32 bytes
	tc      uint16
	seq     uint64
	nonce   uint32
	payload []byte
	cl      uint8
}

// evSpec is one contract event as the fake node serves it.
type evSpec struct {
	id       int    // position in the governance contract's event log (or a running number on other paths)
	bh       string // block hash
	tx       string // tx id
	idx      int32  // event index
	contract string // emitting contract address (events-by-tx-id only)
	m        msgSpec
	malform  string // "" = fields are exactly the six well-typed values of m; otherwise the kind of damage
	fields   string // JSON array served to the watcher
}

func (e *evSpec) converts() bool { return e.malform == "" }

func jB(hexs string) string { return `{"type":"ByteVec","value":"` + hexs + `"}` }
func jU(dec string) string  { return `{"type":"U256","value":"` + dec + `"}` }
func jI(dec string) string  { return `{"type":"I256","value":"` + dec + `"}` }
func jBool(b bool) string   { return fmt.Sprintf(`{"type":"Bool","value":%v}`, b) }
func jAddr(a string) string { return `{"type":"Address","value":"` + a + `"}` }
func jArr(xs ...string) string {
	return `{"type":"Array","value":[` + strings.Join(xs, ",") + `]}`
}

var fMalformKinds = []string{
	"nf0", "nf5", "nf7", "ty0", "ty1", "ty2", "ty3", "ty4", "ty5", "i256", "bool", "addr", "arr", "notobj",
	"sender31", "sender33", "sender0", "senderodd", "sendernothex", "tc65536", "tcbig", "seq2p64", "seqbig",
	"nonce3", "nonce5", "nonce0", "payloadodd", "payloadnothex", "cl256", "clbig", "u256junk", "u256empty",
}

// buildFields renders the event's field array; for a malformed kind exactly one thing is damaged.
func (e *evSpec) buildFields() {
	m := e.m
	f := []string{
		jB(hex.EncodeToString(m.sender)),
		jU(strconv.FormatUint(uint64(m.tc), 10)),
		jU(strconv.FormatUint(m.seq, 10)),
		jB(fmt.Sprintf("%08x", m.nonce)),
		jB(hex.EncodeToString(m.payload)),
		jU(strconv.FormatUint(uint64(m.cl), 10)),
	}
	switch e.malform {
	case "":
	case "nf0":
		f = nil
	case "nf5":
		f = f[:5]
	case "nf7":
		f = append(f, jU("0"))
	case "ty0":
		f[0] = jU("1")
	case "ty1":
		f[1] = jB("01")
	case "ty2":
		f[2] = jB("")
	case "ty3":
		f[3] = jU("7")
	case "ty4":
		f[4] = jU("7")
	case "ty5":
		f[5] = jB("01")
	case "i256":
		f[5] = jI("1")
	case "bool":
		f[1] = jBool(true)
	case "addr":
		f[0] = jAddr(contractAddressOf(m.sender))
	case "arr":
		f[4] = jArr(jB("01"), jB("02"))
	case "notobj":
		f[2] = `"5"`
	case "sender31":
		f[0] = jB(hex.EncodeToString(m.sender[:31]))
	case "sender33":
		f[0] = jB(hex.EncodeToString(append(append([]byte{}, m.sender...), 0)))
	case "sender0":
		f[0] = jB("")
	case "senderodd":
		f[0] = jB(hex.EncodeToString(m.sender) + "a")
	case "sendernothex":
		f[0] = jB("zz" + hex.EncodeToString(m.sender[:31]))
	case "tc65536":
		f[1] = jU("65536")
	case "tcbig":
		f[1] = jU("115792089237316195423570985008687907853269984665640564039457584007913129639935")
	case "seq2p64":
		f[2] = jU("18446744073709551616")
	case "seqbig":
		f[2] = jU("115792089237316195423570985008687907853269984665640564039457584007913129639935")
	case "nonce3":
		f[3] = jB("010203")
	case "nonce5":
		f[3] = jB("0102030405")
	case "nonce0":
		f[3] = jB("")
	case "payloadodd":
		f[4] = jB("012")
	case "payloadnothex":
		f[4] = jB("0g")
	case "cl256":
		f[5] = jU("256")
	case "clbig":
		f[5] = jU("18446744073709551616")
	case "u256junk":
		f[5] = jU("12a")
	case "u256empty":
		f[1] = jU("")
	default:
		panic("unknown malform kind " + e.malform)
	}
	e.fields = "[" + strings.Join(f, ",") + "]"
}

// conv renders the generator's ground truth about the conversion: `x` or sender.tc.nonce.seq.cl.payload
func (e *evSpec) conv() string {
	if !e.converts() {
		return "x"
	}
	m := e.m
	return fmt.Sprintf("%s.%d.%d.%d.%d.%s", hex.EncodeToString(m.sender), m.tc, m.nonce, m.seq, m.cl, fhex(m.payload))
}

// line form of an event: id;bh;tx;idx;contract;conv
func (e *evSpec) render() string {
	c := e.contract
	if c == "" {
		c = "-"
	}
	return fmt.Sprintf("%d;%s;%s;%d;%s;%s", e.id, e.bh, e.tx, e.idx, c, e.conv())
}

func renderEvs(es []*evSpec) string {
	xs := make([]string, len(es))
	for i, e := range es {
		xs[i] = e.render()
	}
	return fjoin(xs, ",")
}

// ---------------------------------------------------------------------------------------------
// token metadata answers (POST /contracts/multicall-contract)

// tiAnswer is the node's answer for one token id. shape: "e" = HTTP 500, "e400" / "e404" = HTTP 400 / 404; otherwise a list of call results, each
// "F" (CallContractFailed), "N" (not an object: both variants nil) or "S<ret>/<ret>.." with ret one of
// B<hex-or-junk> (ByteVec), U<dec> (U256), Z (Bool), "" (no returns)
type tiAnswer struct {
	shape string
}

// body renders the answer. A real node answers call i with the result of the method call i asks for, so when the
// script has exactly one result per token method (0 symbol, 1 name, 2 decimals) and three calls were made, the
// results are arranged by the requested method indices; degenerate scripts are served positionally.
func (a tiAnswer) body(methods []int32) (int, string) {
	switch a.shape {
	case "e":
		return 500, `{"detail":"scripted failure"}`
	case "e400": // what a real node says about a contract that does not exist (yet)
		return 400, `{"detail":"contract does not exist"}`
	case "e404":
		return 404, `{"resource":"x","detail":"not found"}`
	}
	var rs []string
	if a.shape != "" {
		for _, c := range strings.Split(a.shape, "|") {
			switch {
			case c == "F":
				rs = append(rs, `{"type":"CallContractFailed","error":"VM execution error"}`)
			case c == "N":
				rs = append(rs, `7`)
			case strings.HasPrefix(c, "S"):
				var vals []string
				if len(c) > 1 {
					for _, v := range strings.Split(c[1:], "/") {
						switch v[0] {
						case 'B':
							vals = append(vals, jB(v[1:]))
						case 'U':
							vals = append(vals, jU(v[1:]))
						case 'Z':
							vals = append(vals, jBool(true))
						}
					}
				}
				rs = append(rs, `{"type":"CallContractSucceeded","returns":[`+strings.Join(vals, ",")+
					`],"gasUsed":1,"contracts":[],"txInputs":[],"txOutputs":[],"events":[]}`)
			default:
				panic("bad tiAnswer shape " + a.shape)
			}
		}
	}
	if len(rs) == 3 && len(methods) == 3 {
		byMethod := make([]string, 3)
		ok := true
		for i, m := range methods {
			if m < 0 || m > 2 {
				ok = false
				break
			}
			byMethod[i] = rs[m]
		}
		if ok {
			rs = byMethod
		}
	}
	return 200, `{"results":[` + strings.Join(rs, ",") + `]}`
}

// ---------------------------------------------------------------------------------------------
// the fake node

type fnHeader struct {
	height int32
	ts     int64
}

type fnPage struct {
	status int
	from   int // events [from, next) of n.events are served
	next   int
}

type fakeNode struct {
	mu  sync.Mutex
	srv *httptest.Server
	log []string // request/answer log since the last takeLog()

	gov   string // governance contract address the watcher is configured with
	group int32  // chain group the watcher of this case is configured with (checked on page and chain-info requests)
	key   string // X-API-KEY of the current case (and watcher incarnation): late requests of an earlier case's / incarnation's goroutines are refused and not logged
	seq   int
	epoch int // watcher incarnations within the case (restart scenarios)

	// tables; a missing key means the node answers 404, a key in errs means HTTP 500
	errs    map[string]bool // "main:<bh>", "hdr:<bh>", "height", "status:<tx>", "txev:<tx>", "count", "page:<start>"
	main    map[string]bool
	hdr     map[string]fnHeader
	height  int32
	status  map[string]string    // tx -> "c:<bh>" | "mem" | "nf"
	txev    map[string][]*evSpec // tx -> events of all contracts in that tx
	ti      map[string]tiAnswer  // contract address -> metadata answer
	tiCalls map[string]string    // contract address -> "group,method;..." of the last multicall (request validation)

	// event log of the governance contract
	events    []*evSpec
	count     int   // what current-count answers (may lag behind len(events))
	count404  bool  // answer 404 on the count request
	pageSize  int   // max events per page
	growAfter []int // growAfter[0]: hidden events becoming visible right after the count request; growAfter[k]: after the k-th page request
	visible   int   // number of events visible to page requests
	pageReqs  int   // page requests since the last count request
	pageCap   int   // beyond this many page requests per tick the node answers 500 (spin breaker)
	spun      bool
	// a load-balanced endpoint: this tick's count request (and, with lagPages, its page requests) is answered by a backend that
	// holds only the first lagVis events of the log
	lagPages bool
	lagVis   int

	// gating of the count request (the fetch loop's tick)
	gated   bool
	arrive  chan struct{}
	release chan struct{}
	// gating of the chain-info request (the height poller's tick)
	hgated   bool
	harrive  chan struct{}
	hrelease chan struct{}
	// one-shot gate on the status request of ONE transaction (the sentinel request behind which the harness looks at the watcher's
	// request queue): the handler parks before it answers, and reports when it has answered
	stGate    string
	stArrive  chan struct{}
	stRelease chan struct{}
	stDone    chan struct{}
}

func newFakeNode() *fakeNode {
	n := &fakeNode{}
	n.reset()
	n.srv = httptest.NewServer(http.HandlerFunc(n.serve))
	return n
}

func (n *fakeNode) reset() {
	n.mu.Lock()
	defer n.mu.Unlock()
	n.seq++
	n.epoch = 0
	n.key = fmt.Sprintf("case-%d", n.seq)
	n.group = int32(n.seq % 4)
	n.log = nil
	n.errs = map[string]bool{}
	n.main = map[string]bool{}
	n.hdr = map[string]fnHeader{}
	n.height = 0
	n.status = map[string]string{}
	n.txev = map[string][]*evSpec{}
	n.ti = map[string]tiAnswer{}
	n.tiCalls = map[string]string{}
	n.events = nil
	n.count = 0
	n.count404 = false
	n.pageSize = 100
	n.growAfter = nil
	n.visible = 0
	n.pageReqs = 0
	n.pageCap = 1 << 30
	n.spun = false
	n.lagPages = false
	n.lagVis = 0
	n.stGate = ""
	n.gated = false
	n.arrive = make(chan struct{})
	n.release = make(chan struct{})
	n.hgated = false
	n.harrive = make(chan struct{})
	n.hrelease = make(chan struct{})
}

// newEpoch: the watcher of this case is started again (same Watcher value, same client). Requests carry a new key from now on
// and park at new gates, so a handler that still belongs to the previous incarnation can neither be mistaken for a request of
// the new one nor write into the log. Tables and the event log stay.
func (n *fakeNode) newEpoch() string {
	n.mu.Lock()
	defer n.mu.Unlock()
	n.epoch++
	n.key = fmt.Sprintf("case-%d.%d", n.seq, n.epoch)
	n.arrive = make(chan struct{})
	n.release = make(chan struct{})
	n.harrive = make(chan struct{})
	n.hrelease = make(chan struct{})
	n.log = nil
	return n.key
}

// grow makes the k-th scripted portion of hidden events visible (caller holds the lock)
func (n *fakeNode) grow(k int) {
	if k < len(n.growAfter) {
		n.visible += n.growAfter[k]
		if n.visible > len(n.events) {
			n.visible = len(n.events)
		}
	}
}

func (n *fakeNode) takeLog() []string {
	n.mu.Lock()
	defer n.mu.Unlock()
	l := n.log
	n.log = nil
	return l
}

func (n *fakeNode) reply(w http.ResponseWriter, status int, body string) {
	w.Header().Set("Content-Type", "application/json")
	w.WriteHeader(status)
	w.Write([]byte(body))
}

func (n *fakeNode) fail(w http.ResponseWriter, status int) {
	if status == 404 {
		n.reply(w, 404, `{"resource":"x","detail":"not found"}`)
	} else {
		n.reply(w, status, `{"detail":"scripted failure"}`)
	}
}

func evJSON(e *evSpec, byTx bool) string {
	if byTx {
		return fmt.Sprintf(`{"blockHash":"%s","contractAddress":"%s","eventIndex":%d,"fields":%s}`, e.bh, e.contract, e.idx, e.fields)
	}
	return fmt.Sprintf(`{"blockHash":"%s","txId":"%s","eventIndex":%d,"fields":%s}`, e.bh, e.tx, e.idx, e.fields)
}

func (n *fakeNode) serve(w http.ResponseWriter, r *http.Request) {
	p := r.URL.Path
	q := r.URL.Query()
	key := r.Header.Get("X-API-KEY")
	n.mu.Lock()
	stale := key != n.key
	// the gates are read together with the key: a request belongs to exactly one incarnation and parks at that one's gates
	gated, arrive, release := n.gated, n.arrive, n.release
	hgated, harrive, hrelease := n.hgated, n.harrive, n.hrelease
	n.mu.Unlock()
	if stale {
		n.fail(w, 503)
		return
	}
	switch {
	case strings.HasPrefix(p, "/events/contract/") && strings.HasSuffix(p, "/current-count"):
		addr := strings.TrimSuffix(strings.TrimPrefix(p, "/events/contract/"), "/current-count")
		if gated {
			// park until the generator releases this tick (or the watcher went away)
			select {
			case arrive <- struct{}{}:
				select {
				case <-release:
				case <-r.Context().Done():
					return
				}
			case <-r.Context().Done():
				return
			}
		}
		n.mu.Lock()
		defer n.mu.Unlock()
		if key != n.key { // the case this request belongs to is over
			n.fail(w, 503)
			return
		}
		n.pageReqs = 0
		who := ""
		if addr != n.gov {
			who = "@" + addr
		}
		switch {
		case n.errs["count"]:
			n.log = append(n.log, "count"+who+">e")
			n.fail(w, 500)
		case n.count404:
			n.log = append(n.log, "count"+who+">404")
			n.fail(w, 404)
		default:
			n.log = append(n.log, fmt.Sprintf("count%s>%d", who, n.count))
			n.reply(w, 200, strconv.Itoa(n.count))
		}
		n.grow(0)
	case strings.HasPrefix(p, "/events/contract/"):
		addr := strings.TrimPrefix(p, "/events/contract/")
		n.mu.Lock()
		defer n.mu.Unlock()
		if key != n.key { // the case this request belongs to is over
			n.fail(w, 503)
			return
		}
		who := ""
		if addr != n.gov {
			who = "@" + addr
		}
		start, err := strconv.Atoi(q.Get("start"))
		if err != nil || q.Get("limit") != "" || q.Get("group") != strconv.Itoa(int(n.group)) {
			n.log = append(n.log, "page"+who+":badquery:"+r.URL.RawQuery)
			n.fail(w, 400)
			return
		}
		k := n.pageReqs
		n.pageReqs++
		if n.pageReqs > n.pageCap {
			n.spun = true
			n.log = append(n.log, fmt.Sprintf("page%s:%d>spin", who, start))
			n.fail(w, 500)
			return
		}
		if n.errs[fmt.Sprintf("page:%d", k)] {
			n.log = append(n.log, fmt.Sprintf("page%s:%d>e", who, start))
			n.fail(w, 500)
			return
		}
		vis := n.visible
		if n.lagPages { // answered by the backend that is behind
			vis = n.lagVis
		}
		if start < 0 {
			start = vis
		}
		if start > vis {
			// past the end of what this node holds: a full node walks the log from `start`, finds nothing, and answers with no
			// events and nextStart = start (it never sends a client back)
			n.log = append(n.log, fmt.Sprintf("page%s:%s>%d", who, q.Get("start"), start))
			n.grow(k + 1)
			n.reply(w, 200, fmt.Sprintf(`{"events":[],"nextStart":%d}`, start))
			return
		}
		next := start + n.pageSize
		if next > vis {
			next = vis
		}
		var evs []string
		for _, e := range n.events[start:next] {
			evs = append(evs, evJSON(e, false))
		}
		n.log = append(n.log, fmt.Sprintf("page%s:%s>%d", who, q.Get("start"), next))
		n.grow(k + 1)
		n.reply(w, 200, fmt.Sprintf(`{"events":[%s],"nextStart":%d}`, strings.Join(evs, ","), next))
	case p == "/blockflow/is-block-in-main-chain":
		bh := q.Get("blockHash")
		n.mu.Lock()
		defer n.mu.Unlock()
		if key != n.key { // the case this request belongs to is over
			n.fail(w, 503)
			return
		}
		v, ok := n.main[bh]
		switch {
		case n.errs["main:"+bh]:
			n.log = append(n.log, "main:"+bh+">e")
			n.fail(w, 500)
		case !ok:
			n.log = append(n.log, "main:"+bh+">e")
			n.fail(w, 404)
		default:
			n.log = append(n.log, "main:"+bh+">"+fb(v))
			n.reply(w, 200, strconv.FormatBool(v))
		}
	case strings.HasPrefix(p, "/blockflow/headers/"):
		bh := strings.TrimPrefix(p, "/blockflow/headers/")
		n.mu.Lock()
		defer n.mu.Unlock()
		if key != n.key { // the case this request belongs to is over
			n.fail(w, 503)
			return
		}
		h, ok := n.hdr[bh]
		switch {
		case n.errs["hdr:"+bh]:
			n.log = append(n.log, "hdr:"+bh+">e")
			n.fail(w, 500)
		case !ok:
			n.log = append(n.log, "hdr:"+bh+">e")
			n.fail(w, 404)
		default:
			n.log = append(n.log, fmt.Sprintf("hdr:%s>%d:%d", bh, h.height, h.ts))
			n.reply(w, 200, fmt.Sprintf(`{"hash":"%s","timestamp":%d,"chainFrom":0,"chainTo":0,"height":%d,"deps":[]}`, bh, h.ts, h.height))
		}
	case p == "/blockflow/chain-info":
		if hgated {
			select {
			case harrive <- struct{}{}:
				select {
				case <-hrelease:
				case <-r.Context().Done():
					return
				}
			case <-r.Context().Done():
				return
			}
		}
		n.mu.Lock()
		defer n.mu.Unlock()
		if key != n.key { // the case this request belongs to is over
			n.fail(w, 503)
			return
		}
		if q.Get("fromGroup") != strconv.Itoa(int(n.group)) || q.Get("toGroup") != strconv.Itoa(int(n.group)) {
			n.log = append(n.log, "height:badquery:"+r.URL.RawQuery)
			n.fail(w, 400)
			return
		}
		if n.errs["height"] {
			n.log = append(n.log, "height>e")
			n.fail(w, 500)
			return
		}
		n.log = append(n.log, fmt.Sprintf("height>%d", n.height))
		n.reply(w, 200, fmt.Sprintf(`{"currentHeight":%d}`, n.height))
	case p == "/transactions/status":
		tx := q.Get("txId")
		n.mu.Lock()
		sentinel := n.stGate != "" && n.stGate == tx && key == n.key
		stArrive, stRelease, stDone := n.stArrive, n.stRelease, n.stDone
		n.mu.Unlock()
		if sentinel {
			// the watcher's request loop has taken the sentinel request off its queue and is waiting for this answer; nothing of
			// this exchange goes into the case's request log
			select {
			case stArrive <- struct{}{}:
				select {
				case <-stRelease:
				case <-r.Context().Done():
					return
				}
			case <-r.Context().Done():
				return
			}
			n.reply(w, 200, `{"type":"TxNotFound"}`)
			select {
			case stDone <- struct{}{}:
			default:
			}
			return
		}
		n.mu.Lock()
		defer n.mu.Unlock()
		if key != n.key { // the case this request belongs to is over
			n.fail(w, 503)
			return
		}
		st, ok := n.status[tx]
		switch {
		case n.errs["status:"+tx] || !ok:
			n.log = append(n.log, "status:"+tx+">e")
			n.fail(w, 500)
		case st == "mem":
			n.log = append(n.log, "status:"+tx+">mem")
			n.reply(w, 200, `{"type":"MemPooled"}`)
		case st == "nf":
			n.log = append(n.log, "status:"+tx+">nf")
			n.reply(w, 200, `{"type":"TxNotFound"}`)
		default:
			bh := strings.TrimPrefix(st, "c:")
			n.log = append(n.log, "status:"+tx+">c:"+bh)
			n.reply(w, 200, fmt.Sprintf(`{"type":"Confirmed","blockHash":"%s","txIndex":0,"chainConfirmations":1,"fromGroupConfirmations":1,"toGroupConfirmations":1}`, bh))
		}
	case strings.HasPrefix(p, "/events/tx-id/"):
		tx := strings.TrimPrefix(p, "/events/tx-id/")
		n.mu.Lock()
		defer n.mu.Unlock()
		if key != n.key { // the case this request belongs to is over
			n.fail(w, 503)
			return
		}
		evs, ok := n.txev[tx]
		if n.errs["txev:"+tx] || !ok {
			n.log = append(n.log, "txev:"+tx+">e")
			n.fail(w, 500)
			return
		}
		var js []string
		for _, e := range evs {
			js = append(js, evJSON(e, true))
		}
		n.log = append(n.log, fmt.Sprintf("txev:%s>%d", tx, len(evs)))
		n.reply(w, 200, fmt.Sprintf(`{"events":[%s]}`, strings.Join(js, ",")))
	case p == "/contracts/multicall-contract":
		var req struct {
			Calls []struct {
				Group       int32  `json:"group"`
				Address     string `json:"address"`
				MethodIndex int32  `json:"methodIndex"`
			} `json:"calls"`
		}
		json.NewDecoder(r.Body).Decode(&req)
		n.mu.Lock()
		defer n.mu.Unlock()
		if key != n.key { // the case this request belongs to is over
			n.fail(w, 503)
			return
		}
		addr := "?"
		var calls []string
		var methods []int32
		for i, c := range req.Calls {
			methods = append(methods, c.MethodIndex)
			if i == 0 {
				addr = c.Address
			} else if c.Address != addr {
				addr = "?mixed"
			}
			calls = append(calls, fmt.Sprintf("%d.%d", c.Group, c.MethodIndex))
		}
		n.tiCalls[addr] = strings.Join(calls, "+")
		a, ok := n.ti[addr]
		if !ok {
			n.log = append(n.log, "ti:"+addr+":"+strings.Join(calls, "+")+">e")
			n.fail(w, 500)
			return
		}
		// a contract lives in exactly one group - the last byte of its id - and a call is executed against the world state of
		// the group it names: asked in any other group the node does not find the contract, every call of the request fails
		if raw := base58.Decode(addr); len(raw) == 33 {
			wrong := false
			for _, c := range req.Calls {
				wrong = wrong || c.Group != int32(raw[32])
			}
			if wrong {
				rs := make([]string, len(req.Calls))
				for i := range rs {
					rs[i] = `{"type":"CallContractFailed","error":"contract does not exist in this group"}`
				}
				n.log = append(n.log, "ti:"+addr+":"+strings.Join(calls, "+")+">wronggroup")
				n.reply(w, 200, `{"results":[`+strings.Join(rs, ",")+`]}`)
				return
			}
		}
		st, body := a.body(methods)
		sh := a.shape
		if sh == "" {
			sh = "-"
		}
		n.log = append(n.log, "ti:"+addr+":"+strings.Join(calls, "+")+">"+sh)
		n.reply(w, st, body)
	default:
		n.mu.Lock()
		n.log = append(n.log, "unknown:"+r.Method+":"+r.URL.String())
		n.mu.Unlock()
		n.fail(w, 404)
	}
}

// sorted copy (Go map iteration order inside `process` is random; the multiset of requests is what is compared)
func sortedLog(l []string) []string {
	c := append([]string{}, l...)
	sort.Strings(c)
	return c
}

// ---------------------------------------------------------------------------------------------
// the repository's shipped configurations, read by the production loader

// shippedCfg is one of configs/alephium/{mainnet,testnet,devnet}.json as a real guardian of that network gets it: read through
// common.ReadConfigsByNetwork (the call cmd/guardiand/node.go makes), to be handed to NewAlephiumWatcher with
// isMainnet = (network == "mainnet") like node.go does.
type shippedCfg struct {
	net    string
	file   string // path relative to the repository root
	cc     *common.ChainConfig
	bridge []byte
	govId  []byte
	gov    string
	levels []int // every integer 0..255 the file contains anywhere: what a floor taken from the configuration could be
	minCL  int   // the file's `minimalConsistencyLevel` (the minimum the token-bridge contract accepts), -1 if absent
}

var shippedNets = []string{"mainnet", "testnet", "devnet"}

func collectSmallInts(v interface{}, out map[int]bool) {
	switch x := v.(type) {
	case float64:
		if x >= 0 && x <= 255 && x == float64(int(x)) {
			out[int(x)] = true
		}
	case string:
		if k, err := strconv.Atoi(x); err == nil && k >= 0 && k <= 255 {
			out[k] = true
		}
	case []interface{}:
		for _, y := range x {
			collectSmallInts(y, out)
		}
	case map[string]interface{}:
		for _, y := range x {
			collectSmallInts(y, out)
		}
	}
}

var shippedCache map[string]*shippedCfg

// shipped loads the configuration of one network. The loader looks for `configs/` next to the executable; the test binary gets
// a symbolic link there that points at the repository's own directory (the package directory is the working directory).
func shipped(net string) *shippedCfg {
	if c, ok := shippedCache[net]; ok {
		return c
	}
	if shippedCache == nil {
		shippedCache = map[string]*shippedCfg{}
		exe, err := os.Executable()
		if err != nil {
			panic("verif harness: " + err.Error())
		}
		root, err := filepath.Abs(filepath.Join("..", "..", "..", "configs"))
		if err != nil {
			panic("verif harness: " + err.Error())
		}
		link := filepath.Join(filepath.Dir(exe), "configs")
		if err := os.Symlink(root, link); err != nil && !os.IsExist(err) {
			panic("verif harness: cannot link the shipped configs next to the test binary: " + err.Error())
		}
	}
	bc, err := common.ReadConfigsByNetwork(net)
	if err != nil {
		panic("verif harness: the production loader does not read the shipped configuration of " + net + ": " + err.Error())
	}
	c := &shippedCfg{net: net, file: "configs/alephium/" + net + ".json", cc: bc.Alephium}
	c.bridge, _ = hex.DecodeString(c.cc.Contracts.TokenBridge)
	c.govId, _ = hex.DecodeString(c.cc.Contracts.Governance)
	if len(c.bridge) != 32 || len(c.govId) != 32 {
		panic("verif harness: contract ids in " + c.file)
	}
	c.gov = contractAddressOf(c.govId)
	raw, err := os.ReadFile(filepath.Join("..", "..", "..", c.file))
	if err != nil {
		panic("verif harness: " + err.Error())
	}
	var doc interface{}
	json.Unmarshal(raw, &doc)
	c.minCL = -1
	if top, ok := doc.(map[string]interface{}); ok {
		if v, ok := top["minimalConsistencyLevel"].(float64); ok {
			c.minCL = int(v)
		}
	}
	set := map[int]bool{}
	collectSmallInts(doc, set)
	for k := range set {
		c.levels = append(c.levels, k)
	}
	sort.Ints(c.levels)
	shippedCache[net] = c
	return c
}

// ---------------------------------------------------------------------------------------------
// entry point

func TestVerifAlphWatch(t *testing.T) {
	seed, _ := strconv.ParseInt(os.Getenv("VERIF_SEED"), 10, 64)
	if seed == 0 {
		seed = 1
	}
	tier := os.Getenv("VERIF_TIER")
	if tier == "" {
		tier = "quick"
	}
	out := os.Getenv("VERIF_OUT")
	if out == "" {
		out = t.TempDir()
	}
	part := os.Getenv("VERIF_PART")
	if part == "" {
		part = "all"
	}
	f, err := os.Create(filepath.Join(out, "alphwatch.cases"))
	if err != nil {
		t.Fatal(err)
	}
	defer f.Close()
	w := bufio.NewWriterSize(f, 1<<20)
	defer w.Flush()
	node := newFakeNode()
	defer node.srv.Close()
	g := &fgen{r: rand.New(rand.NewSource(seed)), w: w, dist: map[string]int{}, tier: tier, node: node}
	if part == "c08" || part == "all" {
		g.genC08()
	}
	if part == "c09" || part == "all" {
		g.genC09()
	}
	if part == "c04" { // "every honest guardian observing the same message signs the same 32 bytes": what the two delivery paths publish
		g.genC04()
	}
	if part == "c17" { // the watcher's request queue, where C17 observes "at most once per (chain, transaction)"
		g.genC17()
	}
	g.emit("end end") // lets the check tell a complete case file from one cut short
	keys := make([]string, 0, len(g.dist))
	for k := range g.dist {
		keys = append(keys, k)
	}
	sort.Strings(keys)
	for _, k := range keys {
		t.Logf("dist %s %d", k, g.dist[k])
	}
}
