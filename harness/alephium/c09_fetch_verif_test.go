//go:build verif

package alephium

// C09 generators: token metadata calls, page conversion, the count-then-pages fetch loop and the whole
// polling pipeline (real fetchEvents + real handleEvents against the fake node).
//
//   tinfo   <id> token= addr= shape= reqs= res=ok:<dec>:<symhex>:<namehex>|err|panic         Client.GetTokenInfo called directly
//   hunconf <id> mainnet= bridge= gov= ti= evs= reqs= out=<uev,..> res=ok|err|panic          handleUnconfirmedEvents called directly
//   winit ... fetch=1 ti= reqs= exit=            initial count request of the real fetchEvents
//   wtick  <id> evs=<ev,..> reqs=<ordered log> out=<uev,..>|none exit= en= spin=             one tick of the real fetch loop
//   wheight (see c08_watch_verif_test.go)
//
// uev = bh;tx;idx;conv as converted by the real code

import (
	"bytes"
	"context"
	"encoding/hex"
	"encoding/json"
	"errors"
	"fmt"
	"reflect"
	"strconv"
	"strings"
	"sync/atomic"
	"time"

	sdk "github.com/alephium/go-sdk"
	gossipv1 "github.com/alephium/wormhole-fork/node/pkg/proto/gossip/v1"
	"go.uber.org/zap"
)

func renderUnconfirmed(u *UnconfirmedEvent) string {
	if u == nil || u.ContractEvent == nil || u.msg == nil {
		return "nil"
	}
	m := u.msg
	return fmt.Sprintf("%s;%s;%d;%s.%d.%d.%d.%d.%s", u.BlockHash, u.TxId, u.EventIndex, hex.EncodeToString(m.senderId[:]), m.targetChainId,
		m.nonce, m.Sequence, m.consistencyLevel, fhex(m.payload))
}

func renderUnconfirmeds(us []*UnconfirmedEvent) string {
	xs := make([]string, len(us))
	for i, u := range us {
		xs[i] = renderUnconfirmed(u)
	}
	return fjoin(xs, ",")
}

func (c *fcfg) renderTiAddr() string {
	var xs []string
	for _, t := range c.tokens {
		sh := t.shape
		if sh == "" {
			sh = "-"
		}
		xs = append(xs, hex.EncodeToString(t.token)+":"+contractAddressOf(t.token)+":"+sh)
	}
	return fjoin(xs, ",")
}

// ---------------------------------------------------------------------------------------------
// GetTokenInfo, directly, with every answer shape

// getTokenInfoOf asks the real client for the metadata of token id. The method is looked up at run time: with the signature the
// pinned tree has - (ctx, tokenId) - it is called as is. Should it have grown parameters, what those mean is the caller's
// business, so the question is put the way production puts it: through Watcher.validateAttestToken, with an attestation that
// carries exactly what the token contract reports (ALPH: its fixed metadata) - it passes if and only if GetTokenInfo returned
// exactly that.
func getTokenInfoOf(node *fakeNode, client *Client, t *tokenTruth, id Byte32) (*TokenInfo, error) {
	m := reflect.ValueOf(client).MethodByName("GetTokenInfo")
	if m.IsValid() && m.Type().NumIn() == 2 && m.Type().NumOut() == 2 {
		out := m.Call([]reflect.Value{reflect.ValueOf(context.Background()), reflect.ValueOf(id)})
		info, _ := out[0].Interface().(*TokenInfo)
		err, _ := out[1].Interface().(error)
		if err == nil && info == nil {
			err = errors.New("no token info")
		}
		return info, err
	}
	want := &TokenInfo{TokenId: id, Decimals: t.decimals, Symbol: string(t.symbol), Name: string(t.name)}
	if id == ALPHTokenId {
		want = &ALPHTokenInfo
	}
	w := &Watcher{client: client, chainIndex: &ChainIndex{FromGroup: node.group, ToGroup: node.group}, blockPollerEnabled: &atomic.Bool{}}
	payload := attestPayload(id[:], 255, want.Decimals, pad32([]byte(want.Symbol), true), pad32([]byte(want.Name), false))
	if err := w.validateAttestToken(context.Background(), &WormholeMessage{payload: payload}); err != nil {
		return nil, err
	}
	return want, nil
}

func (g *fgen) genTinfo(n int) {
	node := g.node
	for i := 0; i < n; i++ {
		node.reset()
		t := g.newToken(g.chance(75))
		if g.chance(3) {
			t.token = make([]byte, 32) // ALPH: no node call at all
		}
		addr := contractAddressOf(t.token)
		node.mu.Lock()
		node.ti[addr] = tiAnswer{t.shape}
		node.mu.Unlock()
		var id Byte32
		copy(id[:], t.token)
		client := NewClient(node.srv.URL, node.key, 10)
		res := "err"
		func() {
			defer func() {
				if r := recover(); r != nil {
					res = "panic"
				}
			}()
			info, err := getTokenInfoOf(node, client, t, id)
			if err == nil {
				res = fmt.Sprintf("ok:%s:%d:%s:%s", hex.EncodeToString(info.TokenId[:]), info.Decimals, fhex([]byte(info.Symbol)), fhex([]byte(info.Name)))
			}
		}()
		sh := t.shape
		if sh == "" {
			sh = "-"
		}
		g.emit("tinfo %s token=%s addr=%s shape=%s reqs=%s res=%s", g.id("tinfo"), hex.EncodeToString(t.token), addr, sh, fjoin(node.takeLog(), ","), res)
	}
}

// ---------------------------------------------------------------------------------------------
// handleUnconfirmedEvents, directly: one page with well-formed / malformed / foreign / attestation-shaped events

func (g *fgen) genHunconf(n int) {
	for i := 0; i < n; i++ {
		r := g.newWatchRun("hunconf", false, false)
		k := g.pick(0, 1, 2, 3, 5, 8)
		b := &fblock{bh: g.hash()}
		r.blocks = append(r.blocks, b)
		var evs []*evSpec
		for j := 0; j < k; j++ {
			e := &evSpec{id: j, bh: b.bh, tx: g.hash(), m: g.randMsg(r.c)}
			if g.chance(15) {
				e.malform = fMalformKinds[g.r.Intn(len(fMalformKinds))]
			}
			if g.chance(4) {
				e.idx = int32(g.pick(1, -1, 7))
			}
			e.buildFields()
			evs = append(evs, e)
		}
		var page sdk.ContractEvents
		var js []string
		for _, e := range evs {
			js = append(js, evJSON(e, false))
		}
		json.Unmarshal([]byte(fmt.Sprintf(`{"events":[%s],"nextStart":%d}`, strings.Join(js, ","), k)), &page)
		res := "ok"
		var out []*UnconfirmedEvent
		func() {
			defer func() {
				if rec := recover(); rec != nil {
					res = "panic"
				}
			}()
			var err error
			out, err = r.w.handleUnconfirmedEvents(context.Background(), zap.NewNop(), &page)
			if err != nil {
				res = "err"
			}
		}()
		g.emit("hunconf %s mainnet=%s bridge=%s gov=%s ti=%s evs=%s reqs=%s out=%s res=%s", r.id, fb(r.c.mainnet), hex.EncodeToString(r.c.bridge),
			r.c.gov, r.c.renderTiAddr(), renderEvs(evs), fjoin(g.node.takeLog(), ","), renderUnconfirmeds(out), res)
	}
}

// ---------------------------------------------------------------------------------------------
// metadata histories: "whatever the node reports about the contracts it names". An attestation-shaped event of a foreign sender
// names token id X while X's metadata calls fail (every failing answer the harness knows, in turn); later - same process, same
// Watcher, same Client - X answers, and the token bridge's genuine attestation of X must be delivered and forwarded by the
// polling path and by the re-observation path.
//
//   wti    <id> ti=<table>                         the token contracts answer differently from now on
//   wreobs <id> (fields of a `reobs` line)         one re-observation request through the life's real handleObsvRequest loop

// setShape: token t's contract answers with `shape` from now on.
func (r *watchRun) setShape(t *tokenTruth, shape string) {
	n := r.g.node
	t.shape = shape
	n.mu.Lock()
	n.ti[contractAddressOf(t.token)] = tiAnswer{shape}
	n.mu.Unlock()
	r.g.emit("wti %s ti=%s", r.id, r.c.renderTiAddr())
}

// registerTx: what the node says about e's transaction when asked by tx id (confirmed in e's block; e emitted by `contract`).
func (r *watchRun) registerTx(e *evSpec, contract string) {
	n := r.g.node
	c := *e
	c.contract = contract
	n.mu.Lock()
	n.status[e.tx] = "c:" + e.bh
	n.txev[e.tx] = append(n.txev[e.tx], &c)
	n.mu.Unlock()
}

// reobserve hands one re-observation request for tx to the life's handleObsvRequest loop the way the dispatcher does and waits until
// it has been handled (serveReobs: a sentinel request behind it; what else the watcher's queue holds then is recorded as stray=).
func (r *watchRun) reobserve(tx string) {
	g, n := r.g, r.g.node
	if !r.reobs || r.exited {
		panic("verif harness: reobserve on a life without a re-observation loop")
	}
	txb, _ := hex.DecodeString(tx)
	n.takeLog()
	n.mu.Lock()
	// the node's answers as they stand now, scripted failures included ("e")
	status := n.status[tx]
	if n.errs["status:"+tx] {
		status = "e"
	}
	evs := n.txev[tx]
	evtab := renderEvs(evs)
	if n.errs["txev:"+tx] {
		evtab = "e"
	}
	var hs, ms []string
	seen := map[string]bool{}
	for _, e := range evs {
		if seen[e.bh] {
			continue
		}
		seen[e.bh] = true
		h := n.hdr[e.bh]
		if n.errs["hdr:"+e.bh] {
			hs = append(hs, e.bh+":e")
		} else {
			hs = append(hs, fmt.Sprintf("%s:%d:%d", e.bh, h.height, h.ts))
		}
		if n.errs["main:"+e.bh] {
			ms = append(ms, e.bh+":e")
		} else {
			ms = append(ms, e.bh+":"+fb(n.main[e.bh]))
		}
	}
	hgt := fmt.Sprint(n.height)
	if n.errs["height"] {
		hgt = "e"
	}
	line := fmt.Sprintf("mainnet=%s ctor=%s bridge=%s gov=%s chain=255 hash=%s status=%s evs=%s hdr=%s main=%s ti=%s height=%s",
		fb(r.c.mainnet), r.c.ctor(), hex.EncodeToString(r.c.bridge), r.c.gov, tx, status, evtab, fjoin(hs, ","), fjoin(ms, ","), r.c.renderTiAddr(), hgt)
	n.mu.Unlock()
	now := time.Now().UnixMilli()
	stray, res := serveReobs(n, r.obsC, &gossipv1.ObservationRequest{ChainId: 255, TxHash: txb}, r.panicC)
	if res != "ok" {
		r.exited, r.panicked = true, true
		res = "panic"
	}
	g.emit("wreobs %s %s now=%d reqs=%s fwd=%s res=%s stray=%s", r.id, line, now, fjoin(n.takeLog(), ","), fjoin(drainPubs(r.msgC), ","), res, fjoin(stray, ","))
}

func (g *fgen) metaCase(shapeIdx int, variant int) {
	r := g.newWatchRun("meta", true, false)
	r.reobs = true
	n := g.node
	// X: a token whose contract will answer healthily later; until then its metadata calls fail in the given way
	x := g.newToken(false)
	okShape := x.shape
	fails := append(degradedShapes(hex.EncodeToString(x.symbol), hex.EncodeToString(x.name), x.decimals, okShape), "e400", "e404")
	fail := fails[shapeIdx%len(fails)]
	x.shape = fail
	r.c.tokens[0] = x
	n.mu.Lock()
	n.ti = map[string]tiAnswer{}
	n.mu.Unlock()
	r.c.installTokens(n)
	r.start("")
	h := int32(1000)
	n.mu.Lock()
	n.height = h
	n.mu.Unlock()
	tick := func(evs []*evSpec) {
		if !r.exited {
			r.fetchTickEvs(tickScript{newVisible: len(evs), pageSize: g.pick(1, 2, 100), pageErr: -1}, evs)
		}
	}
	height := func(drain bool) {
		if !r.exited {
			h++
			r.heightTick(h, drain)
		}
	}
	reobs := func(tx string) {
		if !r.exited {
			r.reobserve(tx)
		}
	}
	poisonPoll, poisonReobs := variant%3 != 1, variant%3 != 0
	// 1. the foreign event naming X (anyone can publish on the governance contract): sender foreign or one bit off the token bridge,
	// metadata faithful to what X will report, or not
	foreign := g.bytesN(32)
	if g.chance(30) {
		foreign = append([]byte{}, r.c.bridge...)
		foreign[g.r.Intn(32)] ^= 1 << uint(g.r.Intn(8))
	}
	how := []string{"ok", "ok", "decimals", "symbol", "name"}[g.r.Intn(5)]
	ef := r.mkEvent(r.oldBlock(), msgSpec{sender: foreign, tc: 0, seq: uint64(g.r.Intn(1000)), nonce: g.r.Uint32(), cl: uint8(g.r.Intn(3)), payload: g.attestFor(x, how)})
	r.registerTx(ef, r.c.gov)
	if poisonPoll {
		evs := []*evSpec{ef}
		if g.chance(50) {
			evs = append(r.quickEvents(1), ef)
		}
		tick(evs)
		height(false)
	}
	if poisonReobs {
		reobs(ef.tx)
		if g.chance(30) {
			reobs(ef.tx)
		}
	}
	if variant%4 == 3 && !r.exited { // the watcher is restarted in between: same Watcher value, same client
		r.restart("cancel", "", nil)
	}
	// 2. X exists now / the node has recovered: the contract answers its three methods
	r.setShape(x, okShape)
	// 3. the token bridge attests X, faithfully; a transfer right behind it as a control
	b := r.oldBlock()
	eg := r.mkEvent(b, msgSpec{sender: r.c.bridge, tc: 0, seq: uint64(1000 + g.r.Intn(1000)), nonce: g.r.Uint32(), cl: uint8(g.r.Intn(3)), payload: g.attestFor(x, "ok")})
	et := r.mkEvent(b, msgSpec{sender: r.c.bridge, tc: 2, seq: uint64(2000 + g.r.Intn(1000)), nonce: g.r.Uint32(), cl: uint8(g.r.Intn(3)), payload: append([]byte{1}, g.bytesN(132)...)})
	r.registerTx(eg, r.c.gov)
	r.registerTx(et, r.c.gov)
	batch := []*evSpec{eg, et}
	if !poisonPoll {
		batch = []*evSpec{ef, eg, et}
	}
	reobsFirst := g.chance(40)
	if reobsFirst {
		reobs(eg.tx)
	}
	tick(batch)
	height(false)
	if !reobsFirst || g.chance(50) {
		reobs(eg.tx)
	}
	reobs(et.tx)
	if !r.exited {
		r.fetchTickEvs(tickScript{pageSize: 100, pageErr: -1}, nil)
	}
	for s := 0; s < 2 && !r.exited; s++ {
		r.settle()
		height(true)
	}
	r.stop()
}

// genMeta: every failing answer shape, three ways of meeting the failure (polling path, re-observation path, both), now and then
// with a restart of the watcher in between.
func (g *fgen) genMeta(rounds int) {
	for i := 0; i < rounds; i++ {
		for shape := 0; shape < 28; shape++ {
			for v := 0; v < 3; v++ {
				g.metaCase(shape, v+3*g.r.Intn(4))
			}
		}
	}
}

// ---------------------------------------------------------------------------------------------
// metadata-change histories: "... hands a message to the signing pipeline only if, at that moment, ... - for token attestations -
// the attested metadata equals what the token contract itself reports" (C08) and "every well-formed message ... is eventually handed
// to the signing pipeline" (C09), when what the token contract reports CHANGES during the life of one Watcher / Client (a contract
// that is migrated or upgraded, a token that simply answers differently later, a contract that is destroyed).
//
//  1. token X answers healthily (symbol / name / decimals v1); the token bridge's attestation of X with v1 is validated and
//     forwarded - by the polling path, by a re-observation request, or by both (now and then a foreign sender's faithful
//     attestation-shaped event naming X is validated first; now and then the watcher is restarted afterwards);
//  2. X's contract answers differently from now on (`wti`): another symbol, another name, other decimals, all three, or its calls
//     fail in one of the ways the harness knows;
//  3. attestations of X carrying the EARLIER values (a new event with the very same payload bytes or a re-encoding of them, the
//     first event itself when only re-observation has seen it, and the first transaction re-observed) must be dropped on both paths
//     (attest-mismatch-admitted, reobs-attest-mismatch); attestations carrying what X reports NOW must be delivered, forwarded and
//     re-observed (wellformed-event-dropped, final-message-not-forwarded, reobs-wellformed-event-dropped); a transfer rides along;
//  4. now and then X changes a second time - to something else again, or back to v1 (then the first transaction is owed again).
//
// Every change is made while no attestation of X is pending, so "at that moment" is never in doubt. Lives without the fetch loop hand
// their pages to the watcher's own handleUnconfirmedEvents (`wbatch`).

// differentWord: a metadata string that differs from w after NUL trimming - a near neighbour (one letter more / changed) or a new word.
func (g *fgen) differentWord(w []byte) []byte {
	for {
		c := g.word()
		if g.chance(40) {
			c = otherWord(w)
		}
		if len(c) <= 32 && !bytes.Equal(bytes.Trim(c, "\x00"), bytes.Trim(w, "\x00")) {
			return c
		}
	}
}

// healthyShape: the three getters answer t's values (the symbol now and then NUL padded, as newToken does).
func (g *fgen) healthyShape(t *tokenTruth) string {
	sym := hex.EncodeToString(t.symbol)
	if g.chance(30) && len(t.symbol) > 0 {
		sym = hex.EncodeToString(pad32(t.symbol, g.chance(50)))
	}
	return fmt.Sprintf("SB%s|SB%s|SU%d", sym, hex.EncodeToString(t.name), t.decimals)
}

// changeToken: t's contract reports something else from now on. kind symbol / name / decimals / all: new healthy answers;
// gone: the calls fail (t keeps its last values: nothing attests them truthfully any more).
func (r *watchRun) changeToken(t *tokenTruth, kind string) {
	g := r.g
	if kind == "gone" {
		fails := append(degradedShapes(hex.EncodeToString(t.symbol), hex.EncodeToString(t.name), t.decimals, t.shape), "e400", "e404")
		r.setShape(t, fails[g.r.Intn(len(fails))])
		return
	}
	if kind == "symbol" || kind == "all" {
		t.symbol = g.differentWord(t.symbol)
	}
	if kind == "name" || kind == "all" {
		t.name = g.differentWord(t.name)
	}
	if kind == "decimals" || kind == "all" {
		d := t.decimals
		for d == t.decimals {
			d = uint8(g.pick(0, 6, 8, 9, 18, int(t.decimals)+1, int(t.decimals)+255, g.r.Intn(256)))
		}
		t.decimals = d
	}
	r.setShape(t, g.healthyShape(t))
}

func (g *fgen) mchgCase(kind string, first string, fetch bool) {
	r := g.newWatchRun("mchg", fetch, false)
	r.reobs = true
	n := g.node
	x := g.newToken(false)
	r.c.tokens[0] = x
	n.mu.Lock()
	n.ti = map[string]tiAnswer{}
	n.mu.Unlock()
	r.c.installTokens(n)
	r.start("")
	h := int32(1000)
	n.mu.Lock()
	n.height = h
	n.mu.Unlock()
	page := func(evs []*evSpec) {
		if r.exited || len(evs) == 0 {
			return
		}
		if fetch {
			r.fetchTickEvs(tickScript{newVisible: len(evs), pageSize: g.pick(1, 2, 100), pageErr: -1}, evs)
		} else {
			r.batch(evs)
		}
	}
	height := func(drain bool) {
		if !r.exited {
			h++
			r.heightTick(h, drain)
		}
	}
	reobs := func(tx string) {
		if !r.exited {
			r.reobserve(tx)
		}
	}
	seq := uint64(g.r.Intn(1000))
	mk := func(b *fblock, sender []byte, tc uint16, payload []byte) *evSpec {
		seq += 1 + uint64(g.r.Intn(5))
		e := r.mkEvent(b, msgSpec{sender: sender, tc: tc, seq: seq, nonce: g.r.Uint32(), cl: uint8(g.r.Intn(3)), payload: payload})
		r.registerTx(e, r.c.gov)
		return e
	}
	// 1. the first validation of X
	var head []*evSpec
	if g.chance(30) { // anyone can publish on the governance contract: a faithful attestation-shaped event of a foreign sender comes first
		head = append(head, mk(r.oldBlock(), g.bytesN(32), 0, g.attestFor(x, "ok")))
	}
	e1 := mk(r.oldBlock(), r.c.bridge, 0, g.attestFor(x, "ok"))
	var carry []*evSpec // on the log's next positions, not yet served to the polling path
	switch first {
	case "poll":
		page(append(head, e1))
		height(false)
	case "reobs":
		if len(head) > 0 {
			reobs(head[0].tx)
		}
		reobs(e1.tx)
		carry = append(head, e1)
	default:
		if g.chance(50) {
			reobs(e1.tx)
		}
		page(append(head, e1))
		height(false)
		reobs(e1.tx)
	}
	if fetch && g.chance(25) && !r.exited { // Run is started again on the same Watcher value: same client
		r.restart("cancel", "", nil)
	}
	// after a change: attestations of the values X reported before (prev), of what it reports now, a transfer; both paths
	after := func(prev *tokenTruth, prevPayload []byte, hasNow bool, oldTxs []string) {
		evs := carry
		carry = nil
		b := r.oldBlock()
		oldP := g.attestFor(prev, "ok")
		if prevPayload != nil && g.chance(50) { // the very bytes that were validated before
			oldP = prevPayload
		}
		txs := append([]string{}, oldTxs...)
		add := func(e *evSpec) {
			evs = append(evs, e)
			txs = append(txs, e.tx)
		}
		if hasNow && g.chance(50) {
			add(mk(b, r.c.bridge, 0, g.attestFor(x, "ok")))
			add(mk(b, r.c.bridge, 0, oldP))
		} else {
			add(mk(b, r.c.bridge, 0, oldP))
			if hasNow {
				add(mk(r.oldBlock(), r.c.bridge, 0, g.attestFor(x, "ok")))
			}
		}
		add(mk(b, r.c.bridge, 2, append([]byte{1}, g.bytesN(132)...)))
		g.r.Shuffle(len(txs), func(i, j int) { txs[i], txs[j] = txs[j], txs[i] })
		reobsFirst := g.chance(40)
		if reobsFirst {
			for _, tx := range txs {
				reobs(tx)
			}
		}
		if g.chance(50) {
			page(evs)
		} else {
			for i := range evs {
				page(evs[i : i+1])
			}
		}
		height(false)
		if !reobsFirst || g.chance(30) {
			for _, tx := range txs {
				reobs(tx)
			}
		}
	}
	// 2. X answers differently; 3. earlier and current values on both paths
	v1 := *x
	r.changeToken(x, kind)
	after(&v1, e1.m.payload, kind != "gone", []string{e1.tx})
	// 4. a second change: something else again, or back to what X reported first
	if g.chance(35) && !r.exited {
		v2, now2 := *x, kind != "gone"
		if g.chance(50) {
			x.symbol, x.name, x.decimals = v1.symbol, v1.name, v1.decimals
			r.setShape(x, g.healthyShape(x))
		} else {
			r.changeToken(x, []string{"symbol", "name", "decimals", "all"}[g.r.Intn(4)])
		}
		var prevPayload []byte
		if !now2 { // X's calls failed meanwhile: v2 holds the values of v1, nothing was validated against them since
			prevPayload = e1.m.payload
		}
		after(&v2, prevPayload, true, []string{e1.tx})
	}
	if fetch && !r.exited {
		r.fetchTickEvs(tickScript{pageSize: 100, pageErr: -1}, nil)
	}
	for s := 0; s < 2 && !r.exited; s++ {
		r.settle()
		height(true)
	}
	r.stop()
}

// genMetaChange: every kind of change, every way of meeting the first validation, with and without the fetch loop.
func (g *fgen) genMetaChange(rounds int) {
	for i := 0; i < rounds; i++ {
		for _, kind := range []string{"symbol", "name", "decimals", "all", "gone"} {
			for _, first := range []string{"poll", "reobs", "both"} {
				g.mchgCase(kind, first, true)
				g.mchgCase(kind, first, false)
			}
		}
	}
}

// ---------------------------------------------------------------------------------------------
// the height poller: while enabled it must pass on every polled height, changed or not (pending events can become final by
// wall-clock time alone), and report an API error.
//   fheight <id> seq=<h|e,..> got=<h|e|stall,..>

func (g *fgen) genFheight(n int) {
	for i := 0; i < n; i++ {
		w := &Watcher{blockPollerEnabled: &atomic.Bool{}, pollIntervalMs: 1, chainIndex: &ChainIndex{}, governanceContractAddress: "x"}
		w.EnableBlockPoller()
		k := 2 + g.r.Intn(5)
		seq := make([]string, k)
		vals := make([]int32, k)
		cur := int32(100 + g.r.Intn(100))
		for j := 0; j < k; j++ {
			switch g.r.Intn(4) {
			case 0:
				cur++
			case 1:
				cur -= int32(g.r.Intn(3))
			}
			vals[j] = cur
			seq[j] = fmt.Sprint(cur)
		}
		if g.chance(30) {
			seq[k-1] = "e"
		}
		ctx, cancel := context.WithCancel(context.Background())
		var idx int32
		get := func() (*int32, error) {
			j := int(atomic.AddInt32(&idx, 1)) - 1
			if j >= k {
				<-ctx.Done()
				return nil, ctx.Err()
			}
			if seq[j] == "e" {
				return nil, errors.New("scripted failure")
			}
			return &vals[j], nil
		}
		errC := make(chan error)
		hC := make(chan int32)
		done := make(chan struct{})
		go func() {
			defer close(done)
			w._fetchHeight(ctx, zap.NewNop(), get, errC, hC)
		}()
		var got []string
	loop:
		for j := 0; j < k; j++ {
			select {
			case h := <-hC:
				got = append(got, fmt.Sprint(h))
			case <-errC:
				got = append(got, "e")
				break loop
			case <-time.After(60 * time.Second):
				got = append(got, "stall")
				break loop
			}
		}
		cancel()
		for stopped := false; !stopped; {
			select {
			case <-done:
				stopped = true
			case <-errC:
			case <-hC:
			}
		}
		g.emit("fheight %s seq=%s got=%s", g.id("fheight"), fjoin(seq, ","), fjoin(got, ","))
	}
}

// ---------------------------------------------------------------------------------------------
// the fetch loop

type tickScript struct {
	newVisible int   // events appended and visible before the count request
	growAfter  []int // [0]: events becoming visible between the count request and the first page request; [k]: after the k-th page request
	pageSize   int
	countErr   bool
	pageErr    int // index of the page request that fails (-1 none)
	// the count moves backwards: this tick's count request is answered by a backend of a load-balanced endpoint (a lagging node, a
	// fail-over, a node that is resyncing) that holds dipBy events fewer than the node had already reported before this tick
	// (dipBy >= what it had: none at all). With lagPages the page requests of the tick reach that backend as well - it has nothing
	// at or beyond its own count - otherwise they are served by the healthy one.
	dipBy    int
	lagPages bool
}

// fetchTick releases the parked count request and follows the real loop until the tick is over.
func (r *watchRun) fetchTick(sc tickScript, allowMalformed bool) {
	total := sc.newVisible
	for _, k := range sc.growAfter {
		total += k
	}
	r.fetchTickEvs(sc, r.newEvents(total, allowMalformed, false))
}

// fetchTickEvs: the same with the events given (sc.newVisible of them visible before the count request, the rest by sc.growAfter).
func (r *watchRun) fetchTickEvs(sc tickScript, evs []*evSpec) {
	g, n := r.g, r.g.node
	if !r.parked || r.exited {
		panic("verif harness: fetchTick without a parked count request")
	}
	total := len(evs)
	n.mu.Lock()
	n.events = append(n.events, evs...)
	reported := n.visible // what count / page answers have shown so far
	n.visible += sc.newVisible
	n.count = n.visible
	n.lagPages, n.lagVis = false, 0
	if sc.dipBy > 0 {
		n.count = reported - sc.dipBy
		if n.count < 0 {
			n.count = 0
		}
		n.lagPages, n.lagVis = sc.lagPages, n.count
		r.dipped = true
	}
	n.growAfter = sc.growAfter
	n.pageSize = sc.pageSize
	n.pageReqs = 0
	n.pageCap = 3*(total+2) + 20
	if r.lives > 1 || r.dipped { // a watcher that resumes from an older index may walk the whole log again
		n.pageCap += 3 * len(n.events)
	}
	delete(n.errs, "count")
	for k := range n.errs {
		if strings.HasPrefix(k, "page:") {
			delete(n.errs, k)
		}
	}
	if sc.countErr {
		n.errs["count"] = true
	}
	if sc.pageErr >= 0 {
		n.errs["page:"+strconv.Itoa(sc.pageErr)] = true
	}
	n.log = nil
	n.mu.Unlock()

	r.parked = false
	n.release <- struct{}{}
	out := "none"
	select {
	case us := <-r.evA:
		out = renderUnconfirmeds(us)
		r.evB <- us
		if r.barrier() {
			select {
			case <-n.arrive:
				r.parked = true
			case <-r.errC: // the fetch loop ended right after the hand-over
				r.exited = true
			case <-r.panicC:
				r.exited, r.panicked = true, true
			}
		}
	case <-r.errC:
		r.exited = true
	case <-r.panicC:
		r.exited, r.panicked = true, true
	case <-n.arrive:
		r.parked = true
	}
	log := n.takeLog()
	// events served, in the order of the page answers
	var served []*evSpec
	n.mu.Lock()
	for _, l := range log {
		if strings.HasPrefix(l, "page:") {
			var s, e int
			if _, err := fmt.Sscanf(l, "page:%d>%d", &s, &e); err == nil && s >= 0 && e <= len(n.events) && s < e {
				served = append(served, n.events[s:e]...)
			}
		}
	}
	spun := n.spun
	n.mu.Unlock()
	g.emit("wtick %s evs=%s reqs=%s out=%s exit=%s en=%s spin=%s panic=%s", r.id, renderEvs(served), fjoin(log, ","), out, fb(r.exited), r.en(), fb(spun), fb(r.panicked))
}

func (g *fgen) randScript(quiet bool) tickScript {
	sc := tickScript{pageSize: g.pick(1, 1, 2, 3, 5, 100), pageErr: -1}
	switch k := g.r.Intn(100); {
	case k < 15:
		sc.newVisible = 0
	case k < 55:
		sc.newVisible = 1 + g.r.Intn(3)
	default:
		sc.newVisible = 1 + g.r.Intn(9)
	}
	if sc.newVisible > 0 && g.chance(30) { // the log grows between the count request and some page request
		pages := (sc.newVisible + sc.pageSize - 1) / sc.pageSize
		sc.growAfter = make([]int, g.r.Intn(pages+2)+1)
		sc.growAfter[len(sc.growAfter)-1] = 1 + g.r.Intn(3)
		if g.chance(30) {
			sc.growAfter[0] += 1 + g.r.Intn(2)
		}
	}
	if !quiet && g.chance(3) {
		sc.countErr = true
	}
	if !quiet && g.chance(4) {
		sc.pageErr = g.r.Intn(3)
	}
	return sc
}

// pipeCase: the whole polling path. mode "clean": no injected API faults (liveness is judged on these);
// mode "faulty": API errors at count / page / main-chain / header requests as well.
func (g *fgen) pipeCase(mode string) {
	r := g.newWatchRun("pipe", true, true)
	quiet := mode == "clean"
	// some history exists before the watcher starts (it must start from the current count, not from zero)
	pre := g.pick(0, 0, 1, 3, 7)
	evs := r.newEvents(pre, true, false)
	n := g.node
	n.mu.Lock()
	n.events = append(n.events, evs...)
	n.visible = len(n.events)
	n.count = n.visible
	n.mu.Unlock()
	r.dip = g.chance(25)
	count0 := ""
	if !quiet && g.chance(4) {
		count0 = "e"
	} else if pre == 0 && g.chance(30) {
		count0 = "404"
	}
	r.start(count0)
	steps := g.pick(2, 4, 6, 10, 14)
	cur := int32(100)
	for s := 0; s < steps && !r.exited; s++ {
		if g.chance(55) || s == 0 {
			r.fetchTick(g.randScript(quiet), true)
		} else {
			if quiet {
				r.perturb(0)
			} else {
				r.perturb(g.pick(0, 0, 0, 4))
			}
			cur = r.interestingHeight(cur)
			r.heightTick(cur, false)
		}
	}
	// drain: one more quiet fetch tick, then the chain moves far ahead with every block canonical
	if !r.exited {
		r.fetchTick(tickScript{pageSize: 100, pageErr: -1}, false)
	}
	for s := 0; s < 2 && !r.exited; s++ {
		r.settle()
		r.heightTick(1000+int32(s), true)
	}
	r.stop()
}

// ---------------------------------------------------------------------------------------------
// count histories that move backwards ("no matter ... how the event count moves between requests"): a count poll answers LOWER
// than an earlier one - by one, by a few, by everything - once, several polls in a row, or again after a recovery; the page
// requests of such a tick reach the lagging backend too, or the healthy one; events may be appended meanwhile. Before the dip the
// watcher has fetched events: some forwarded already, some still pending. Afterwards the count is right again. Every log position
// is owed to the signer exactly once (poll-forwarded-twice, final-message-not-forwarded, page-gap-or-overlap).

func (g *fgen) dipCase(dips []int, lagPages bool, forwardFirst bool) {
	r := g.newWatchRun("cdip", true, g.chance(50))
	n := g.node
	pre := r.newEvents(g.pick(0, 2, 5), true, false) // history before the start
	n.mu.Lock()
	n.events = append(n.events, pre...)
	n.visible = len(n.events)
	n.count = n.visible
	n.mu.Unlock()
	r.start("")
	h := int32(1000)
	tickQuick := func(k int, sc tickScript) {
		if !r.exited {
			sc.newVisible, sc.pageErr = k, -1
			if sc.pageSize == 0 {
				sc.pageSize = g.pick(1, 2, 3, 100)
			}
			r.fetchTickEvs(sc, r.quickEvents(k))
		}
	}
	height := func(drain bool) {
		if !r.exited {
			h++
			r.heightTick(h, drain)
		}
	}
	// the watcher has fetched a few events; with forwardFirst they have been handed to the signer before the count dips
	tickQuick(2+g.r.Intn(4), tickScript{})
	if g.chance(50) {
		tickQuick(1+g.r.Intn(3), tickScript{})
	}
	if forwardFirst {
		height(false)
	}
	for i, d := range dips {
		if d < 0 { // a healthy poll between two dips
			tickQuick(g.r.Intn(3), tickScript{})
			if g.chance(50) {
				height(false)
			}
			continue
		}
		lag := lagPages
		if i > 0 && g.chance(25) {
			lag = !lag
		}
		tickQuick(g.pick(0, 0, 1, 2), tickScript{dipBy: d, lagPages: lag})
		if g.chance(30) {
			height(false)
		}
	}
	// the count is right again
	for round := 0; round < 1+g.r.Intn(2); round++ {
		tickQuick(g.r.Intn(3), tickScript{})
		height(false)
	}
	if !r.exited {
		r.fetchTickEvs(tickScript{pageSize: 100, pageErr: -1}, nil)
	}
	for s := 0; s < 2 && !r.exited; s++ {
		r.settle()
		height(true)
	}
	r.stop()
}

func (g *fgen) genDips(rounds int) {
	const all = 1 << 20
	for i := 0; i < rounds; i++ {
		few := 2 + g.r.Intn(3)
		for _, dips := range [][]int{{1}, {few}, {all}, {1, 1}, {few, all}, {all, all, 1}, {1, -1, 1}, {few, -1, all}, {1, few, all, -1, few}} {
			for _, lag := range []bool{true, false} {
				for _, fwd := range []bool{true, false} {
					g.dipCase(dips, lag, fwd)
				}
			}
		}
	}
}

// genC09: metadata calls of every shape, page conversion, the whole polling pipeline, plus event-loop-only and
// re-observation cases (a panic or exit there is a C09 matter as well).
func (g *fgen) genC09() {
	nTinfo, nHunconf, nPipe, nPoll, nReobs := 400, 400, 600, 100, 300
	if g.tier == "thorough" {
		nTinfo, nHunconf, nPipe, nPoll, nReobs = 4000, 4000, 8000, 1000, 3000
	}
	g.genTinfo(nTinfo)
	g.genHunconf(nHunconf)
	g.genFheight(nPipe / 20)
	for i := 0; i < nPipe; i++ {
		if i%4 == 3 {
			g.pipeCase("faulty")
		} else {
			g.pipeCase("clean")
		}
	}
	for i := 0; i < nPoll; i++ {
		g.pollCase()
	}
	for i := 0; i < nReobs; i++ {
		g.reobsCase()
	}
	nRst, nMeta := 8, 1
	if g.tier == "thorough" {
		nRst, nMeta = 80, 8
	}
	g.genRestarts(nRst)
	g.genMeta(nMeta)
	g.genPaths(nMeta)
	g.genPageFail(nMeta)
	g.genDips(nMeta)
	g.genMetaChange(nMeta)
}
