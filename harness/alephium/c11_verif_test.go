//go:build verif

package alephium

// Correspondence harness for C11 (family `alphutil`), injected into package alephium by `go test -overlay`.
// Runs the REAL converters of utils.go (toBool/toAddress/toByteVec/toByte32/toU256/toI256/toUint8/16/64,
// ToWormholeMessage, toMessagePublication, IsAttestTokenVAA/IsTransferTokenVAA/GetID, parseAttestToken,
// HexToByte32/HexToFixedSizeBytes/ToHex, ToContractAddress/ToContractId, base58) on boundary sweeps plus a
// PRNG stream (VERIF_SEED) and writes one case per line to $VERIF_OUT/alphutil.cases.
//
// Strings travel as hex of their bytes ("" is the empty string inside a field, "-" where a whole value is absent).
// A field is  <bytevec>/<u256>/<i256>/<address>/<bool>  with each part "-" (nil pointer) or <hex(type)>.<hex(value)>
// (bool: <hex(type)>.0|1); a field list is comma separated ("none" = empty list).

import (
	"bufio"
	"encoding/binary"
	"encoding/hex"
	"encoding/json"
	"errors"
	"fmt"
	"math/big"
	"math/rand"
	"os"
	"path/filepath"
	"strconv"
	"strings"
	"testing"

	sdk "github.com/alephium/go-sdk"
	"github.com/btcsuite/btcutil/base58"
)

type c11gen struct {
	r    *rand.Rand
	w    *bufio.Writer
	n    int
	dist map[string]int
}

func (g *c11gen) id(kind string) string {
	g.n++
	g.dist[kind]++
	return fmt.Sprintf("%s%d", kind, g.n)
}

func (g *c11gen) bytesN(n int) []byte {
	b := make([]byte, n)
	g.r.Read(b)
	return b
}

func c11hex(b []byte) string {
	if len(b) == 0 {
		return "-"
	}
	return hex.EncodeToString(b)
}

func c11shex(s string) string { return c11hex([]byte(s)) }

func c11tag(t *string, v string) string {
	return hex.EncodeToString([]byte(*t)) + "." + v
}

func c11field(v sdk.Val) string {
	parts := []string{"-", "-", "-", "-", "-"}
	if v.ValByteVec != nil {
		parts[0] = c11tag(&v.ValByteVec.Type, hex.EncodeToString([]byte(v.ValByteVec.Value)))
	}
	if v.ValU256 != nil {
		parts[1] = c11tag(&v.ValU256.Type, hex.EncodeToString([]byte(v.ValU256.Value)))
	}
	if v.ValI256 != nil {
		parts[2] = c11tag(&v.ValI256.Type, hex.EncodeToString([]byte(v.ValI256.Value)))
	}
	if v.ValAddress != nil {
		parts[3] = c11tag(&v.ValAddress.Type, hex.EncodeToString([]byte(v.ValAddress.Value)))
	}
	if v.ValBool != nil {
		b := "0"
		if v.ValBool.Value {
			b = "1"
		}
		parts[4] = c11tag(&v.ValBool.Type, b)
	}
	return strings.Join(parts, "/")
}

func c11fields(fs []sdk.Val) string {
	if len(fs) == 0 {
		return "none"
	}
	out := make([]string, len(fs))
	for i, f := range fs {
		out[i] = c11field(f)
	}
	return strings.Join(out, ",")
}

// classification of err.Error() into the kinds the Lean model names
func c11errKind(err error) string {
	msg := err.Error()
	var ibe hex.InvalidByteError
	switch {
	case errors.Is(err, hex.ErrLength):
		return "hex-len"
	case errors.As(err, &ibe):
		return "hex-byte"
	case msg == "`ValByteVec` is nil":
		return "nil-bytevec"
	case msg == "`ValU256` is nil":
		return "nil-u256"
	case msg == "`ValI256` is nil":
		return "nil-i256"
	case msg == "`ValBool` is nil":
		return "nil-bool"
	case msg == "`ValAddress` is nil":
		return "nil-address"
	case strings.HasPrefix(msg, "invalid bytevec type"):
		return "type-bytevec"
	case strings.HasPrefix(msg, "invalid u256 type"):
		return "type-u256"
	case strings.HasPrefix(msg, "invalid i256 type"):
		return "type-i256"
	case strings.HasPrefix(msg, "invalid bool type"):
		return "type-bool"
	case strings.HasPrefix(msg, "invalid address type"):
		return "type-address"
	case strings.HasPrefix(msg, "invalid u256 value"):
		return "num-u256"
	case strings.HasPrefix(msg, "invalid i256 value"):
		return "num-i256"
	case msg == "invalid byte32":
		return "byte32"
	case msg == "invalid uint8":
		return "uint8"
	case msg == "invalid uint16":
		return "uint16"
	case msg == "invalid uint64":
		return "uint64"
	case strings.HasPrefix(msg, "invalid wormhole message field size"):
		return "count"
	case msg == "invalid nonce size":
		return "nonce"
	case strings.HasPrefix(msg, "invalid hex string"):
		return "hexfixed"
	case strings.HasPrefix(msg, "invalid contract address"):
		return "address"
	case msg == "invalid attest token payload length":
		return "attest-len"
	case msg == "invalid token chain id":
		return "attest-chain"
	}
	return "other:" + c11shex(msg)
}

// ---------------------------------------------------------------- value pools

func c11pow2(k uint) *big.Int { return new(big.Int).Lsh(big.NewInt(1), k) }

func c11boundaryInts() []*big.Int {
	var out []*big.Int
	add := func(b *big.Int) {
		for _, d := range []int64{-2, -1, 0, 1, 2} {
			out = append(out, new(big.Int).Add(b, big.NewInt(d)))
		}
	}
	for _, k := range []uint{0, 7, 8, 15, 16, 31, 32, 63, 64, 65, 128, 255, 256} {
		add(c11pow2(k))
	}
	out = append(out, new(big.Int).Exp(big.NewInt(10), big.NewInt(100), nil))
	n := len(out)
	for i := 0; i < n; i++ {
		out = append(out, new(big.Int).Neg(out[i]))
	}
	return out
}

// numerals that are NOT the canonical rendering of an integer
var c11oddNumerals = []string{
	"", " ", "+", "-", "+-1", "-+1", "--1", "++1", "+5", "+0", "-0", "-00", "+255", "+256", "+65535", "+65536", "-255", "-256",
	" 5", "5 ", "\t5", "5\n", "5\x00", "\x005", "0x10", "0X10", "0b1", "0o7", "1e3", "1E3", "1.0", "1.", ".1", "1,000", "1_0", "_1", "1_",
	"1__0", "007", "0255", "0256", "00000000000000000000000000000000000000255", "000000000000000000000000000000065535", "0065536",
	"00000000000000000000018446744073709551615", "00000000000000000000018446744073709551616",
	"ff", "FF", "0xff", "a", "z", "NaN", "Inf", "-Inf", "١٢", "１２", "²", "\xff", "1\xff", "12abc", "abc12", "1 2", "1-2", "1+2", "٣",
	"true", "null", "255.0", "2.55e2", "0255 ", "/", ":", "9:", "/9", "25５",
}

var c11tags = []string{"U256", "I256", "ByteVec", "Bool", "Address", "Array", "", "u256", "U256 ", " U256", "U25", "U2566", "bytevec", "ByteVec\x00", "BYTEVEC"}

func (g *c11gen) numeral() string {
	r := g.r
	switch r.Intn(10) {
	case 0:
		return c11oddNumerals[r.Intn(len(c11oddNumerals))]
	case 1, 2:
		bs := c11boundaryInts()
		return bs[r.Intn(len(bs))].String()
	case 3:
		// random digit string, random length (leading zeros possible)
		n := 1 + r.Intn(80)
		b := make([]byte, n)
		for i := range b {
			b[i] = byte('0' + r.Intn(10))
		}
		return string(b)
	case 4:
		// a digit string with one foreign byte spliced in
		n := 1 + r.Intn(12)
		b := make([]byte, n)
		for i := range b {
			b[i] = byte('0' + r.Intn(10))
		}
		p := r.Intn(n + 1)
		c := []byte{byte(r.Intn(256))}
		if r.Intn(2) == 0 {
			c = []byte{" +-_.,xeE/:\x00\n"[r.Intn(13)]}
		}
		return string(b[:p]) + string(c) + string(b[p:])
	case 5:
		return new(big.Int).Rand(r, c11pow2(uint(1+r.Intn(70)))).String()
	default:
		return strconv.FormatUint(uint64(r.Intn(70000)), 10)
	}
}

func c11bv(s string) sdk.Val  { return sdk.Val{ValByteVec: &sdk.ValByteVec{Type: "ByteVec", Value: s}} }
func c11u(s string) sdk.Val   { return sdk.Val{ValU256: &sdk.ValU256{Type: "U256", Value: s}} }
func c11i(s string) sdk.Val   { return sdk.Val{ValI256: &sdk.ValI256{Type: "I256", Value: s}} }
func c11adr(s string) sdk.Val { return sdk.Val{ValAddress: &sdk.ValAddress{Type: "Address", Value: s}} }
func c11bool(b bool) sdk.Val  { return sdk.Val{ValBool: &sdk.ValBool{Type: "Bool", Value: b}} }

var c11oddHex = []string{
	"", "0", "00", "000", "0g", "g0", "gg", "zz", "0x00", "0X00", " 00", "00 ", "00\n", "0 0", "é", "00é", "\xff\xff", "AB", "aB", "Ab", "ABCDEF", "abcdef",
	"abcdefg", "abcdeg", "abcdg", "00zz00", "0001z", "0001zz", "/0", "0/", ":0", "0:", "@A", "A@", "G0", "0G", "`a", "a`", "g", "G", "-", "--",
}

func (g *c11gen) hexString() string {
	r := g.r
	switch r.Intn(8) {
	case 0:
		return c11oddHex[r.Intn(len(c11oddHex))]
	case 1:
		return strings.ToUpper(hex.EncodeToString(g.bytesN(r.Intn(40))))
	case 2:
		// valid hex with one byte replaced / inserted / removed
		s := []byte(hex.EncodeToString(g.bytesN(1 + r.Intn(34))))
		p := r.Intn(len(s))
		switch r.Intn(3) {
		case 0:
			s[p] = byte(r.Intn(256))
		case 1:
			s = append(s[:p], s[p+1:]...)
		default:
			s = append(s[:p], append([]byte{"ghGxz /:@`"[r.Intn(10)]}, s[p:]...)...)
		}
		return string(s)
	default:
		lens := []int{0, 1, 3, 4, 5, 31, 32, 33, 64, 100, 133}
		return hex.EncodeToString(g.bytesN(lens[r.Intn(len(lens))]))
	}
}

// ---------------------------------------------------------------- single converters

func c11safe(f func() string) (res string) {
	defer func() {
		if e := recover(); e != nil {
			res = "panic"
		}
	}()
	return f()
}

func (g *c11gen) conv(fn string, f sdk.Val) {
	res := c11safe(func() string {
		switch fn {
		case "bool":
			v, err := toBool(f)
			if err != nil {
				if v != nil {
					return "errnonnil"
				}
				return "err:" + c11errKind(err)
			}
			if *v {
				return "ok:1"
			}
			return "ok:0"
		case "address":
			v, err := toAddress(f)
			if err != nil {
				if v != nil {
					return "errnonnil"
				}
				return "err:" + c11errKind(err)
			}
			return "ok:" + c11shex(*v)
		case "bytevec":
			v, err := toByteVec(f)
			if err != nil {
				return "err:" + c11errKind(err)
			}
			return "ok:" + c11hex(v)
		case "byte32":
			v, err := toByte32(f)
			if err != nil {
				if v != nil {
					return "errnonnil"
				}
				return "err:" + c11errKind(err)
			}
			return "ok:" + c11hex(v[:])
		case "u256":
			v, err := toU256(f)
			if err != nil {
				if v != nil {
					return "errnonnil"
				}
				return "err:" + c11errKind(err)
			}
			return "ok:" + v.String()
		case "i256":
			v, err := toI256(f)
			if err != nil {
				if v != nil {
					return "errnonnil"
				}
				return "err:" + c11errKind(err)
			}
			return "ok:" + v.String()
		case "u64":
			v, err := toUint64(f)
			if err != nil {
				if v != nil {
					return "errnonnil"
				}
				return "err:" + c11errKind(err)
			}
			return "ok:" + strconv.FormatUint(*v, 10)
		case "u16":
			v, err := toUint16(f)
			if err != nil {
				if v != nil {
					return "errnonnil"
				}
				return "err:" + c11errKind(err)
			}
			return "ok:" + strconv.FormatUint(uint64(*v), 10)
		case "u8":
			v, err := toUint8(f)
			if err != nil {
				if v != nil {
					return "errnonnil"
				}
				return "err:" + c11errKind(err)
			}
			return "ok:" + strconv.FormatUint(uint64(*v), 10)
		}
		return "unknown"
	})
	fmt.Fprintf(g.w, "cv %s fn=%s f=%s res=%s\n", g.id("cv-"+fn+"-"), fn, c11field(f), res)
}

var c11numFns = []string{"u8", "u16", "u64", "u256", "i256"}

func (g *c11gen) numField(fn, s string) sdk.Val {
	if fn == "i256" {
		return c11i(s)
	}
	return c11u(s)
}

func (g *c11gen) convSweep() {
	// every boundary integer and every odd numeral through every numeric converter, with the right tag
	for _, fn := range c11numFns {
		for _, b := range c11boundaryInts() {
			g.conv(fn, g.numField(fn, b.String()))
		}
		for _, s := range c11oddNumerals {
			g.conv(fn, g.numField(fn, s))
		}
		// wrong tags / nil variant / value in another variant
		for _, tg := range c11tags {
			f := sdk.Val{ValU256: &sdk.ValU256{Type: tg, Value: "7"}, ValI256: &sdk.ValI256{Type: tg, Value: "7"}}
			g.conv(fn, f)
		}
		g.conv(fn, sdk.Val{})
		g.conv(fn, c11bv("07"))
		g.conv(fn, c11i("7"))
		g.conv(fn, c11u("7"))
		g.conv(fn, c11adr("7"))
		g.conv(fn, c11bool(true))
		g.conv(fn, sdk.Val{ValU256: &sdk.ValU256{Type: "U256", Value: "7"}, ValI256: &sdk.ValI256{Type: "I256", Value: "9"}, ValByteVec: &sdk.ValByteVec{Type: "ByteVec", Value: "0b"}})
	}
	for _, fn := range []string{"bytevec", "byte32"} {
		for _, s := range c11oddHex {
			g.conv(fn, c11bv(s))
		}
		for _, n := range []int{0, 1, 4, 31, 32, 33, 64} {
			b := g.bytesN(n)
			g.conv(fn, c11bv(hex.EncodeToString(b)))
			g.conv(fn, c11bv(strings.ToUpper(hex.EncodeToString(b))))
			if n > 0 {
				s := hex.EncodeToString(b)
				g.conv(fn, c11bv(s[:len(s)-1]))
				g.conv(fn, c11bv(s+"0"))
				g.conv(fn, c11bv(s[:len(s)-1]+"g"))
				g.conv(fn, c11bv("g"+s[1:]))
				g.conv(fn, c11bv(s+"g"))
			}
		}
		for _, tg := range c11tags {
			g.conv(fn, sdk.Val{ValByteVec: &sdk.ValByteVec{Type: tg, Value: "00"}})
		}
		g.conv(fn, sdk.Val{})
		g.conv(fn, c11u("00"))
		g.conv(fn, c11adr("00"))
	}
	for _, tg := range c11tags {
		g.conv("bool", sdk.Val{ValBool: &sdk.ValBool{Type: tg, Value: true}})
		g.conv("bool", sdk.Val{ValBool: &sdk.ValBool{Type: tg, Value: false}})
		g.conv("address", sdk.Val{ValAddress: &sdk.ValAddress{Type: tg, Value: "14PqtYSSbwpUi2RJKUvv9yUwGafd6yHbEcke7ionuiE7w"}})
	}
	g.conv("bool", sdk.Val{})
	g.conv("bool", c11u("1"))
	g.conv("address", sdk.Val{})
	g.conv("address", c11bv("00"))
	g.conv("address", c11adr(""))
}

func (g *c11gen) convRandom(n int) {
	r := g.r
	for i := 0; i < n; i++ {
		switch r.Intn(4) {
		case 0:
			fn := []string{"bytevec", "byte32"}[r.Intn(2)]
			f := c11bv(g.hexString())
			if r.Intn(12) == 0 {
				f.ValByteVec.Type = c11tags[r.Intn(len(c11tags))]
			}
			g.conv(fn, f)
		default:
			fn := c11numFns[r.Intn(len(c11numFns))]
			f := g.numField(fn, g.numeral())
			if r.Intn(12) == 0 {
				if f.ValU256 != nil {
					f.ValU256.Type = c11tags[r.Intn(len(c11tags))]
				} else {
					f.ValI256.Type = c11tags[r.Intn(len(c11tags))]
				}
			}
			g.conv(fn, f)
		}
	}
}

// ---------------------------------------------------------------- ToWormholeMessage / toMessagePublication

func c11msgCanon(m *WormholeMessage) string {
	return fmt.Sprintf("%s,%d,%d,%s,%d,%d,%s", c11hex(m.senderId[:]), m.targetChainId, m.nonce, c11hex(m.payload), m.Sequence, m.consistencyLevel, c11shex(m.txId))
}

func c11pubCanon(m *WormholeMessage, ts int64) string {
	p := m.toMessagePublication(&sdk.BlockHeaderEntry{Timestamp: ts})
	return fmt.Sprintf("%s,%d,%d,%d,%d,%d,%d,%d,%s,%s", c11hex(p.TxHash[:]), p.Timestamp.Unix(), p.Timestamp.Nanosecond(), p.Nonce, p.Sequence,
		p.ConsistencyLevel, uint16(p.EmitterChain), uint16(p.TargetChain), c11hex(p.EmitterAddress[:]), c11hex(p.Payload))
}

func c11b(b bool) string {
	if b {
		return "1"
	}
	return "0"
}

var c11timestamps = []int64{0, 1, 999, 1000, 1001, 1499, 1500, 1999, 2000, 1700000000000, 1700000000001, 1700000000999, 1663142400123,
	2147483647999, 2147483648000, 4294967295999, 4294967296000, 4294967296001, -1, -999, -1000, -1001, -1500, -1999, -2000,
	9223372036854775807, 9223372036854775000, -9223372036854775808, -9223372036854775807, 253402300799999}

func (g *c11gen) timestamp() int64 {
	r := g.r
	switch r.Intn(4) {
	case 0:
		return c11timestamps[r.Intn(len(c11timestamps))]
	case 1:
		return r.Int63() - r.Int63()
	default:
		return 1600000000000 + r.Int63n(400000000000)
	}
}

func (g *c11gen) txid() string {
	r := g.r
	switch r.Intn(10) {
	case 0:
		return []string{"", "0x", "0X", "0", "0x0", "abc", "zz", "0xzz", "aabbzzcc", "aabbcz", "é", "0x" + strings.Repeat("ab", 32), "0X" + strings.Repeat("Cd", 32),
			strings.Repeat("ab", 33), strings.Repeat("ab", 31), strings.Repeat("a", 63), strings.Repeat("a", 65), "x0" + strings.Repeat("ab", 31), "00x1", strings.Repeat("12", 40) + "g" + strings.Repeat("34", 10)}[r.Intn(20)]
	case 1:
		return strings.ToUpper(hex.EncodeToString(g.bytesN(32)))
	case 2:
		return hex.EncodeToString(g.bytesN(r.Intn(40)))
	default:
		return hex.EncodeToString(g.bytesN(32))
	}
}

func (g *c11gen) msg(kind string, fields []sdk.Val, txId string, ts int64) {
	var m *WormholeMessage
	res := c11safe(func() string {
		mm, err := ToWormholeMessage(fields, txId)
		if err != nil {
			if mm != nil {
				return "errnonnil"
			}
			return "err:" + c11errKind(err)
		}
		m = mm
		return "ok"
	})
	line := fmt.Sprintf("msg %s tx=%s f=%s ts=%d res=%s", g.id(kind), c11shex(txId), c11fields(fields), ts, res)
	if res == "ok" {
		extra := c11safe(func() string {
			id := m.GetID()
			return fmt.Sprintf(" m=%s pub=%s flags=%s%s vid=%d,%s,%d,%d", c11msgCanon(m), c11pubCanon(m, ts), c11b(m.IsAttestTokenVAA()), c11b(m.IsTransferTokenVAA()),
				uint16(id.EmitterChain), c11hex(id.EmitterAddress[:]), uint16(id.TargetChain), id.Sequence)
		})
		if extra == "panic" {
			line += " post=panic"
		} else {
			line += extra
		}
	}
	fmt.Fprintln(g.w, line)
}

type c11event struct {
	sender, nonce, payload   string
	target, sequence, cl     string
}

func (e c11event) fields() []sdk.Val {
	return []sdk.Val{c11bv(e.sender), c11u(e.target), c11u(e.sequence), c11bv(e.nonce), c11bv(e.payload), c11u(e.cl)}
}

var c11targets = []uint64{0, 1, 2, 3, 4, 10, 255, 256, 65534, 65535}
var c11seqs = []uint64{0, 1, 100, 255, 256, 65535, 65536, 1<<32 - 1, 1 << 32, 1<<63 - 1, 1 << 63, 1<<64 - 2, 1<<64 - 1}
var c11cls = []uint64{0, 1, 2, 10, 15, 32, 127, 128, 200, 254, 255}

func (g *c11gen) attestPayload(tok []byte, chain uint16, dec uint8, sym, name []byte) []byte {
	p := []byte{2}
	p = append(p, tok...)
	p = binary.BigEndian.AppendUint16(p, chain)
	p = append(p, dec)
	p = append(p, sym...)
	p = append(p, name...)
	return p
}

func (g *c11gen) pad32(s []byte, mode int) []byte {
	out := make([]byte, 32)
	if len(s) > 32 {
		s = s[:32]
	}
	switch mode {
	case 0: // left padded (what this fork's SDK does)
		copy(out[32-len(s):], s)
	case 1: // right padded
		copy(out, s)
	default:
		off := 0
		if len(s) < 32 {
			off = g.r.Intn(32 - len(s) + 1)
		}
		copy(out[off:], s)
	}
	return out
}

func (g *c11gen) symbol() []byte {
	r := g.r
	switch r.Intn(8) {
	case 0:
		return nil
	case 1:
		return g.bytesN(1 + r.Intn(32)) // arbitrary bytes, may contain NUL at the ends or inside
	case 2:
		return []byte("AB\x00CD")
	case 3:
		return []byte(strings.Repeat("W", 32))
	default:
		words := []string{"ALPH", "TestToken", "test-token", "Token 2", "USDT", "Wrapped Ether", "/@!#$%^&*()=+", "é", "日本"}
		return []byte(words[r.Intn(len(words))])
	}
}

// token ids a shortcut could key on: ALPHTokenId (all zero), all 0xff, and one-byte neighbours of both
func c11specialIds() [][]byte {
	var out [][]byte
	zero := make([]byte, 32)
	ff := make([]byte, 32)
	for i := range ff {
		ff[i] = 0xff
	}
	out = append(out, append([]byte{}, ALPHTokenId[:]...), zero, ff)
	for _, base := range [][]byte{zero, ff} {
		for _, pos := range []int{0, 1, 15, 30, 31} {
			for _, x := range []byte{0x01, 0x80} {
				b := append([]byte{}, base...)
				b[pos] ^= x
				out = append(out, b)
			}
		}
	}
	return out
}

// a token id: mostly random, sometimes one of the distinguished ones
func (g *c11gen) tokenId() []byte {
	if g.r.Intn(5) == 0 {
		ids := c11specialIds()
		return ids[g.r.Intn(len(ids))]
	}
	return g.bytesN(32)
}

func (g *c11gen) payload() []byte {
	r := g.r
	switch r.Intn(6) {
	case 0:
		return g.attestPayload(g.tokenId(), 255, uint8(r.Intn(256)), g.pad32(g.symbol(), r.Intn(3)), g.pad32(g.symbol(), r.Intn(3)))
	case 1:
		p := g.bytesN(133)
		p[0] = 1
		return p
	case 2:
		return nil
	case 3:
		return []byte{byte(r.Intn(4))}
	default:
		return g.bytesN(1 + r.Intn(300))
	}
}

func (g *c11gen) goodEvent() c11event {
	r := g.r
	u := func(pool []uint64, max uint64) string {
		if r.Intn(2) == 0 {
			return strconv.FormatUint(pool[r.Intn(len(pool))], 10)
		}
		if max == 0 {
			return strconv.FormatUint(r.Uint64(), 10)
		}
		return strconv.FormatUint(uint64(r.Int63n(int64(max))), 10)
	}
	hx := func(b []byte) string {
		s := hex.EncodeToString(b)
		if r.Intn(10) == 0 {
			s = strings.ToUpper(s)
		}
		return s
	}
	return c11event{sender: hx(g.bytesN(32)), target: u(c11targets, 65536), sequence: u(c11seqs, 0), nonce: hx(g.bytesN(4)),
		payload: hx(g.payload()), cl: u(c11cls, 256)}
}

func (g *c11gen) msgSweep() {
	base := g.goodEvent()
	tx := hex.EncodeToString(g.bytesN(32))
	// every boundary / odd numeral at every numeric position
	var nums []string
	for _, b := range c11boundaryInts() {
		nums = append(nums, b.String())
	}
	nums = append(nums, c11oddNumerals...)
	for pos := 0; pos < 3; pos++ {
		for _, s := range nums {
			e := base
			switch pos {
			case 0:
				e.target = s
			case 1:
				e.sequence = s
			default:
				e.cl = s
			}
			g.msg([]string{"msg-target-", "msg-seq-", "msg-cl-"}[pos], e.fields(), tx, g.timestamp())
		}
	}
	// every odd hex / length at every byte-vector position
	var hexes []string
	hexes = append(hexes, c11oddHex...)
	hexes = append(hexes, strings.Repeat("00", 32), strings.Repeat("ff", 32), strings.Repeat("00", 31)+"01", "01"+strings.Repeat("00", 31),
		"00000000", "ffffffff", "00000001", "02", "01", "00")
	for _, id := range c11specialIds()[:3] {
		hexes = append(hexes, hex.EncodeToString(g.attestPayload(id, 255, 9, g.pad32([]byte("NINE"), 0), g.pad32([]byte("Nine"), 0))))
	}
	for _, n := range []int{0, 1, 3, 4, 5, 31, 32, 33, 64, 65} {
		s := hex.EncodeToString(g.bytesN(n))
		hexes = append(hexes, s, strings.ToUpper(s))
		if n > 0 {
			hexes = append(hexes, s[:len(s)-1], s+"0", s[:len(s)-1]+"x")
		}
	}
	for pos := 0; pos < 3; pos++ {
		for _, s := range hexes {
			e := base
			switch pos {
			case 0:
				e.sender = s
			case 1:
				e.nonce = s
			default:
				e.payload = s
			}
			g.msg([]string{"msg-sender-", "msg-nonce-", "msg-payload-"}[pos], e.fields(), tx, g.timestamp())
		}
	}
	// type tags and variants at every position
	for pos := 0; pos < 6; pos++ {
		for _, tg := range c11tags {
			fs := base.fields()
			if fs[pos].ValByteVec != nil {
				fs[pos].ValByteVec.Type = tg
			} else {
				fs[pos].ValU256.Type = tg
			}
			g.msg("msg-tag-", fs, tx, g.timestamp())
		}
		alts := []sdk.Val{{}, c11bv("07"), c11u("7"), c11i("7"), c11adr("7"), c11bool(true), c11bv(base.sender), c11bv(base.nonce), c11u(base.sequence)}
		for _, a := range alts {
			fs := base.fields()
			fs[pos] = a
			g.msg("msg-variant-", fs, tx, g.timestamp())
		}
	}
	// field counts 0..9, dropped / duplicated / permuted fields
	fs := base.fields()
	for n := 0; n <= 9; n++ {
		var l []sdk.Val
		for i := 0; i < n; i++ {
			l = append(l, fs[i%6])
		}
		g.msg("msg-count-", l, tx, g.timestamp())
	}
	g.msg("msg-count-", nil, tx, 0)
	for drop := 0; drop < 6; drop++ {
		l := append(append([]sdk.Val{}, fs[:drop]...), fs[drop+1:]...)
		g.msg("msg-count-", l, tx, g.timestamp())
		l2 := append(append(append([]sdk.Val{}, fs[:drop]...), fs[drop]), fs[drop:]...)
		g.msg("msg-count-", l2, tx, g.timestamp())
	}
	for a := 0; a < 6; a++ {
		for b := a + 1; b < 6; b++ {
			l := append([]sdk.Val{}, fs...)
			l[a], l[b] = l[b], l[a]
			g.msg("msg-perm-", l, tx, g.timestamp())
		}
	}
	// distinguishable values in every slot (a converter reading the wrong slot shows)
	e := c11event{sender: strings.Repeat("a1", 32), target: "513", sequence: "72623859790382856", nonce: "01020304", payload: "0203040506", cl: "201"}
	for _, ts := range c11timestamps {
		g.msg("msg-ts-", e.fields(), tx, ts)
	}
}

func (g *c11gen) msgRandom(n int) {
	r := g.r
	for i := 0; i < n; i++ {
		e := g.goodEvent()
		kind := "msg-good-"
		fs := e.fields()
		if r.Intn(3) == 0 {
			kind = "msg-mut-"
			for k := 1 + r.Intn(2); k > 0 && len(fs) > 0; k-- {
				pos := r.Intn(len(fs))
				switch r.Intn(6) {
				case 0, 1, 2:
					if fs[pos].ValU256 != nil {
						fs[pos] = c11u(g.numeral())
					} else {
						fs[pos] = c11bv(g.hexString())
					}
				case 3:
					tg := c11tags[r.Intn(len(c11tags))]
					if fs[pos].ValU256 != nil {
						fs[pos] = sdk.Val{ValU256: &sdk.ValU256{Type: tg, Value: fs[pos].ValU256.Value}}
					} else if fs[pos].ValByteVec != nil {
						fs[pos] = sdk.Val{ValByteVec: &sdk.ValByteVec{Type: tg, Value: fs[pos].ValByteVec.Value}}
					}
				case 4:
					fs[pos] = []sdk.Val{{}, c11bv("07"), c11u("7"), c11i("-7"), c11adr("x"), c11bool(false)}[r.Intn(6)]
				default:
					switch r.Intn(3) {
					case 0:
						fs = append(append([]sdk.Val{}, fs[:pos]...), fs[pos+1:]...)
					case 1:
						fs = append(fs, fs[pos])
					default:
						q := r.Intn(len(fs))
						fs[pos], fs[q] = fs[q], fs[pos]
					}
				}
			}
			if len(fs) == 0 {
				fs = nil
			}
		}
		g.msg(kind, fs, g.txid(), g.timestamp())
	}
}

// events as the node reports them: JSON through the SDK's own decoder
func (g *c11gen) msgJSON() {
	tmpl := `{"blockHash":"%s","txId":"%s","eventIndex":0,"fields":[%s]}`
	good := []string{
		`{"type":"ByteVec","value":"deae14cf3bcfaea1f8f7e905fd8b554833d1bccaa8a9a1dd01f29fea6c7bca07"}`,
		`{"type":"U256","value":"2"}`, `{"type":"U256","value":"100"}`, `{"type":"ByteVec","value":"12e551d9"}`,
		`{"type":"ByteVec","value":"029fb80859f87d9d56a118624a12258e7dd471a0a474490807986d9b0bb7f576ab00ff0800000000000000000000000000000000000000000000746573742d746f6b656e00000000000000000000000000000000000000000000746573742d746f6b656e"}`,
		`{"type":"U256","value":"0"}`,
	}
	alts := []string{`{"type":"U256","value":"255"}`, `{"type":"U256","value":"256"}`, `{"type":"U256","value":"65535"}`, `{"type":"U256","value":"65536"}`,
		`{"type":"U256","value":"18446744073709551615"}`, `{"type":"U256","value":"18446744073709551616"}`,
		`{"type":"U256","value":"115792089237316195423570985008687907853269984665640564039457584007913129639935"}`,
		`{"type":"I256","value":"-1"}`, `{"type":"I256","value":"1"}`, `{"type":"Bool","value":true}`, `{"type":"Address","value":"14PqtYSSbwpUi2RJKUvv9yUwGafd6yHbEcke7ionuiE7w"}`,
		`{"type":"Array","value":[{"type":"U256","value":"1"}]}`, `{"type":"ByteVec","value":""}`, `{"type":"ByteVec","value":"00"}`, `{"type":"U256","value":""}`,
		`{"type":"U256","value":"-1"}`, `5`, `"x"`, `null`, `[]`, `{"type":"U256","value":"1","extra":1}`, `{"value":"1","type":"U256"}`}
	tx := hex.EncodeToString(g.bytesN(32))
	emit := func(fields []string) {
		var ev sdk.ContractEvent
		if err := json.Unmarshal([]byte(fmt.Sprintf(tmpl, tx, tx, strings.Join(fields, ","))), &ev); err != nil {
			g.dist["json-rejected-by-sdk"]++
			return
		}
		g.msg("msg-json-", ev.Fields, ev.TxId, g.timestamp())
	}
	emit(good)
	for pos := 0; pos < 6; pos++ {
		for _, a := range alts {
			f := append([]string{}, good...)
			f[pos] = a
			emit(f)
		}
	}
	emit(good[:5])
	emit(append(append([]string{}, good...), good[5]))
	emit(nil)
}

func (g *c11gen) pubDirect(n int) {
	r := g.r
	emit := func(m *WormholeMessage, ts int64) {
		line := c11safe(func() string {
			id := m.GetID()
			return fmt.Sprintf("pub %s w=%s ts=%d pub=%s flags=%s%s vid=%d,%s,%d,%d", g.id("pub-"), c11msgCanon(m), ts, c11pubCanon(m, ts), c11b(m.IsAttestTokenVAA()), c11b(m.IsTransferTokenVAA()),
				uint16(id.EmitterChain), c11hex(id.EmitterAddress[:]), uint16(id.TargetChain), id.Sequence)
		})
		if line == "panic" {
			line = fmt.Sprintf("pub %s w=%s ts=%d pub=panic", g.id("pub-"), c11msgCanon(m), ts)
		}
		fmt.Fprintln(g.w, line)
	}
	mk := func() *WormholeMessage {
		m := &WormholeMessage{txId: g.txid(), targetChainId: uint16(r.Intn(65536)), nonce: r.Uint32(), payload: g.payload(), Sequence: r.Uint64(), consistencyLevel: uint8(r.Intn(256))}
		copy(m.senderId[:], g.bytesN(32))
		if r.Intn(4) == 0 {
			m.targetChainId = uint16(c11targets[r.Intn(len(c11targets))])
			m.Sequence = c11seqs[r.Intn(len(c11seqs))]
			m.consistencyLevel = uint8(c11cls[r.Intn(len(c11cls))])
		}
		return m
	}
	for _, ts := range c11timestamps {
		emit(mk(), ts)
	}
	for i := 0; i < n; i++ {
		emit(mk(), g.timestamp())
	}
}

// ---------------------------------------------------------------- parseAttestToken

func (g *c11gen) attParse(kind string, in []byte, extra string) {
	res := c11safe(func() string {
		ti, err := parseAttestToken(in)
		if err != nil {
			if ti != nil {
				return "errnonnil"
			}
			return "err:" + c11errKind(err)
		}
		return fmt.Sprintf("ok:%s,%d,%s,%s", c11hex(ti.TokenId[:]), ti.Decimals, c11shex(ti.Symbol), c11shex(ti.Name))
	})
	fmt.Fprintf(g.w, "att %s in=%s%s res=%s\n", g.id(kind), c11hex(in), extra, res)
}

func (g *c11gen) attest(n int) {
	r := g.r
	// round trip against the contract's encoder layout: the components travel with the payload
	rt := func(tok []byte, chain uint16, dec uint8, sym, name []byte, symPad, namePad int) {
		s32, n32 := g.pad32(sym, symPad), g.pad32(name, namePad)
		p := g.attestPayload(tok, chain, dec, s32, n32)
		g.attParse("att-rt-", p, fmt.Sprintf(" tok=%s chain=%d dec=%d sym=%s name=%s", c11hex(tok), chain, dec, c11hex(s32), c11hex(n32)))
	}
	for _, dec := range []uint8{0, 1, 8, 18, 254, 255} {
		for mode := 0; mode < 3; mode++ {
			rt(g.bytesN(32), 255, dec, []byte("TestToken"), []byte("TestToken-0"), mode, mode)
		}
	}
	for _, chain := range []uint16{0, 1, 2, 254, 255, 256, 0xff00, 0xffff, 0x01ff} {
		rt(g.bytesN(32), chain, 8, []byte("ALPH"), []byte("Alephium"), 0, 0)
	}
	// every distinguished token id (ALPHTokenId = 32 zero bytes, all 0xff, their one-byte neighbours) crossed with the
	// canonical ALPH metadata of utils.go (18 / "ALPH" / "Alephium") and with other metadata: attestToken() takes the
	// metadata from its caller, so whatever it encoded must come back, whichever token id it is for
	metas := []struct {
		dec       uint8
		sym, name string
	}{
		{ALPHTokenInfo.Decimals, ALPHTokenInfo.Symbol, ALPHTokenInfo.Name},
		{ALPHTokenInfo.Decimals + 1, ALPHTokenInfo.Symbol, ALPHTokenInfo.Name},
		{ALPHTokenInfo.Decimals, "ALPx", ALPHTokenInfo.Name},
		{ALPHTokenInfo.Decimals, ALPHTokenInfo.Symbol, "alephium"},
		{0, "", ""},
		{255, "TestToken", "TestToken-0"},
		{8, "USDT", "Tether USD"},
	}
	for _, id := range c11specialIds() {
		for _, mt := range metas {
			for mode := 0; mode < 2; mode++ {
				rt(id, 255, mt.dec, []byte(mt.sym), []byte(mt.name), mode, mode)
			}
		}
		rt(id, 254, 18, []byte("ALPH"), []byte("Alephium"), 0, 0)
	}
	// ... and the canonical ALPH metadata with ordinary token ids (a shortcut keyed on the metadata instead)
	for i := 0; i < 4; i++ {
		rt(g.bytesN(32), 255, ALPHTokenInfo.Decimals, []byte(ALPHTokenInfo.Symbol), []byte(ALPHTokenInfo.Name), i%3, i%3)
	}
	for i := 0; i < n; i++ {
		chain := uint16(255)
		if r.Intn(10) == 0 {
			chain = uint16(r.Intn(65536))
		}
		rt(g.tokenId(), chain, uint8(r.Intn(256)), g.symbol(), g.symbol(), r.Intn(3), r.Intn(3))
	}
	// the other package-level constants of utils.go, each hit exactly with otherwise arbitrary fields:
	// payload id byte (AttestTokenPayloadId 2, TransferTokenPayloadId 1, neighbours) - parseAttestToken must not care
	for _, pid := range []byte{0, TransferTokenPayloadId, AttestTokenPayloadId, AttestTokenPayloadId + 1, 255} {
		for _, id := range [][]byte{make([]byte, 32), g.bytesN(32)} {
			p := g.attestPayload(id, 255, uint8(r.Intn(256)), g.pad32(g.symbol(), 0), g.pad32(g.symbol(), 0))
			p[0] = pid
			g.attParse("att-pid-", p, "")
		}
	}
	// lengths AttestTokenPayloadLength-1 / exact / +1 and HashLength-related cut points, with a distinguished token id
	for _, l := range []int{AttestTokenPayloadLength - 1, AttestTokenPayloadLength, AttestTokenPayloadLength + 1, 1 + HashLength, 1 + HashLength + 2} {
		b := make([]byte, l)
		copy(b, g.attestPayload(make([]byte, 32), 255, 7, g.pad32([]byte("ZERO"), 0), g.pad32([]byte("Zero Id"), 0)))
		g.attParse("att-len-", b, "")
	}
	// raw inputs: lengths around 100, every single-byte change of a valid payload, random bytes
	valid := g.attestPayload(g.bytesN(32), 255, 18, g.pad32([]byte("TestToken"), 0), g.pad32([]byte("TestToken-0"), 0))
	for _, l := range []int{0, 1, 33, 35, 36, 68, 98, 99, 101, 102, 200} {
		b := make([]byte, l)
		copy(b, valid)
		if l > 100 {
			copy(b, valid)
		}
		g.attParse("att-len-", b, "")
	}
	g.attParse("att-len-", nil, "")
	for i := 0; i < 100; i++ {
		b := append([]byte{}, valid...)
		b[i] ^= byte(1 + r.Intn(255))
		g.attParse("att-flip-", b, "")
	}
	for i := 0; i < n; i++ {
		b := g.bytesN(100)
		if r.Intn(4) != 0 {
			b[33], b[34] = 0, 255
		}
		if r.Intn(4) == 0 {
			copy(b[1:33], g.tokenId())
			b[0] = AttestTokenPayloadId
		}
		if r.Intn(3) == 0 {
			// NUL runs at the ends of symbol / name
			for j := 36; j < 36+r.Intn(33); j++ {
				b[j] = 0
			}
			for j := 99; j > 99-r.Intn(33); j-- {
				b[j] = 0
			}
		}
		g.attParse("att-rand-", b, "")
	}
}

// ---------------------------------------------------------------- hex <-> Byte32, contract id <-> address, base58

func (g *c11gen) hexOps(n int) {
	r := g.r
	tob32 := func(s string) {
		res := c11safe(func() string {
			b, err := HexToByte32(s)
			if err != nil {
				if b != (Byte32{}) {
					return "errnonzero"
				}
				return "err:" + c11errKind(err)
			}
			return "ok:" + c11hex(b[:]) + " back=" + c11shex(b.ToHex())
		})
		fmt.Fprintf(g.w, "hex %s fn=tob32 in=%s res=%s\n", g.id("hex-tob32-"), c11shex(s), res)
	}
	fixed := func(s string, l int) {
		res := c11safe(func() string {
			b, err := HexToFixedSizeBytes(s, l)
			if err != nil {
				if b != nil {
					return "errnonnil"
				}
				return "err:" + c11errKind(err)
			}
			return "ok:" + c11hex(b)
		})
		fmt.Fprintf(g.w, "hex %s fn=fixed in=%s len=%d res=%s\n", g.id("hex-fixed-"), c11shex(s), l, res)
	}
	tohex := func(b Byte32) {
		s := b.ToHex()
		back, err := HexToByte32(s)
		res := "err"
		if err == nil {
			res = "ok:" + c11hex(back[:])
		}
		fmt.Fprintf(g.w, "hex %s fn=tohex in=%s out=%s back=%s eq=%s\n", g.id("hex-tohex-"), c11hex(b[:]), c11shex(s), res, c11b(b.equalWith(back)))
	}
	var special []Byte32
	special = append(special, Byte32{})
	var ff Byte32
	for i := range ff {
		ff[i] = 0xff
	}
	special = append(special, ff)
	var seq Byte32
	for i := range seq {
		seq[i] = byte(i * 8)
	}
	special = append(special, seq)
	for _, b := range special {
		tohex(b)
	}
	for i := 0; i < n; i++ {
		var b Byte32
		copy(b[:], g.bytesN(32))
		tohex(b)
	}
	for _, l := range []int{0, 1, 31, 32, 33, 64} {
		s := hex.EncodeToString(g.bytesN(l))
		tob32(s)
		tob32(strings.ToUpper(s))
		if l > 0 {
			tob32(s[:len(s)-1])
			tob32(s + "0")
			tob32(s[:len(s)-1] + "g")
			tob32("G" + s[1:])
			tob32(s[:len(s)-2] + "é")
		}
		for _, fl := range []int{0, 1, 4, 31, 32, 33} {
			fixed(s, fl)
		}
	}
	for _, s := range c11oddHex {
		tob32(s)
		fixed(s, len(s)/2)
		fixed(s, (len(s)+1)/2)
	}
	for i := 0; i < n; i++ {
		s := []byte(hex.EncodeToString(g.bytesN(32)))
		if r.Intn(2) == 0 {
			s[r.Intn(64)] = byte(r.Intn(256))
		}
		if r.Intn(4) == 0 {
			s = []byte(strings.ToUpper(string(s)))
		}
		tob32(string(s))
		h := g.hexString()
		fixed(h, len(h)/2)
	}
}

func (g *c11gen) cidOps(n int) {
	r := g.r
	toid := func(kind, addr string) {
		res := c11safe(func() string {
			id, err := ToContractId(addr)
			if err != nil {
				if id != (Byte32{}) {
					return "errnonzero"
				}
				return "err:" + c11errKind(err)
			}
			back := "err"
			if a, err := ToContractAddress(id.ToHex()); err == nil {
				back = "ok:" + c11shex(*a)
			}
			return "ok:" + c11hex(id[:]) + " back=" + back
		})
		fmt.Fprintf(g.w, "cid %s fn=toid in=%s res=%s\n", g.id(kind), c11shex(addr), res)
	}
	toaddr := func(s string) {
		res := c11safe(func() string {
			a, err := ToContractAddress(s)
			if err != nil {
				if a != nil {
					return "errnonnil"
				}
				return "err:" + c11errKind(err)
			}
			back := c11safe(func() string {
				id, err := ToContractId(*a)
				if err != nil {
					return "err"
				}
				return "ok:" + c11hex(id[:])
			})
			return "ok:" + c11shex(*a) + " back=" + back
		})
		fmt.Fprintf(g.w, "cid %s fn=toaddr in=%s res=%s\n", g.id("cid-toaddr-"), c11shex(s), res)
	}
	b58enc := func(b []byte) {
		fmt.Fprintf(g.w, "b58 %s fn=enc in=%s out=%s\n", g.id("b58-enc-"), c11hex(b), c11shex(base58.Encode(b)))
	}
	b58dec := func(s string) {
		res := c11safe(func() string { return "ok:" + c11hex(base58.Decode(s)) })
		fmt.Fprintf(g.w, "b58 %s fn=dec in=%s res=%s\n", g.id("b58-dec-"), c11shex(s), res)
	}
	ids := [][]byte{make([]byte, 32), g.bytesN(32), g.bytesN(32)}
	ff := make([]byte, 32)
	for i := range ff {
		ff[i] = 0xff
	}
	ids = append(ids, ff)
	lead := g.bytesN(32)
	lead[0], lead[1] = 0, 0
	ids = append(ids, lead)
	for i := 0; i < n; i++ {
		ids = append(ids, g.bytesN(32))
	}
	for _, id := range ids {
		s := hex.EncodeToString(id)
		toaddr(s)
		if r.Intn(4) == 0 {
			toaddr(strings.ToUpper(s))
		}
		addr := base58.Encode(append([]byte{3}, id...))
		toid("cid-toid-", addr)
		// other prefix bytes, other lengths
		toid("cid-prefix-", base58.Encode(append([]byte{byte(r.Intn(256))}, id...)))
		toid("cid-prefix-", base58.Encode(append([]byte{0}, id...)))
		toid("cid-len-", base58.Encode(append([]byte{3}, id[:31]...)))
		toid("cid-len-", base58.Encode(append([]byte{3, 0}, id...)))
		toid("cid-len-", base58.Encode(id))
		// one-character damage
		a := []byte(addr)
		p := r.Intn(len(a))
		switch r.Intn(4) {
		case 0:
			a[p] = "0OIl +/"[r.Intn(7)]
		case 1:
			a[p] = byte(r.Intn(256))
		case 2:
			a = append(a[:p], a[p+1:]...)
		default:
			a = append(a[:p], append([]byte{b58alphabetVerif[r.Intn(58)]}, a[p:]...)...)
		}
		toid("cid-mut-", string(a))
		toid("cid-mut-", "1"+addr)
		toid("cid-mut-", addr+"1")
	}
	for _, s := range []string{"", "1", "11", "0", "O", "I", "l", " ", "é", "éé", "日本", "\xff", "\x80", "\xc3", "\xc3\x28", "\xc2\xa0", "\xc4\x80", "14PqtYSSbwpUi2RJKUvv9yUwGafd6yHbEcke7ionuiE7w",
		"123456789\xc3\xa9", "12345678\xc3\xa9", "1234567890", "12345678é1", "1234567é901", "ééééééééééé", "zzzzzzzzzzzzzzzzzzzzzzzzzzzzzzzzzzzzzzzzzzzzz", strings.Repeat("1", 33), strings.Repeat("1", 32), strings.Repeat("1", 34)} {
		toid("cid-odd-", s)
		b58dec(s)
	}
	for _, s := range c11oddHex {
		toaddr(s)
	}
	toaddr(strings.Repeat("0", 63))
	toaddr(strings.Repeat("0", 65))
	toaddr(strings.Repeat("0", 62) + "zz")
	toaddr("0x" + strings.Repeat("0", 62))
	for i := 0; i < n; i++ {
		l := r.Intn(41)
		b := g.bytesN(l)
		for z := r.Intn(4); z > 0 && z <= l; z-- {
			b[z-1] = 0
		}
		b58enc(b)
		sl := r.Intn(60)
		s := make([]byte, sl)
		for j := range s {
			s[j] = b58alphabetVerif[r.Intn(58)]
		}
		for z := r.Intn(4); z > 0 && z <= sl; z-- {
			s[z-1] = '1'
		}
		if r.Intn(8) == 0 && sl > 0 {
			s[r.Intn(sl)] = byte(r.Intn(256))
		}
		b58dec(string(s))
	}
	b58enc(nil)
	b58enc([]byte{0})
	b58enc([]byte{0, 0, 0})
	b58enc([]byte{57})
	b58enc([]byte{58})
	b58enc([]byte{255, 255})
}

// small helpers of utils.go: Uint16ToBytes, Uint64ToBytes, maxUint8
func (g *c11gen) helpers(n int) {
	r := g.r
	for _, v := range c11seqs {
		fmt.Fprintf(g.w, "be %s w=8 v=%d out=%s\n", g.id("be-"), v, c11hex(Uint64ToBytes(v)))
		fmt.Fprintf(g.w, "be %s w=2 v=%d out=%s\n", g.id("be-"), uint16(v), c11hex(Uint16ToBytes(uint16(v))))
	}
	for i := 0; i < n; i++ {
		v := r.Uint64()
		fmt.Fprintf(g.w, "be %s w=8 v=%d out=%s\n", g.id("be-"), v, c11hex(Uint64ToBytes(v)))
		fmt.Fprintf(g.w, "be %s w=2 v=%d out=%s\n", g.id("be-"), uint16(v), c11hex(Uint16ToBytes(uint16(v))))
		a, b := uint8(r.Intn(256)), uint8(r.Intn(256))
		if i%8 == 0 {
			b = a
		}
		if i%8 == 1 {
			b = a + 1
		}
		fmt.Fprintf(g.w, "max8 %s a=%d b=%d out=%d\n", g.id("max8-"), a, b, maxUint8(a, b))
	}
}

const b58alphabetVerif = "123456789ABCDEFGHJKLMNPQRSTUVWXYZabcdefghijkmnopqrstuvwxyz"

// ---------------------------------------------------------------- entry point

func TestVerifAlphUtil(t *testing.T) {
	seed, _ := strconv.ParseInt(os.Getenv("VERIF_SEED"), 10, 64)
	if seed == 0 {
		seed = 1
	}
	out := os.Getenv("VERIF_OUT")
	if out == "" {
		out = t.TempDir()
	}
	scale := 1
	if os.Getenv("VERIF_TIER") == "thorough" {
		scale = 100
	}
	f, err := os.Create(filepath.Join(out, "alphutil.cases"))
	if err != nil {
		t.Fatal(err)
	}
	defer f.Close()
	g := &c11gen{r: rand.New(rand.NewSource(seed)), w: bufio.NewWriterSize(f, 1<<20), dist: map[string]int{}}
	g.convSweep()
	g.convRandom(1500 * scale)
	g.msgSweep()
	g.msgJSON()
	g.msgRandom(2500 * scale)
	g.pubDirect(400 * scale)
	g.attest(300 * scale)
	g.hexOps(150 * scale)
	g.cidOps(120 * scale)
	g.helpers(40 * scale)
	if err := g.w.Flush(); err != nil {
		t.Fatal(err)
	}
	t.Logf("alphutil cases: %d %v", g.n, g.dist)
}
