//go:build verif

package guardiand

// Correspondence harness for C12, admin layer: the real nodePrivilegedService.FindMissingMessages over a real
// db.Database - without backfill (`fmm` lines) and with RpcBackfill against fake public-RPC nodes (`bfill` lines: what the
// nodes are scripted to answer per sequence, what arrived on the processor's inbound channel, what was reported back).
// After the PRNG-driven cases two written-out ones: a node answering 5xx / 429 / 4xx for the first / a middle / the last / two /
// every missing sequence of a batch of seven while the others are served or declined, and streams holding a stored VAA that
// vaa.Unmarshal rejects (empty payload, version 2) as highest / lowest / middle sequence.
// Lines go to $VERIF_OUT/dbadm.cases (driver family `db`).

import (
	"bufio"
	"context"
	"crypto/ecdsa"
	"encoding/base64"
	"encoding/hex"
	"fmt"
	"math/rand"
	"net/http"
	"net/http/httptest"
	"os"
	"path/filepath"
	"strconv"
	"strings"
	"sync"
	"testing"
	"time"

	"github.com/alephium/wormhole-fork/node/pkg/common"
	"github.com/alephium/wormhole-fork/node/pkg/db"
	gossipv1 "github.com/alephium/wormhole-fork/node/pkg/proto/gossip/v1"
	nodev1 "github.com/alephium/wormhole-fork/node/pkg/proto/node/v1"
	"github.com/alephium/wormhole-fork/node/pkg/supervisor"
	"github.com/alephium/wormhole-fork/node/pkg/vaa"
	ethcommon "github.com/ethereum/go-ethereum/common"
	"github.com/ethereum/go-ethereum/crypto"
	"go.uber.org/zap"
	"google.golang.org/grpc"
	"google.golang.org/grpc/codes"
	"google.golang.org/grpc/status"
)

func c12hex(b []byte) string {
	if len(b) == 0 {
		return "-"
	}
	return hex.EncodeToString(b)
}

func c12canon(v *vaa.VAA) string {
	sigs := "-"
	if len(v.Signatures) > 0 {
		parts := make([]string, len(v.Signatures))
		for i, s := range v.Signatures {
			parts[i] = fmt.Sprintf("%d:%s", s.Index, hex.EncodeToString(s.Signature[:]))
		}
		sigs = strings.Join(parts, ";")
	}
	return fmt.Sprintf("%d,%d,%s,%d,%d,%d,%d,%s,%d,%d,%s", v.Version, v.GuardianSetIndex, sigs, v.Timestamp.Unix(),
		v.Nonce, uint16(v.EmitterChain), uint16(v.TargetChain), hex.EncodeToString(v.EmitterAddress[:]), v.Sequence,
		v.ConsistencyLevel, c12hex(v.Payload))
}

func c12fmmTag(err error) string {
	st, ok := status.FromError(err)
	if !ok {
		return "nonstatus"
	}
	m := st.Message()
	switch {
	case st.Code() == codes.InvalidArgument && strings.HasPrefix(m, "invalid emitter address encoding: "):
		return "badhex"
	case st.Code() == codes.Internal && strings.HasPrefix(m, "database operation failed: "):
		return "internal"
	case st.Code() == codes.Internal && strings.HasPrefix(m, "failed to backfill VAA: "):
		return "internal"
	}
	return fmt.Sprintf("code%d:%s", st.Code(), strings.ReplaceAll(m, " ", "_"))
}

var c12fmmGroups = [][]uint16{
	{2, 25, 255, 256, 20},
	{1, 10, 11, 13, 17, 10001, 100},
	{4, 42, 420},
	{0, 6, 65, 65535},
}

// c12node is the script both fake public-RPC nodes answer from: path -> what to do. Anything else is a stray request.
type c12node struct {
	mu     sync.Mutex
	script map[string]string // path -> "s:<base64 json body>" | "a404" | "ajson" | "ab64" | "f<status>" (500, 503, 429, 403, ...)
	stray  int
	hits   map[string]int
}

func (n *c12node) ServeHTTP(w http.ResponseWriter, r *http.Request) {
	n.mu.Lock()
	a, ok := n.script[r.URL.Path]
	if !ok {
		n.stray++
	} else {
		n.hits[r.URL.Path]++
	}
	n.mu.Unlock()
	switch {
	case !ok, a == "a404":
		http.NotFound(w, r)
	case a == "ajson":
		w.Write([]byte("{not json"))
	case a == "ab64":
		w.Write([]byte(`{"vaaBytes":"!!!not base64!!!"}`))
	case strings.HasPrefix(a, "f"):
		// any status other than 200 / 404: "f500", "f503", "f429", "f403", ...
		code, err := strconv.Atoi(a[1:])
		if err != nil {
			code = http.StatusInternalServerError
		}
		http.Error(w, "boom", code)
	case strings.HasPrefix(a, "s:"):
		w.Write([]byte(a[2:]))
	}
}

func TestVerifDbAdmin(t *testing.T) {
	seed, _ := strconv.ParseInt(os.Getenv("VERIF_SEED"), 10, 64)
	tier := os.Getenv("VERIF_TIER")
	out := os.Getenv("VERIF_OUT")
	if out == "" {
		t.Skip("VERIF_OUT not set")
	}
	f, err := os.Create(filepath.Join(out, "dbadm.cases"))
	if err != nil {
		t.Fatal(err)
	}
	defer f.Close()
	w := bufio.NewWriterSize(f, 1<<20)
	defer w.Flush()
	r := rand.New(rand.NewSource(seed ^ 0x2545f491))
	ncases, nops := 12, 120
	if tier == "thorough" {
		ncases, nops = 250, 250
	}
	bytesN := func(n int) []byte {
		b := make([]byte, n)
		r.Read(b)
		return b
	}
	var gkeys []*ecdsa.PrivateKey
	for i := 0; i < 4; i++ {
		k, err := ecdsa.GenerateKey(crypto.S256(), r)
		if err != nil {
			t.Fatal(err)
		}
		gkeys = append(gkeys, k)
	}
	_ = ethcommon.Address{}
	sockDir, err := os.MkdirTemp("", "c12adm")
	if err != nil {
		t.Fatal(err)
	}
	defer os.RemoveAll(sockDir)
	node := &c12node{script: map[string]string{}, hits: map[string]int{}}
	srv1, srv2 := httptest.NewServer(node), httptest.NewServer(node)
	defer srv1.Close()
	defer srv2.Close()
	// after the PRNG-driven cases: written-out cases (one on an in-process service value, one on a constructor-built service) in
	// which a backfill node fails (5xx / 429 / 4xx) for the first / a middle / the last / several / every missing sequence of
	// a batch while the others are served or declined normally, and streams that hold a stored VAA vaa.Unmarshal rejects
	const nfixed = 2
	for c := 0; c < ncases+nfixed; c++ {
		cid := fmt.Sprintf("adm%d", c+1)
		d, err := db.Open(t.TempDir())
		if err != nil {
			t.Fatal(err)
		}
		inC := make(chan *gossipv1.SignedVAAWithQuorum, 256)
		s := &nodePrivilegedService{db: d, logger: zap.NewNop(), signedInC: inC}
		// every second case talks to a service built by the production constructor (adminServiceRunnable, run under a
		// supervisor, called over its unix socket like `guardiand admin` does), with a live GuardianSetState holding a
		// 4-guardian set; the others call an in-process service value
		fmmCall := func(ctx context.Context, req *nodev1.FindMissingMessagesRequest) (*nodev1.FindMissingMessagesResponse, error) {
			return s.FindMissingMessages(ctx, req)
		}
		stopSvc := func() {}
		if c%2 == 1 {
			gst := common.NewGuardianSetState(nil)
			gset := &common.GuardianSet{Index: 1}
			for _, k := range gkeys {
				gset.Keys = append(gset.Keys, crypto.PubkeyToAddress(k.PublicKey))
			}
			gst.Set(gset)
			sock := filepath.Join(sockDir, fmt.Sprintf("f%d.sock", c))
			run, err := adminServiceRunnable(zap.NewNop(), sock, make(chan *vaa.VAA, 8), inC, make(chan *gossipv1.ObservationRequest, 8), d, gst,
				vaa.ChainID(1), vaa.Address{4})
			if err != nil {
				t.Fatalf("adminServiceRunnable: %v", err)
			}
			sctx, cancel := context.WithCancel(context.Background())
			supervisor.New(sctx, zap.NewNop(), func(ctx context.Context) error {
				if err := supervisor.Run(ctx, "admin", run); err != nil {
					return err
				}
				supervisor.Signal(ctx, supervisor.SignalHealthy)
				<-ctx.Done()
				return nil
			})
			dctx, dcancel := context.WithTimeout(sctx, 20*time.Second)
			conn, err := grpc.DialContext(dctx, "unix:///"+sock, grpc.WithInsecure(), grpc.WithBlock())
			dcancel()
			if err != nil {
				t.Fatalf("dial admin socket: %v", err)
			}
			client := nodev1.NewNodePrivilegedServiceClient(conn)
			fmmCall = func(ctx context.Context, req *nodev1.FindMissingMessagesRequest) (*nodev1.FindMissingMessagesResponse, error) {
				return client.FindMissingMessages(ctx, req)
			}
			stopSvc = func() { conn.Close(); cancel() }
		}
		fmt.Fprintf(w, "reset %s\n", cid)
		grp := c12fmmGroups[c%len(c12fmmGroups)]
		tcs := []uint16{grp[0]}
		for _, i := range r.Perm(len(grp) - 1)[:1+r.Intn(2)] {
			tcs = append(tcs, grp[1+i])
		}
		grp2 := c12fmmGroups[r.Intn(len(c12fmmGroups))]
		ecs := []uint16{grp2[0], grp2[1+r.Intn(len(grp2)-1)]}
		var a vaa.Address
		copy(a[:], bytesN(32))
		// an address whose last bytes are zero: a short hex string is padded to it by FindMissingMessages
		z := a
		for i := 20; i < 32; i++ {
			z[i] = 0
		}
		addrs := []vaa.Address{a, z}
		maxSeq := 3 + r.Intn(14)

		fmm := func(ec uint32, as string, tc uint32) {
			res := "ok"
			var resp *nodev1.FindMissingMessagesResponse
			func() {
				defer func() {
					if e := recover(); e != nil {
						res = "panic"
					}
				}()
				var err error
				resp, err = fmmCall(context.Background(), &nodev1.FindMissingMessagesRequest{EmitterChain: ec, TargetChain: tc, EmitterAddress: as})
				if err != nil {
					res = c12fmmTag(err)
					if resp != nil {
						res = "errnonnil"
					}
				}
			}()
			line := fmt.Sprintf("fmm %s ec=%d addr=%s tc=%d res=%s", cid, ec, c12hex([]byte(as)), tc, res)
			if res == "ok" {
				o := "-"
				if len(resp.MissingMessages) > 0 {
					o = strings.Join(resp.MissingMessages, ",")
				}
				line += fmt.Sprintf(" out=%s first=%d last=%d", o, resp.FirstSequence, resp.LastSequence)
			}
			fmt.Fprintln(w, line)
		}
		// FindMissingMessages with RpcBackfill: ask without backfill first (that is the list of ids the nodes will be asked for),
		// script an answer per id, call, then collect what reached the inbound channel
		// plan (may be nil): what the nodes answer for the i-th of n missing ids - "" = PRNG's choice, "s" = the VAA,
		// "a404" / "ajson" = declined, "f<status>" = that HTTP status
		bfillP := func(ec uint32, ad vaa.Address, tc uint32, plan func(i, n int) string) {
			as := hex.EncodeToString(ad[:])
			pre, err := fmmCall(context.Background(), &nodev1.FindMissingMessagesRequest{EmitterChain: ec, TargetChain: tc, EmitterAddress: as})
			if err != nil {
				return
			}
			node.mu.Lock()
			node.script, node.hits, node.stray = map[string]string{}, map[string]int{}, 0
			var parts []string
			failedOne := false
			for idx, id := range pre.MissingMessages {
				f := strings.Split(id, "/")
				seq := f[3]
				path := fmt.Sprintf("/v1/signed_vaa/%d/%s/%d/%s", uint16(ec), as, uint16(tc), seq)
				k := r.Intn(12)
				forced := ""
				if plan != nil {
					forced = plan(idx, len(pre.MissingMessages))
				}
				switch {
				case forced == "s" || (forced == "" && k < 5):
					// a VAA for exactly this id (unsigned bytes are fine here: verification is the processor's business)
					sq, _ := strconv.ParseUint(seq, 10, 64)
					v := &vaa.VAA{Version: 1, EmitterChain: vaa.ChainID(ec), EmitterAddress: ad, TargetChain: vaa.ChainID(tc), Sequence: sq, Payload: bytesN(1 + r.Intn(30))}
					v.GuardianSetIndex = 1
					if r.Intn(4) == 0 {
						sg := &vaa.Signature{Index: 0}
						copy(sg.Signature[:], bytesN(65))
						v.Signatures = append(v.Signatures, sg)
					} else {
						// really signed by 1..4 of the 4 guardians the constructor-built service knows: fewer than quorum (3) is
						// what a careless backfill path would let through
						dg := v.SigningMsg().Bytes()
						for gi := 0; gi < 1+r.Intn(len(gkeys)); gi++ {
							sb, _ := crypto.Sign(dg, gkeys[gi])
							sg := &vaa.Signature{Index: uint8(gi)}
							copy(sg.Signature[:], sb)
							v.Signatures = append(v.Signatures, sg)
						}
					}
					b, _ := v.Marshal()
					node.script[path] = "s:" + fmt.Sprintf(`{"vaaBytes":"%s"}`, base64.StdEncoding.EncodeToString(b))
					parts = append(parts, seq+":s:"+c12hex(b))
				case forced == "" && k == 5:
					// served, but arbitrary bytes (another message, garbage): still only forwarded
					b := bytesN(r.Intn(80))
					node.script[path] = "s:" + fmt.Sprintf(`{"vaaBytes":"%s"}`, base64.StdEncoding.EncodeToString(b))
					parts = append(parts, seq+":s:"+c12hex(b))
				case forced == "" && k == 6:
					node.script[path] = `s:{"somethingElse":1}` // no vaaBytes field: decodes to an empty byte string
					parts = append(parts, seq+":s:-")
				case forced == "ajson" || (forced == "" && k == 7):
					node.script[path] = "ajson"
					parts = append(parts, seq+":a")
				case forced == "" && k == 8:
					node.script[path] = "ab64"
					parts = append(parts, seq+":a")
				case strings.HasPrefix(forced, "f"):
					node.script[path] = forced
					parts = append(parts, seq+":f")
				case forced == "" && k == 9 && !failedOne && r.Intn(3) == 0:
					failedOne = true
					node.script[path] = [][]string{{"f500", "f503", "f429"}, {"f403", "f502", "f400"}}[r.Intn(2)][idx%3]
					parts = append(parts, seq+":f")
				default:
					node.script[path] = "a404"
					parts = append(parts, seq+":a")
				}
			}
			node.mu.Unlock()
			nodes := []string{srv1.URL, srv2.URL}
			switch r.Intn(4) {
			case 0:
				nodes = nodes[:1]
			case 1:
				nodes = append([]string{"http://127.0.0.1:1"}, nodes...) // an unreachable node in the list
			}
			res := "ok"
			var resp *nodev1.FindMissingMessagesResponse
			func() {
				defer func() {
					if e := recover(); e != nil {
						res = "panic"
					}
				}()
				var err error
				resp, err = fmmCall(context.Background(), &nodev1.FindMissingMessagesRequest{EmitterChain: ec, TargetChain: tc, EmitterAddress: as, RpcBackfill: true, BackfillNodes: nodes})
				if err != nil {
					res = c12fmmTag(err)
				}
			}()
			var fwd []string
		drain:
			for {
				select {
				case m := <-inC:
					fwd = append(fwd, c12hex(m.Vaa))
				default:
					break drain
				}
			}
			fw := "none"
			if len(fwd) > 0 {
				fw = strings.Join(fwd, ";")
			}
			sc := "-"
			if len(parts) > 0 {
				sc = strings.Join(parts, ",")
			}
			node.mu.Lock()
			stray := node.stray
			node.mu.Unlock()
			line := fmt.Sprintf("bfill %s ec=%d addr=%s tc=%d script=%s res=%s", cid, ec, c12hex([]byte(as)), tc, sc, res)
			if res == "ok" {
				o := "-"
				if len(resp.MissingMessages) > 0 {
					o = strings.Join(resp.MissingMessages, ",")
				}
				line += fmt.Sprintf(" out=%s first=%d last=%d", o, resp.FirstSequence, resp.LastSequence)
			}
			line += fmt.Sprintf(" fwd=%s stray=%d", fw, stray)
			fmt.Fprintln(w, line)
			// the admin service itself must not have written the store: the plain report is what it was before
			fmm(ec, as, tc)
		}
		bfill := func(ec uint32, ad vaa.Address, tc uint32) { bfillP(ec, ad, tc, nil) }
		if c >= ncases {
			mk := func(ec uint16, ad vaa.Address, tc uint16, seq uint64, version uint8, plen int) {
				v := &vaa.VAA{Version: version, GuardianSetIndex: 1, EmitterChain: vaa.ChainID(ec), EmitterAddress: ad, TargetChain: vaa.ChainID(tc), Sequence: seq,
					Timestamp: time.Unix(int64(r.Uint32()), 0), Nonce: r.Uint32(), Payload: bytesN(plen)}
				sg := &vaa.Signature{Index: 0}
				copy(sg.Signature[:], bytesN(65))
				v.Signatures = append(v.Signatures, sg)
				res := "ok"
				if err := d.StoreSignedVAA(v); err != nil {
					res = "err"
				}
				val, _ := v.Marshal()
				fmt.Fprintf(w, "put %s v=%s res=%s key=%s val=%s\n", cid, c12canon(v), res, string(db.VaaIDFromVAA(v).Bytes()), c12hex(val))
			}
			// (1) a stream with seven missing sequences (0,2,3,5,6,7,8) next to a look-alike stream; a node failure at every position
			for _, sq := range []uint64{1, 4, 9} {
				mk(ecs[0], a, tcs[0], sq, 1, 1+r.Intn(20))
			}
			for _, sq := range []uint64{0, 2} {
				mk(ecs[0], a, tcs[1], sq, 1, 1+r.Intn(20))
			}
			fmm(uint32(ecs[0]), hex.EncodeToString(a[:]), uint32(tcs[0]))
			others := func(i int) string { return []string{"s", "a404", "s", "ajson"}[i%4] }
			for _, plan := range []func(i, n int) string{
				func(i, n int) string { // the first one
					if i == 0 {
						return "f500"
					}
					return others(i)
				},
				func(i, n int) string { // one in the middle
					if i == n/2 {
						return "f503"
					}
					return others(i)
				},
				func(i, n int) string { // the last one
					if i == n-1 {
						return "f429"
					}
					return others(i)
				},
				func(i, n int) string { // two of them
					if i == 1 {
						return "f403"
					}
					if i == n-2 {
						return "f502"
					}
					return others(i + 1)
				},
				func(i, n int) string { return []string{"f500", "f503", "f429", "f403", "f400", "f401", "f418"}[i%7] }, // every one
				func(i, n int) string { // everything served but one
					if i == 1+r.Intn(2) {
						return "f400"
					}
					return "s"
				},
				func(i, n int) string { // everything declined but one failure
					if i == n-2 {
						return "f500"
					}
					return "a404"
				},
				func(i, n int) string { return others(i) }, // no failure at all
			} {
				bfillP(uint32(ecs[0]), a, uint32(tcs[0]), plan)
			}
			// (2) streams holding a stored VAA that vaa.Unmarshal rejects (empty payload: Marshal writes what Unmarshal refuses; a
			// version other than 1) as their highest / lowest / a middle sequence: failing the call is fine, a wrong report is not
			mk(ecs[1], a, tcs[0], 0, 1, 5)
			mk(ecs[1], a, tcs[0], 2, 1, 5)
			mk(ecs[1], a, tcs[0], 5, 1, 0) // highest: empty payload
			mk(ecs[1], z, tcs[0], 0, 1, 0) // lowest: empty payload
			mk(ecs[1], z, tcs[0], 3, 1, 7)
			mk(ecs[1], a, tcs[1], 1, 1, 3)
			mk(ecs[1], a, tcs[1], 2, 1, 0) // middle: empty payload
			mk(ecs[1], a, tcs[1], 4, 1, 3)
			mk(ecs[1], z, tcs[1], 0, 1, 9)
			mk(ecs[1], z, tcs[1], 3, 2, 9) // highest: version 2
			for _, ad := range addrs {
				for _, tc := range tcs[:2] {
					fmm(uint32(ecs[1]), hex.EncodeToString(ad[:]), uint32(tc))
					bfillP(uint32(ecs[1]), ad, uint32(tc), func(i, n int) string { return others(i) })
				}
			}
			// overwritten by a VAA that decodes: the stream is an ordinary one again
			mk(ecs[1], a, tcs[0], 5, 1, 4)
			fmm(uint32(ecs[1]), hex.EncodeToString(a[:]), uint32(tcs[0]))
			bfillP(uint32(ecs[1]), a, uint32(tcs[0]), func(i, n int) string {
				if i == n-1 {
					return "f503"
				}
				return others(i)
			})
			stopSvc()
			d.Close()
			continue
		}
		query := func() {
			ad := addrs[r.Intn(len(addrs))]
			h := hex.EncodeToString(ad[:])
			switch r.Intn(12) {
			case 0:
				h = strings.ToUpper(h)
			case 1:
				h = h[:40] // 20 bytes: right-padded with zeros by copy()
			case 2:
				h = h + "abcd" // 34 bytes: cut to 32
			case 3:
				h = h[:63]
			case 4:
				h = "zz" + h[2:]
			case 5:
				h = ""
			}
			ec := uint32(ecs[r.Intn(len(ecs))])
			tc := uint32(tcs[r.Intn(len(tcs))])
			switch r.Intn(10) {
			case 0:
				ec += 65536
			case 1:
				tc += 65536 * uint32(1+r.Intn(3))
			}
			fmm(ec, h, tc)
		}
		query()
		for i := 0; i < nops; i++ {
			if r.Intn(100) < 45 {
				v := &vaa.VAA{Version: 1, GuardianSetIndex: uint32(r.Intn(4)),
					EmitterChain: vaa.ChainID(ecs[r.Intn(len(ecs))]), EmitterAddress: addrs[r.Intn(len(addrs))],
					TargetChain: vaa.ChainID(tcs[r.Intn(len(tcs))]), Sequence: uint64(r.Intn(maxSeq + 1))}
				for j := 0; j < 1+r.Intn(2); j++ {
					sg := &vaa.Signature{Index: uint8(j)}
					copy(sg.Signature[:], bytesN(65))
					v.Signatures = append(v.Signatures, sg)
				}
				v.Timestamp = time.Unix(int64(r.Uint32()), 0)
				v.Nonce = r.Uint32()
				v.Payload = bytesN(1 + r.Intn(20))
				res := "ok"
				if err := d.StoreSignedVAA(v); err != nil {
					res = "err"
				}
				val, _ := v.Marshal()
				fmt.Fprintf(w, "put %s v=%s res=%s key=%s val=%s\n", cid, c12canon(v), res, string(db.VaaIDFromVAA(v).Bytes()), c12hex(val))
			} else if r.Intn(5) == 0 {
				bfill(uint32(ecs[r.Intn(len(ecs))]), addrs[r.Intn(len(addrs))], uint32(tcs[r.Intn(len(tcs))]))
			} else {
				query()
			}
		}
		for _, ec := range ecs {
			for _, ad := range addrs {
				bfill(uint32(ec), ad, uint32(tcs[r.Intn(len(tcs))]))
			}
		}
		for _, ec := range ecs {
			for _, ad := range addrs {
				for _, tc := range tcs {
					fmm(uint32(ec), hex.EncodeToString(ad[:]), uint32(tc))
				}
			}
		}
		stopSvc()
		d.Close()
	}
}
