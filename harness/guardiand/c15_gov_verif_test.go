//go:build verif

package guardiand

// Correspondence harness for C15 (injected into package guardiand by `go test -overlay`).
// Every generated InjectGovernanceVAARequest is passed through protobuf Marshal/Unmarshal (so it is a request an
// operator can really submit) and then through the REAL (*nodePrivilegedService).InjectGovernanceVAA, twice: on a
// fresh service and on a second service instance that has already served other requests.  One case per line goes to
// $VERIF_OUT/gov.cases; the Lean driver (family `gov`) replays the model on the same request, compares the full
// observable result (status code, message, every VAA pushed to the injection channel, digests) and evaluates the
// C15 Spec (parser-side decoding at the offsets extracted from the Ralph contracts) on the implementation's VAAs.
// What a call handed to the injection channel is read until quiescence (c15collect): an accepted request owes one VAA per
// digest it returned, and every goroutine the handler left behind must have ended before the channel is emptied.

import (
	"bufio"
	"context"
	"encoding/hex"
	"fmt"
	"math/rand"
	"os"
	"path/filepath"
	"reflect"
	"runtime"
	"strconv"
	"strings"
	"testing"
	"time"
	"unsafe"

	ethcommon "github.com/ethereum/go-ethereum/common"
	ethcrypto "github.com/ethereum/go-ethereum/crypto"
	"go.uber.org/zap"
	"google.golang.org/grpc"
	"google.golang.org/grpc/status"
	"google.golang.org/protobuf/proto"

	"github.com/alephium/wormhole-fork/node/pkg/common"
	"github.com/alephium/wormhole-fork/node/pkg/db"
	gossipv1 "github.com/alephium/wormhole-fork/node/pkg/proto/gossip/v1"
	nodev1 "github.com/alephium/wormhole-fork/node/pkg/proto/node/v1"
	"github.com/alephium/wormhole-fork/node/pkg/supervisor"
	"github.com/alephium/wormhole-fork/node/pkg/vaa"
)

func c15hex(b []byte) string {
	if len(b) == 0 {
		return "-"
	}
	return hex.EncodeToString(b)
}

func c15str(s string) string { return c15hex([]byte(s)) }

func c15canon(v *vaa.VAA) string {
	sigs := "-"
	if len(v.Signatures) > 0 {
		parts := make([]string, len(v.Signatures))
		for i, s := range v.Signatures {
			parts[i] = fmt.Sprintf("%d:%s", s.Index, hex.EncodeToString(s.Signature[:]))
		}
		sigs = strings.Join(parts, ";")
	}
	return fmt.Sprintf("%d,%d,%s,%d,%d,%d,%d,%s,%d,%d,%s", v.Version, v.GuardianSetIndex, sigs, v.Timestamp.Unix(),
		v.Nonce, uint16(v.EmitterChain), uint16(v.TargetChain), c15hex(v.EmitterAddress[:]), v.Sequence,
		v.ConsistencyLevel, c15hex(v.Payload))
}

// c15msg renders one GovernanceMessage: seq:nonce:tc:kind:args
func c15msg(m *nodev1.GovernanceMessage) string {
	var k string
	switch p := m.Payload.(type) {
	case nil:
		k = "none:-"
	case *nodev1.GovernanceMessage_UpdateMessageFee:
		k = "fee:" + c15str(p.UpdateMessageFee.NewMessageFee)
	case *nodev1.GovernanceMessage_TransferFee:
		k = "tf:" + c15str(p.TransferFee.Amount) + "," + c15str(p.TransferFee.Recipient)
	case *nodev1.GovernanceMessage_GuardianSet:
		gs := make([]string, len(p.GuardianSet.Guardians))
		for i, g := range p.GuardianSet.Guardians {
			gs[i] = c15str(g.Pubkey) + "/" + c15str(g.Name)
		}
		if len(gs) == 0 {
			k = "gs:-"
		} else {
			k = "gs:" + strings.Join(gs, ",")
		}
	case *nodev1.GovernanceMessage_ContractUpgrade:
		k = "cu:" + c15str(p.ContractUpgrade.Payload)
	case *nodev1.GovernanceMessage_BridgeRegisterChain:
		k = fmt.Sprintf("rc:%s,%d,%s", c15str(p.BridgeRegisterChain.Module), p.BridgeRegisterChain.ChainId, c15str(p.BridgeRegisterChain.EmitterAddress))
	case *nodev1.GovernanceMessage_BridgeContractUpgrade:
		k = "bu:" + c15str(p.BridgeContractUpgrade.Module) + "," + c15str(p.BridgeContractUpgrade.Payload)
	case *nodev1.GovernanceMessage_DestroyUnexecutedSequenceContracts:
		d := p.DestroyUnexecutedSequenceContracts
		var sb strings.Builder
		for i, s := range d.Sequences {
			if i > 0 {
				sb.WriteByte('.')
			}
			sb.WriteString(strconv.FormatUint(s, 10))
		}
		ss := sb.String()
		if ss == "" {
			ss = "-"
		}
		k = fmt.Sprintf("ds:%d,%s", d.EmitterChain, ss)
	case *nodev1.GovernanceMessage_UpdateMinimalConsistencyLevel:
		k = fmt.Sprintf("cl:%d", p.UpdateMinimalConsistencyLevel.NewConsistencyLevel)
	case *nodev1.GovernanceMessage_UpdateRefundAddress:
		k = "ra:" + c15str(p.UpdateRefundAddress.NewRefundAddress)
	default:
		panic("c15 harness: unknown payload kind")
	}
	return fmt.Sprintf("%d:%d:%d:%s", m.Sequence, m.Nonce, m.TargetChainId, k)
}

type c15result struct {
	res  string
	code uint32
	msg  string
	sent []*vaa.VAA
	nils int // nil pointers found on the injection channel (the processor dereferences what it reads there)
	digs [][]byte
}

func c15drain(ch chan *vaa.VAA, skip int) (out []*vaa.VAA) {
	for {
		select {
		case v := <-ch:
			if skip > 0 {
				skip--
				continue
			}
			out = append(out, v)
		default:
			return
		}
	}
}

// c15handlerFrame: how a goroutine that is still busy on behalf of the handler shows in a stack dump - a frame of the handler
// or of a closure of it, or "created by ...InjectGovernanceVAA in goroutine N".
const c15handlerFrame = "nodePrivilegedService).InjectGovernanceVAA"

// c15gaveUp: a hand-over that was owed never arrived / a goroutine of the handler never ended within the watchdog; from then
// on nothing waits any more (the missing VAAs are what the Spec reports).
var c15gaveUp bool

// c15busy: is any goroutine other than the calling one still running code of (or started by) the handler?
func c15busy() bool {
	buf := make([]byte, 1<<20)
	for {
		n := runtime.Stack(buf, true)
		if n < len(buf) {
			buf = buf[:n]
			break
		}
		buf = make([]byte, 2*len(buf))
	}
	blocks := strings.Split(string(buf), "\n\n")
	for _, b := range blocks[1:] { // the first block is the calling goroutine
		if strings.Contains(b, c15handlerFrame) {
			return true
		}
	}
	return false
}

// c15collect gathers what the handler handed to the injection channel, after the `prefill` VAAs that were already waiting
// there - until QUIESCENCE, not just what is there when the handler returns: `owed` VAAs are awaited (an accepted request owes one
// per digest it returned; -1 = not known), then every goroutine the handler may have left behind (more goroutines than before
// the call: `base`) must have ended, then the channel is emptied.  Barriers only; the one watchdog (10 s) fires once per run.
func c15collect(ch chan *vaa.VAA, prefill, owed, base int) (out []*vaa.VAA, nils int) {
	skip := prefill
	take := func(v *vaa.VAA) {
		switch {
		case skip > 0:
			skip--
		case v == nil:
			nils++
		default:
			out = append(out, v)
		}
	}
	drain := func() {
		for {
			select {
			case v := <-ch:
				take(v)
			default:
				return
			}
		}
	}
	drain()
	if !c15gaveUp && len(out)+nils < owed {
		wd := time.After(10 * time.Second)
		for len(out)+nils < owed && !c15gaveUp {
			select {
			case v := <-ch:
				take(v)
			case <-wd:
				c15gaveUp = true
			}
		}
	}
	if !c15gaveUp && runtime.NumGoroutine() > base {
		t0 := time.Now()
		for c15busy() {
			if time.Since(t0) > 10*time.Second {
				c15gaveUp = true
				break
			}
			runtime.Gosched()
			time.Sleep(20 * time.Microsecond)
		}
	}
	drain()
	return
}

// c15call runs the real handler in-process (a panic is recovered and reported); everything it handed to the injection
// channel - after the `prefill` VAAs that were already waiting there - is collected (c15collect).
func c15call(s *nodePrivilegedService, ch chan *vaa.VAA, prefill int, req *nodev1.InjectGovernanceVAARequest) (r c15result) {
	base := runtime.NumGoroutine()
	owed := -1
	func() {
		defer func() {
			if e := recover(); e != nil {
				r.res = "panic"
				r.msg = fmt.Sprint(e)
			}
		}()
		resp, err := s.InjectGovernanceVAA(context.Background(), req)
		if err != nil {
			st := status.Convert(err)
			r.res, r.code, r.msg = "err", uint32(st.Code()), st.Message()
			if resp != nil {
				r.res = "errnonnil"
			}
			return
		}
		r.res = "ok"
		r.digs = resp.Digests
		owed = len(resp.Digests)
	}()
	r.sent, r.nils = c15collect(ch, prefill, owed, base)
	return
}

func (r c15result) fingerprint() string {
	var sb strings.Builder
	fmt.Fprintf(&sb, "%s|%d|%s|%d|", r.res, r.code, r.msg, r.nils)
	for _, v := range r.sent {
		sb.WriteString(c15canon(v))
		sb.WriteByte('|')
	}
	for _, d := range r.digs {
		sb.WriteString(hex.EncodeToString(d))
		sb.WriteByte('|')
	}
	return hex.EncodeToString(ethcrypto.Keccak256([]byte(sb.String())))
}

// ---- service instances with different ambient node state

// c15gstMode: what the node's guardian set state looks like when the request arrives
const (
	c15gstNil   = iota // no GuardianSetState at all
	c15gstEmpty        // state present, no set known yet
	c15gstZero         // active set has index 0
	c15gstEqual        // active set index == the request's current_set_index
	c15gstHigh         // active set index > the request's current_set_index
)

// c15node is one guardian node's admin service. Either built by the production constructor adminServiceRunnable, run
// under a supervisor and called over its unix socket like `guardiand admin` does (client != nil), or an in-process
// service value (direct != nil) whose ambient-state fields are filled by type.
type c15node struct {
	label   string
	mode    int
	gst     *common.GuardianSetState
	ch      chan *vaa.VAA
	prefill int
	direct  *nodePrivilegedService
	client  nodev1.NodePrivilegedServiceClient
	conn    *grpc.ClientConn
	cancel  context.CancelFunc
}

func c15marker(i int) *vaa.VAA {
	return &vaa.VAA{Version: 1, Sequence: uint64(1000 + i), Payload: []byte{0xee}}
}

func (n *c15node) prepare(req *nodev1.InjectGovernanceVAARequest) {
	if n.gst != nil {
		switch n.mode {
		case c15gstZero:
			n.gst.Set(&common.GuardianSet{Index: 0})
		case c15gstEqual:
			n.gst.Set(&common.GuardianSet{Index: req.CurrentSetIndex})
		case c15gstHigh:
			idx := req.CurrentSetIndex
			if idx < 1<<32-1 {
				idx += 1 + uint32(uint64(idx)*7%5)
				if idx < req.CurrentSetIndex { // wrapped
					idx = 1<<32 - 1
				}
			}
			n.gst.Set(&common.GuardianSet{Index: idx, Keys: []ethcommon.Address{{1}, {2}}})
		}
	}
	c15drain(n.ch, 0)
	for i := 0; i < n.prefill; i++ {
		n.ch <- c15marker(i)
	}
}

func (n *c15node) call(req *nodev1.InjectGovernanceVAARequest) (r c15result) {
	n.prepare(req)
	if n.direct != nil {
		return c15call(n.direct, n.ch, n.prefill, req)
	}
	ctx, cancel := context.WithTimeout(context.Background(), 60*time.Second)
	defer cancel()
	base := runtime.NumGoroutine()
	resp, err := n.client.InjectGovernanceVAA(ctx, req)
	if err != nil {
		st := status.Convert(err)
		r.res, r.code, r.msg = "err", uint32(st.Code()), st.Message()
		r.sent, r.nils = c15collect(n.ch, n.prefill, -1, base)
		return
	}
	r.res = "ok"
	r.digs = resp.Digests
	r.sent, r.nils = c15collect(n.ch, n.prefill, len(resp.Digests), base)
	return
}

func (n *c15node) stop() {
	if n.conn != nil {
		n.conn.Close()
	}
	if n.cancel != nil {
		n.cancel()
	}
}

// c15fillState sets, by TYPE, every field of the service value that can carry ambient node state the known-field
// literal does not mention (so the harness keeps compiling, and keeps exercising them, when such a field is added).
func c15fillState(s *nodePrivilegedService, gst *common.GuardianSetState, d *db.Database) {
	v := reflect.ValueOf(s).Elem()
	for i := 0; i < v.NumField(); i++ {
		f := v.Field(i)
		var val interface{}
		switch f.Type() {
		case reflect.TypeOf(gst):
			val = gst
		case reflect.TypeOf(d):
			val = d
		default:
			continue
		}
		reflect.NewAt(f.Type(), unsafe.Pointer(f.UnsafeAddr())).Elem().Set(reflect.ValueOf(val))
	}
}

type c15gen struct {
	r    *rand.Rand
	w    *bufio.Writer
	t    *testing.T
	n    int
	dist map[string]int
	// several service instances (several operators' nodes) with the same governance configuration
	cfgChain vaa.ChainID
	cfgAddr  vaa.Address
	s1       *nodePrivilegedService // the reference instance: known fields only, no ambient state
	ch1      chan *vaa.VAA
	nodes    []*c15node
	prev     []byte // an earlier request (wire form), replayed on the other instances only
	dir      string
	dbs      []*db.Database // empty / non-empty stores
	sockN    int
	ctorEach int // use the constructor-built instances on every k-th case
}

func (g *c15gen) openDBs() {
	for i := 0; i < 2; i++ {
		d, err := db.Open(filepath.Join(g.dir, fmt.Sprintf("db%d", i)))
		if err != nil {
			g.t.Fatalf("c15 harness: db.Open: %v", err)
		}
		g.dbs = append(g.dbs, d)
	}
	for i := 0; i < 3; i++ {
		v := &vaa.VAA{Version: 1, GuardianSetIndex: 9, Timestamp: time.Unix(1700000000, 0), Sequence: uint64(i), EmitterChain: 2, TargetChain: 255, Payload: []byte{1, 2, 3},
			Signatures: []*vaa.Signature{{Index: 0}}}
		if err := g.dbs[1].StoreSignedVAA(v); err != nil {
			g.t.Fatalf("c15 harness: StoreSignedVAA: %v", err)
		}
	}
}

// ctorNode builds a node through the production path: adminServiceRunnable -> supervisor -> gRPC over the unix socket.
func (g *c15gen) ctorNode(label string, mode int, d *db.Database, prefill int) *c15node {
	n := &c15node{label: label, mode: mode, ch: make(chan *vaa.VAA, 96), prefill: prefill}
	if mode != c15gstNil {
		n.gst = common.NewGuardianSetState(nil)
	}
	g.sockN++
	sock := filepath.Join(g.dir, fmt.Sprintf("a%d.sock", g.sockN))
	run, err := adminServiceRunnable(zap.NewNop(), sock, n.ch, make(chan *gossipv1.SignedVAAWithQuorum, 8),
		make(chan *gossipv1.ObservationRequest, 8), d, n.gst, g.cfgChain, g.cfgAddr)
	if err != nil {
		g.t.Fatalf("c15 harness: adminServiceRunnable: %v", err)
	}
	ctx, cancel := context.WithCancel(context.Background())
	n.cancel = cancel
	supervisor.New(ctx, zap.NewNop(), func(ctx context.Context) error {
		if err := supervisor.Run(ctx, "admin", run); err != nil {
			return err
		}
		supervisor.Signal(ctx, supervisor.SignalHealthy)
		<-ctx.Done()
		return nil
	})
	dctx, dcancel := context.WithTimeout(ctx, 20*time.Second)
	defer dcancel()
	conn, err := grpc.DialContext(dctx, "unix:///"+sock, grpc.WithInsecure(), grpc.WithBlock(),
		grpc.WithDefaultCallOptions(grpc.MaxCallRecvMsgSize(64<<20)))
	if err != nil {
		g.t.Fatalf("c15 harness: dial admin socket: %v", err)
	}
	n.conn = conn
	n.client = nodev1.NewNodePrivilegedServiceClient(conn)
	return n
}

func (g *c15gen) directNode(label string, mode int, d *db.Database, prefill int) *c15node {
	n := &c15node{label: label, mode: mode, ch: make(chan *vaa.VAA, 96), prefill: prefill}
	if mode != c15gstNil {
		n.gst = common.NewGuardianSetState(nil)
	}
	n.direct = &nodePrivilegedService{injectC: n.ch, logger: zap.NewNop(), governanceChainId: g.cfgChain, governanceEmitterAddress: g.cfgAddr}
	c15fillState(n.direct, n.gst, d)
	return n
}

// setup builds the instances for the configuration in g.cfgChain / g.cfgAddr.
func (g *c15gen) setup() {
	for _, n := range g.nodes {
		n.stop()
	}
	g.ch1 = make(chan *vaa.VAA, 96)
	g.s1 = &nodePrivilegedService{injectC: g.ch1, logger: zap.NewNop(), governanceChainId: g.cfgChain, governanceEmitterAddress: g.cfgAddr}
	g.nodes = []*c15node{
		// in-process (a panic of the handler is recoverable here), ambient state filled by type
		g.directNode("direct-gst-high-db-full", c15gstHigh, g.dbs[1], 3),
		g.directNode("direct-gst-equal", c15gstEqual, g.dbs[0], 0),
		g.directNode("direct-gst-empty", c15gstEmpty, nil, 1),
		// production constructor + supervisor + unix-socket gRPC
		g.ctorNode("ctor-gst-nil", c15gstNil, nil, 0),
		g.ctorNode("ctor-gst-empty", c15gstEmpty, g.dbs[0], 1),
		g.ctorNode("ctor-gst-zero", c15gstZero, g.dbs[1], 2),
		g.ctorNode("ctor-gst-equal", c15gstEqual, g.dbs[0], 5),
		g.ctorNode("ctor-gst-high", c15gstHigh, g.dbs[1], 0),
	}
}

func (g *c15gen) newServices() {
	g.cfgChain = vaa.ChainID([]uint16{0, 1, 2, 255, 256, 65535, uint16(g.r.Intn(65536))}[g.r.Intn(7)])
	g.r.Read(g.cfgAddr[:])
	if g.r.Intn(4) == 0 {
		g.cfgAddr = vaa.Address{}
		g.cfgAddr[31] = 4
	}
	g.setup()
}

func c15join(xs []string, sep string) string {
	if len(xs) == 0 {
		return "-"
	}
	return strings.Join(xs, sep)
}

func c15canons(vs []*vaa.VAA) string {
	xs := make([]string, len(vs))
	for i, v := range vs {
		xs[i] = c15canon(v)
	}
	return c15join(xs, "|")
}

func (g *c15gen) emit(kind string, req0 *nodev1.InjectGovernanceVAARequest) {
	// what the wire delivers
	raw, err := proto.Marshal(req0)
	if err != nil {
		g.t.Fatalf("c15 harness generated a request protobuf cannot carry (%s): %v", kind, err)
	}
	fresh := func() *nodev1.InjectGovernanceVAARequest {
		r := &nodev1.InjectGovernanceVAARequest{}
		if err := proto.Unmarshal(raw, r); err != nil {
			g.t.Fatalf("c15 harness: unmarshal: %v", err)
		}
		return r
	}
	pristine := fresh() // the handler may write to the request it is given; this copy is what gets recorded
	if len(pristine.Messages) > 64 {
		g.t.Fatalf("c15 harness: too many messages")
	}
	g.n++
	g.dist[kind]++
	id := fmt.Sprintf("%s%d", kind, g.n)
	r1 := c15call(g.s1, g.ch1, 0, fresh())

	// the other operators' nodes: different guardian-set state, stores, channel fill levels and histories
	fp1 := r1.fingerprint()
	ps := []string{"ref:" + fp1}
	alt := ""
	panicked := r1.res == "panic"
	for _, n := range g.nodes {
		if n.client != nil && (panicked || (g.ctorEach > 1 && g.n%g.ctorEach != 0)) {
			continue // a handler panic behind the socket would take the whole process down: already reported in-process
		}
		if g.prev != nil && g.n%3 == 0 && n.direct != nil {
			other := &nodev1.InjectGovernanceVAARequest{}
			if err := proto.Unmarshal(g.prev, other); err == nil {
				n.call(other)
			}
		}
		r := n.call(fresh())
		if r.res == "panic" {
			panicked = true
		}
		fp := r.fingerprint()
		ps = append(ps, n.label+":"+fp)
		if fp != fp1 && alt == "" {
			digs := make([]string, len(r.digs))
			for i, d := range r.digs {
				digs[i] = c15hex(d)
			}
			alt = fmt.Sprintf(" alt=%s altres=%s altcode=%d altmsg=%s altsent=%s altdig=%s altnil=%d", n.label, r.res, r.code, c15str(r.msg), c15canons(r.sent), c15join(digs, ","), r.nils)
		}
	}
	if len(raw) < 4096 {
		g.prev = raw
	}

	msgs := make([]string, len(pristine.Messages))
	for i, m := range pristine.Messages {
		msgs[i] = c15msg(m)
	}
	kk := make([]string, len(r1.sent))
	for i, v := range r1.sent {
		wire, err := v.Marshal()
		if err != nil {
			g.t.Fatalf("c15 harness: Marshal: %v", err)
		}
		kk[i] = hex.EncodeToString(ethcrypto.Keccak256(ethcrypto.Keccak256(wire[6:])))
	}
	digs := make([]string, len(r1.digs))
	for i, d := range r1.digs {
		digs[i] = c15hex(d)
	}
	fmt.Fprintf(g.w, "inj %s cc=%d ce=%s gsi=%d ts=%d msgs=%s res=%s code=%d msg=%s sent=%s nil=%d dig=%s kk=%s ps=%s%s\n",
		id, uint16(g.cfgChain), c15hex(g.cfgAddr[:]), pristine.CurrentSetIndex, pristine.Timestamp, c15join(msgs, ";"),
		r1.res, r1.code, c15str(r1.msg), c15canons(r1.sent), r1.nils, c15join(digs, ","), c15join(kk, ","), strings.Join(ps, ","), alt)
}

var c15b32 = []uint32{0, 1, 2, 255, 256, 65535, 65536, 1<<31 - 1, 1 << 31, 1<<32 - 2, 1<<32 - 1}
var c15b64 = []uint64{0, 1, 255, 256, 65535, 65536, 1<<32 - 1, 1 << 32, 1<<63 - 1, 1 << 63, 1<<64 - 2, 1<<64 - 1}
var c15chains = []uint32{0, 1, 2, 255, 256, 257, 65534, 65535, 65536, 65537, 65538, 131071, 1 << 24, 1<<32 - 1}

func (g *c15gen) u32() uint32 {
	if g.r.Intn(2) == 0 {
		return c15b32[g.r.Intn(len(c15b32))]
	}
	return g.r.Uint32()
}

func (g *c15gen) u64() uint64 {
	if g.r.Intn(2) == 0 {
		return c15b64[g.r.Intn(len(c15b64))]
	}
	return g.r.Uint64()
}

// chain id: mostly in range, sometimes just beyond / far beyond the 16-bit wire range
func (g *c15gen) chain() uint32 {
	switch g.r.Intn(4) {
	case 0:
		return c15chains[g.r.Intn(len(c15chains))]
	case 1:
		return 65536 + uint32(g.r.Intn(70000))
	default:
		return uint32(g.r.Intn(65536))
	}
}

func (g *c15gen) validTarget() uint32 {
	if g.r.Intn(3) == 0 {
		return []uint32{0, 1, 2, 255, 256, 65534, 65535}[g.r.Intn(7)]
	}
	return uint32(g.r.Intn(65536))
}

const c15hexdigits = "0123456789abcdefABCDEF"

func (g *c15gen) hexStr(nbytes int) string {
	b := make([]byte, 2*nbytes)
	style := g.r.Intn(3)
	for i := range b {
		switch style {
		case 0:
			b[i] = c15hexdigits[g.r.Intn(16)]
		case 1:
			b[i] = c15hexdigits[g.r.Intn(22)]
		default:
			b[i] = "0123456789ABCDEF"[g.r.Intn(16)]
		}
	}
	return string(b)
}

// characters that sit right next to the hex ranges, plus a few others (all valid UTF-8 on their own)
var c15badchars = []string{"g", "G", "/", ":", "@", "`", " ", "x", "X", "-", "+", "\x00", "\x7f", "é", "z"}

// corrupt replaces the character at a chosen position (first / last / random) by a non-hex one
func (g *c15gen) corrupt(s string) string {
	if len(s) == 0 {
		return c15badchars[g.r.Intn(len(c15badchars))]
	}
	var pos int
	switch g.r.Intn(4) {
	case 0:
		pos = 0
	case 1:
		pos = len(s) - 1
	case 2:
		pos = len(s) - 2
		if pos < 0 {
			pos = 0
		}
	default:
		pos = g.r.Intn(len(s))
	}
	bad := c15badchars[g.r.Intn(len(c15badchars))]
	return s[:pos] + bad + s[pos+1:]
}

// a hex field expected to be `want` bytes (want<0: any length): valid / wrong length / odd / bad character
func (g *c15gen) hexField(want int) string {
	n := want
	if n < 0 {
		n = []int{0, 1, 2, 20, 32, 33, 64, 100, 255, 256, 300, 999, 1000, 1001, 4096}[g.r.Intn(15)]
	}
	switch g.r.Intn(10) {
	case 0: // wrong length by one byte either way
		if g.r.Intn(2) == 0 || n == 0 {
			return g.hexStr(n + 1)
		}
		return g.hexStr(n - 1)
	case 1: // odd number of digits
		s := g.hexStr(n)
		if g.r.Intn(2) == 0 || len(s) == 0 {
			return s + "a"
		}
		return s[1:]
	case 2: // right length, one non-hex character
		return g.corrupt(g.hexStr(n))
	case 3: // right length in characters but a 2-byte rune inside (byte length differs) or 0x prefix
		s := g.hexStr(n)
		if g.r.Intn(2) == 0 && len(s) >= 2 {
			return "0x" + s[2:]
		}
		if len(s) >= 2 {
			return s[:len(s)-2] + "é"
		}
		return "é"
	case 4:
		if want >= 0 {
			return ""
		}
		return g.hexStr(n)
	default:
		return g.hexStr(n)
	}
}

func (g *c15gen) module() string {
	switch g.r.Intn(12) {
	case 0:
		return ""
	case 1:
		return "TokenBridge"
	case 2:
		return "NFTBridge"
	case 3:
		return "Core"
	case 4:
		return strings.Repeat("M", 31)
	case 5:
		return strings.Repeat("M", 32)
	case 6:
		return strings.Repeat("M", 33)
	case 7:
		return strings.Repeat("M", 34+g.r.Intn(300))
	case 8: // 31 characters, 32 bytes
		return strings.Repeat("M", 30) + "é"
	case 9: // 32 characters, 33 bytes
		return strings.Repeat("M", 31) + "é"
	case 10: // leading NUL bytes are legal UTF-8
		return "\x00\x00Token\x00Bridge"
	default:
		n := g.r.Intn(40)
		b := make([]byte, n)
		for i := range b {
			b[i] = byte(32 + g.r.Intn(95))
		}
		return string(b)
	}
}

func (g *c15gen) guardianKey() string {
	s := g.hexStr(20)
	switch g.r.Intn(12) {
	case 0:
		return "0x" + s
	case 1:
		return "0X" + s
	case 2:
		return "0x" + s[2:] // 40 characters but only 38 digits after the prefix
	case 3:
		return s[1:]
	case 4:
		return s + "0"
	case 5:
		return g.corrupt(s)
	case 6:
		return "0x" + g.corrupt(s)
	case 7:
		return strings.Repeat("0", 40)
	case 8:
		return ""
	default:
		if g.r.Intn(2) == 0 {
			return "0x" + s
		}
		return s
	}
}

func (g *c15gen) validKey() string {
	for {
		s := g.hexStr(20)
		if strings.Trim(s, "0") == "" {
			continue
		}
		switch g.r.Intn(3) {
		case 0:
			return "0x" + s
		case 1:
			return "0X" + s
		}
		return s
	}
}

func (g *c15gen) guardians() []*nodev1.GuardianSetUpgrade_Guardian {
	n := []int{0, 1, 1, 2, 3, 7, 13, 18, 19, 19, 20, 21, 30}[g.r.Intn(13)]
	gs := make([]*nodev1.GuardianSetUpgrade_Guardian, n)
	mode := g.r.Intn(6)
	for i := range gs {
		name := fmt.Sprintf("guardian-%d", i)
		if g.r.Intn(8) == 0 {
			name = []string{"", "a b", "名", "x=y;z|w,q/r:s"}[g.r.Intn(4)]
		}
		key := g.validKey()
		if mode == 0 && g.r.Intn(3) == 0 {
			key = g.guardianKey()
		}
		gs[i] = &nodev1.GuardianSetUpgrade_Guardian{Pubkey: key, Name: name}
	}
	if n >= 2 {
		i, j := g.r.Intn(n), g.r.Intn(n)
		switch mode {
		case 1: // exact duplicate
			if i != j {
				gs[j].Pubkey = gs[i].Pubkey
			}
		case 2: // same address, different spelling
			if i != j {
				k := strings.TrimPrefix(strings.TrimPrefix(gs[i].Pubkey, "0x"), "0X")
				if g.r.Intn(2) == 0 {
					gs[j].Pubkey = "0x" + strings.ToUpper(k)
				} else {
					gs[j].Pubkey = strings.ToLower(k)
				}
			}
		}
	}
	if n >= 1 && mode == 3 && g.r.Intn(2) == 0 { // zero address at a chosen slot
		gs[[]int{0, n - 1, g.r.Intn(n)}[g.r.Intn(3)]].Pubkey = "0x" + strings.Repeat("0", 40)
	}
	return gs
}

func (g *c15gen) sequences(n int) []uint64 {
	s := make([]uint64, n)
	for i := range s {
		s[i] = g.u64()
	}
	return s
}

func (g *c15gen) payload(kind int, big bool) (string, *nodev1.GovernanceMessage) {
	m := &nodev1.GovernanceMessage{}
	switch kind {
	case 0:
		m.Payload = &nodev1.GovernanceMessage_UpdateMessageFee{UpdateMessageFee: &nodev1.UpdateMessageFee{NewMessageFee: g.hexField(32)}}
		return "fee", m
	case 1:
		m.Payload = &nodev1.GovernanceMessage_TransferFee{TransferFee: &nodev1.TransferFee{Amount: g.hexField(32), Recipient: g.hexField(32)}}
		return "tf", m
	case 2:
		m.Payload = &nodev1.GovernanceMessage_GuardianSet{GuardianSet: &nodev1.GuardianSetUpgrade{Guardians: g.guardians()}}
		return "gs", m
	case 3:
		m.Payload = &nodev1.GovernanceMessage_ContractUpgrade{ContractUpgrade: &nodev1.ContractUpgrade{Payload: g.hexField(-1)}}
		return "cu", m
	case 4:
		m.Payload = &nodev1.GovernanceMessage_BridgeRegisterChain{BridgeRegisterChain: &nodev1.BridgeRegisterChain{
			Module: g.module(), ChainId: g.chain(), EmitterAddress: g.hexField(32)}}
		return "rc", m
	case 5:
		m.Payload = &nodev1.GovernanceMessage_BridgeContractUpgrade{BridgeContractUpgrade: &nodev1.BridgeUpgradeContract{
			Module: g.module(), Payload: g.hexField(-1)}}
		return "bu", m
	case 6:
		n := []int{0, 1, 2, 3, 8, 255, 256, 257}[g.r.Intn(8)]
		if big {
			n = []int{65534, 65535, 65536, 65537, 131072}[g.r.Intn(5)]
		}
		m.Payload = &nodev1.GovernanceMessage_DestroyUnexecutedSequenceContracts{DestroyUnexecutedSequenceContracts: &nodev1.TokenBridgeDestroyUnexecutedSequenceContracts{
			EmitterChain: g.chain(), Sequences: g.sequences(n)}}
		return "ds", m
	case 7:
		cl := []uint32{0, 1, 15, 32, 127, 128, 200, 254, 255, 256, 257, 300, 511, 512, 65535, 65536, 1 << 31, 1<<32 - 1}[g.r.Intn(18)]
		if g.r.Intn(3) == 0 {
			cl = uint32(g.r.Intn(600))
		}
		m.Payload = &nodev1.GovernanceMessage_UpdateMinimalConsistencyLevel{UpdateMinimalConsistencyLevel: &nodev1.TokenBridgeUpdateMinimalConsistencyLevel{NewConsistencyLevel: cl}}
		return "cl", m
	case 8:
		a := g.hexField(-1)
		if g.r.Intn(3) == 0 {
			a = g.hexField(33)
		}
		if big {
			a = g.hexStr([]int{65534, 65535, 65536, 65537, 70000}[g.r.Intn(5)])
		}
		m.Payload = &nodev1.GovernanceMessage_UpdateRefundAddress{UpdateRefundAddress: &nodev1.TokenBridgeUpdateRefundAddress{NewRefundAddress: a}}
		return "ra", m
	default:
		return "none", m
	}
}

func (g *c15gen) message(kind int, big bool) (string, *nodev1.GovernanceMessage) {
	k, m := g.payload(kind, big)
	m.Sequence = g.u64()
	m.Nonce = g.u32()
	if g.r.Intn(8) == 0 {
		m.TargetChainId = g.chain()
	} else {
		m.TargetChainId = g.validTarget()
	}
	return k, m
}

func (g *c15gen) request(msgs ...*nodev1.GovernanceMessage) *nodev1.InjectGovernanceVAARequest {
	return &nodev1.InjectGovernanceVAARequest{CurrentSetIndex: g.u32(), Timestamp: g.u32(), Messages: msgs}
}

// ---- replay: re-execute recorded case lines (only the request part of a line is read) against the real code

func c15unhex(t *testing.T, s string) string {
	if s == "-" {
		return ""
	}
	b, err := hex.DecodeString(s)
	if err != nil {
		t.Fatalf("c15 replay: bad hex %q", s)
	}
	return string(b)
}

func c15u(t *testing.T, s string, bits int) uint64 {
	v, err := strconv.ParseUint(s, 10, bits)
	if err != nil {
		t.Fatalf("c15 replay: bad number %q", s)
	}
	return v
}

func c15parseMsg(t *testing.T, s string) *nodev1.GovernanceMessage {
	f := strings.Split(s, ":")
	if len(f) != 5 {
		t.Fatalf("c15 replay: bad message %q", s)
	}
	m := &nodev1.GovernanceMessage{Sequence: c15u(t, f[0], 64), Nonce: uint32(c15u(t, f[1], 32)), TargetChainId: uint32(c15u(t, f[2], 32))}
	a := strings.Split(f[4], ",")
	need := func(n int) {
		if len(a) != n {
			t.Fatalf("c15 replay: bad arguments %q", s)
		}
	}
	switch f[3] {
	case "none":
	case "fee":
		need(1)
		m.Payload = &nodev1.GovernanceMessage_UpdateMessageFee{UpdateMessageFee: &nodev1.UpdateMessageFee{NewMessageFee: c15unhex(t, a[0])}}
	case "tf":
		need(2)
		m.Payload = &nodev1.GovernanceMessage_TransferFee{TransferFee: &nodev1.TransferFee{Amount: c15unhex(t, a[0]), Recipient: c15unhex(t, a[1])}}
	case "gs":
		gs := []*nodev1.GuardianSetUpgrade_Guardian{}
		if f[4] != "-" {
			for _, e := range a {
				pn := strings.Split(e, "/")
				if len(pn) != 2 {
					t.Fatalf("c15 replay: bad guardian %q", e)
				}
				gs = append(gs, &nodev1.GuardianSetUpgrade_Guardian{Pubkey: c15unhex(t, pn[0]), Name: c15unhex(t, pn[1])})
			}
		}
		m.Payload = &nodev1.GovernanceMessage_GuardianSet{GuardianSet: &nodev1.GuardianSetUpgrade{Guardians: gs}}
	case "cu":
		need(1)
		m.Payload = &nodev1.GovernanceMessage_ContractUpgrade{ContractUpgrade: &nodev1.ContractUpgrade{Payload: c15unhex(t, a[0])}}
	case "rc":
		need(3)
		m.Payload = &nodev1.GovernanceMessage_BridgeRegisterChain{BridgeRegisterChain: &nodev1.BridgeRegisterChain{
			Module: c15unhex(t, a[0]), ChainId: uint32(c15u(t, a[1], 32)), EmitterAddress: c15unhex(t, a[2])}}
	case "bu":
		need(2)
		m.Payload = &nodev1.GovernanceMessage_BridgeContractUpgrade{BridgeContractUpgrade: &nodev1.BridgeUpgradeContract{
			Module: c15unhex(t, a[0]), Payload: c15unhex(t, a[1])}}
	case "ds":
		need(2)
		var seqs []uint64
		if a[1] != "-" {
			for _, e := range strings.Split(a[1], ".") {
				seqs = append(seqs, c15u(t, e, 64))
			}
		}
		m.Payload = &nodev1.GovernanceMessage_DestroyUnexecutedSequenceContracts{DestroyUnexecutedSequenceContracts: &nodev1.TokenBridgeDestroyUnexecutedSequenceContracts{
			EmitterChain: uint32(c15u(t, a[0], 32)), Sequences: seqs}}
	case "cl":
		need(1)
		m.Payload = &nodev1.GovernanceMessage_UpdateMinimalConsistencyLevel{UpdateMinimalConsistencyLevel: &nodev1.TokenBridgeUpdateMinimalConsistencyLevel{
			NewConsistencyLevel: uint32(c15u(t, a[0], 32))}}
	case "ra":
		need(1)
		m.Payload = &nodev1.GovernanceMessage_UpdateRefundAddress{UpdateRefundAddress: &nodev1.TokenBridgeUpdateRefundAddress{NewRefundAddress: c15unhex(t, a[0])}}
	default:
		t.Fatalf("c15 replay: unknown kind %q", f[3])
	}
	return m
}

func (g *c15gen) replay(path string) {
	f, err := os.Open(path)
	if err != nil {
		g.t.Fatal(err)
	}
	defer f.Close()
	sc := bufio.NewScanner(f)
	sc.Buffer(make([]byte, 1<<20), 1<<28)
	for sc.Scan() {
		fs := strings.Fields(sc.Text())
		if len(fs) < 2 || fs[0] != "inj" {
			continue
		}
		kv := map[string]string{}
		for _, x := range fs[2:] {
			if i := strings.IndexByte(x, '='); i > 0 {
				kv[x[:i]] = x[i+1:]
			}
		}
		g.cfgChain = vaa.ChainID(c15u(g.t, kv["cc"], 16))
		g.cfgAddr = vaa.Address{}
		copy(g.cfgAddr[:], []byte(c15unhex(g.t, kv["ce"])))
		g.setup()
		req := &nodev1.InjectGovernanceVAARequest{CurrentSetIndex: uint32(c15u(g.t, kv["gsi"], 32)), Timestamp: uint32(c15u(g.t, kv["ts"], 32))}
		if kv["msgs"] != "-" {
			for _, ms := range strings.Split(kv["msgs"], ";") {
				req.Messages = append(req.Messages, c15parseMsg(g.t, ms))
			}
		}
		g.emit("replay", req)
	}
}

// shortFields: for every hex-carrying field, decoded lengths 0,1,2,3 with each leading-byte class; for the refund
// address (whose first byte is an Alephium address type) additionally every single byte 00..ff.
func (g *c15gen) shortFields() {
	lead := []byte{0x00, 0x01, 0x02, 0x03, 0x04, 0x05, 0x7f, 0x80, 0xfe, 0xff}
	second := []byte{0x00, 0x01, 0x02, 0x03, 0xff}
	var shorts [][]byte
	shorts = append(shorts, []byte{})
	for _, a := range lead {
		shorts = append(shorts, []byte{a})
		for _, b := range second {
			shorts = append(shorts, []byte{a, b}, []byte{a, b, byte(g.r.Intn(256))})
		}
	}
	hx := func(b []byte) string {
		s := hex.EncodeToString(b)
		if g.r.Intn(3) == 0 {
			s = strings.ToUpper(s)
		}
		return s
	}
	one := func(kind string, p func(m *nodev1.GovernanceMessage)) {
		m := &nodev1.GovernanceMessage{Sequence: g.u64(), Nonce: g.u32(), TargetChainId: g.validTarget()}
		p(m)
		g.emit(kind, g.request(m))
	}
	for i := 0; i < 256; i++ {
		b := []byte{byte(i)}
		one("rashort", func(m *nodev1.GovernanceMessage) {
			m.Payload = &nodev1.GovernanceMessage_UpdateRefundAddress{UpdateRefundAddress: &nodev1.TokenBridgeUpdateRefundAddress{NewRefundAddress: hx(b)}}
		})
	}
	// a well-formed 33-byte address of each type byte, and type 01/02 addresses cut at every short length
	for _, ty := range []byte{0, 1, 2, 3, 4, 0xff} {
		for _, l := range []int{2, 3, 4, 32, 33, 34, 35, 66, 67} {
			b := g.bytesOf(l)
			b[0] = ty
			if ty == 1 || ty == 2 {
				b[1] = []byte{0, 1, 2, 0xff}[g.r.Intn(4)]
			}
			one("rashort", func(m *nodev1.GovernanceMessage) {
				m.Payload = &nodev1.GovernanceMessage_UpdateRefundAddress{UpdateRefundAddress: &nodev1.TokenBridgeUpdateRefundAddress{NewRefundAddress: hx(b)}}
			})
		}
	}
	for _, b := range shorts {
		b := b
		v32 := hex.EncodeToString(g.bytesOf(32))
		one("rashort", func(m *nodev1.GovernanceMessage) {
			m.Payload = &nodev1.GovernanceMessage_UpdateRefundAddress{UpdateRefundAddress: &nodev1.TokenBridgeUpdateRefundAddress{NewRefundAddress: hx(b)}}
		})
		one("feeshort", func(m *nodev1.GovernanceMessage) {
			m.Payload = &nodev1.GovernanceMessage_UpdateMessageFee{UpdateMessageFee: &nodev1.UpdateMessageFee{NewMessageFee: hx(b)}}
		})
		one("tfshort", func(m *nodev1.GovernanceMessage) {
			m.Payload = &nodev1.GovernanceMessage_TransferFee{TransferFee: &nodev1.TransferFee{Amount: hx(b), Recipient: v32}}
		})
		one("tfshort", func(m *nodev1.GovernanceMessage) {
			m.Payload = &nodev1.GovernanceMessage_TransferFee{TransferFee: &nodev1.TransferFee{Amount: v32, Recipient: hx(b)}}
		})
		one("cushort", func(m *nodev1.GovernanceMessage) {
			m.Payload = &nodev1.GovernanceMessage_ContractUpgrade{ContractUpgrade: &nodev1.ContractUpgrade{Payload: hx(b)}}
		})
		one("bushort", func(m *nodev1.GovernanceMessage) {
			m.Payload = &nodev1.GovernanceMessage_BridgeContractUpgrade{BridgeContractUpgrade: &nodev1.BridgeUpgradeContract{Module: "TokenBridge", Payload: hx(b)}}
		})
		one("rcshort", func(m *nodev1.GovernanceMessage) {
			m.Payload = &nodev1.GovernanceMessage_BridgeRegisterChain{BridgeRegisterChain: &nodev1.BridgeRegisterChain{Module: "TokenBridge", ChainId: 2, EmitterAddress: hx(b)}}
		})
		one("gsshort", func(m *nodev1.GovernanceMessage) {
			key := hx(b)
			if g.r.Intn(2) == 0 {
				key = "0x" + key
			}
			m.TargetChainId = 0
			m.Payload = &nodev1.GovernanceMessage_GuardianSet{GuardianSet: &nodev1.GuardianSetUpgrade{Guardians: []*nodev1.GuardianSetUpgrade_Guardian{
				{Pubkey: g.validKey(), Name: "a"}, {Pubkey: key, Name: "short"}}}}
		})
	}
	// full-length fields whose leading bytes run through the same classes
	for _, a := range lead {
		b := g.bytesOf(32)
		b[0] = a
		b[1] = second[g.r.Intn(len(second))]
		v := hex.EncodeToString(b)
		one("feelead", func(m *nodev1.GovernanceMessage) {
			m.Payload = &nodev1.GovernanceMessage_UpdateMessageFee{UpdateMessageFee: &nodev1.UpdateMessageFee{NewMessageFee: v}}
		})
		one("tflead", func(m *nodev1.GovernanceMessage) {
			m.Payload = &nodev1.GovernanceMessage_TransferFee{TransferFee: &nodev1.TransferFee{Amount: v, Recipient: v}}
		})
		one("rclead", func(m *nodev1.GovernanceMessage) {
			m.Payload = &nodev1.GovernanceMessage_BridgeRegisterChain{BridgeRegisterChain: &nodev1.BridgeRegisterChain{Module: "TokenBridge", ChainId: 2, EmitterAddress: v}}
		})
		k := g.bytesOf(20)
		k[0] = a
		one("gslead", func(m *nodev1.GovernanceMessage) {
			m.TargetChainId = 0
			m.Payload = &nodev1.GovernanceMessage_GuardianSet{GuardianSet: &nodev1.GuardianSetUpgrade{Guardians: []*nodev1.GuardianSetUpgrade_Guardian{
				{Pubkey: hex.EncodeToString(k), Name: "lead"}, {Pubkey: "0x" + strings.Repeat("0", 38) + "01", Name: "one"}}}}
		})
	}
}

func (g *c15gen) bytesOf(n int) []byte {
	b := make([]byte, n)
	g.r.Read(b)
	return b
}

func TestVerifC15Gov(t *testing.T) {
	out := os.Getenv("VERIF_OUT")
	if out == "" {
		t.Skip("VERIF_OUT not set")
	}
	seed, _ := strconv.ParseInt(os.Getenv("VERIF_SEED"), 10, 64)
	tier := os.Getenv("VERIF_TIER")
	f, err := os.Create(filepath.Join(out, "gov.cases"))
	if err != nil {
		t.Fatal(err)
	}
	defer f.Close()
	w := bufio.NewWriterSize(f, 1<<20)
	defer w.Flush()
	g := &c15gen{r: rand.New(rand.NewSource(seed)), w: w, t: t, dist: map[string]int{}, ctorEach: 1}
	// unix socket paths are limited to ~100 bytes: keep the scratch directory short
	dir, err := os.MkdirTemp("", "c15")
	if err != nil {
		t.Fatal(err)
	}
	g.dir = dir
	defer os.RemoveAll(dir)
	g.openDBs()
	defer func() {
		for _, n := range g.nodes {
			n.stop()
		}
		for _, d := range g.dbs {
			d.Close()
		}
	}()
	if rp := os.Getenv("VERIF_REPLAY"); rp != "" {
		g.replay(rp)
		t.Logf("c15 harness: replayed %d cases", g.n)
		return
	}
	g.newServices()

	perKind, multi, bigN := 700, 500, 1
	if tier == "thorough" {
		perKind, multi, bigN = 15000, 10000, 6
		g.ctorEach = 4 // the socket round trips dominate: constructor-built instances see every 4th case
	}

	// 0. very short hex fields (decoded length 0..3, every leading byte class) in every hex-carrying request field:
	//    a handler that indexes into a decoded field must not be able to panic on a short one
	g.shortFields()

	// 1. single-message requests, every kind (9 kinds + unset oneof)
	for kind := 0; kind <= 9; kind++ {
		n := perKind
		if kind == 9 {
			n = 12
		}
		for i := 0; i < n; i++ {
			if i%50 == 49 {
				g.newServices()
			}
			k, m := g.message(kind, false)
			g.emit(k, g.request(m))
		}
	}
	// 2. boundary sweeps that must be hit on every run whatever the seed
	for _, cl := range []uint32{0, 254, 255, 256, 300, 1<<32 - 1} {
		_, m := g.message(7, false)
		m.TargetChainId = 255
		m.Payload.(*nodev1.GovernanceMessage_UpdateMinimalConsistencyLevel).UpdateMinimalConsistencyLevel.NewConsistencyLevel = cl
		g.emit("clb", g.request(m))
	}
	for _, c := range []uint32{0, 65535, 65536, 65538, 1<<32 - 1} {
		_, m := g.message(6, false)
		m.TargetChainId = 255
		d := m.Payload.(*nodev1.GovernanceMessage_DestroyUnexecutedSequenceContracts).DestroyUnexecutedSequenceContracts
		d.EmitterChain = c
		d.Sequences = g.sequences(3)
		g.emit("dsb", g.request(m))

		_, m = g.message(4, false)
		m.TargetChainId = 255
		rc := m.Payload.(*nodev1.GovernanceMessage_BridgeRegisterChain).BridgeRegisterChain
		rc.Module, rc.ChainId, rc.EmitterAddress = "TokenBridge", c, g.hexStr(32)
		g.emit("rcb", g.request(m))

		_, m = g.message(7, false)
		m.TargetChainId = c
		m.Payload.(*nodev1.GovernanceMessage_UpdateMinimalConsistencyLevel).UpdateMinimalConsistencyLevel.NewConsistencyLevel = 7
		g.emit("tcb", g.request(m))
	}
	for _, ml := range []int{0, 31, 32, 33, 64} {
		_, m := g.message(4, false)
		m.TargetChainId = 255
		rc := m.Payload.(*nodev1.GovernanceMessage_BridgeRegisterChain).BridgeRegisterChain
		rc.Module, rc.ChainId, rc.EmitterAddress = strings.Repeat("m", ml), 2, g.hexStr(32)
		g.emit("rcm", g.request(m))
		_, m = g.message(5, false)
		m.TargetChainId = 255
		bu := m.Payload.(*nodev1.GovernanceMessage_BridgeContractUpgrade).BridgeContractUpgrade
		bu.Module, bu.Payload = strings.Repeat("m", ml), g.hexStr(40)
		g.emit("bum", g.request(m))
	}
	for _, idx := range []uint32{0, 1<<32 - 2, 1<<32 - 1} {
		_, m := g.message(2, false)
		m.TargetChainId = 0
		m.Payload.(*nodev1.GovernanceMessage_GuardianSet).GuardianSet.Guardians = []*nodev1.GuardianSetUpgrade_Guardian{
			{Pubkey: g.validKey(), Name: "a"}, {Pubkey: g.validKey(), Name: "b"}}
		req := g.request(m)
		req.CurrentSetIndex = idx
		g.emit("gsb", req)
	}
	for _, n := range []int{1, 19, 20} {
		_, m := g.message(2, false)
		m.TargetChainId = 0
		gs := make([]*nodev1.GuardianSetUpgrade_Guardian, n)
		for i := range gs {
			gs[i] = &nodev1.GuardianSetUpgrade_Guardian{Pubkey: g.validKey(), Name: fmt.Sprintf("g%d", i)}
		}
		m.Payload.(*nodev1.GovernanceMessage_GuardianSet).GuardianSet.Guardians = gs
		req := g.request(m)
		req.CurrentSetIndex = 3
		g.emit("gsn", req)
	}
	// 3. very long lists / addresses (the 16-bit length prefixes)
	for i := 0; i < bigN; i++ {
		for _, n := range []int{65535, 65536, 65537} {
			_, m := g.message(6, false)
			m.TargetChainId = 255
			d := m.Payload.(*nodev1.GovernanceMessage_DestroyUnexecutedSequenceContracts).DestroyUnexecutedSequenceContracts
			d.EmitterChain = 2
			d.Sequences = g.sequences(n)
			g.emit("dsbig", g.request(m))
		}
		for _, n := range []int{65535, 65536, 65537} {
			_, m := g.message(8, false)
			m.TargetChainId = 255
			m.Payload.(*nodev1.GovernanceMessage_UpdateRefundAddress).UpdateRefundAddress.NewRefundAddress = g.hexStr(n)
			g.emit("rabig", g.request(m))
		}
		if tier == "thorough" {
			_, m := g.message(6, true)
			g.emit("dsbig", g.request(m))
			_, m = g.message(8, true)
			g.emit("rabig", g.request(m))
		}
	}
	// 4. multi-message requests (an invalid message anywhere stops the request; earlier VAAs were already injected)
	g.emit("multi", g.request())
	for i := 0; i < multi; i++ {
		if i%40 == 39 {
			g.newServices()
		}
		n := 2 + g.r.Intn(4)
		msgs := make([]*nodev1.GovernanceMessage, n)
		for j := range msgs {
			_, msgs[j] = g.message(g.r.Intn(10), false)
			if g.r.Intn(3) != 0 { // keep most of them valid so that later messages are reached
				msgs[j].TargetChainId = g.validTarget()
			}
		}
		g.emit("multi", g.request(msgs...))
	}
	// 5. guardian-set sizes at the bounds that matter on either side: the admin server's limit (19 today, common.MaxGuardianCount)
	//    and the payload's ONE-BYTE guardian count (255 / 256 / 257 and the next wrap-around 511 / 512 / 513, 1024): whatever limit the
	//    node applies, a request it accepts must come out with the count the operator asked for. Own PRNG, appended last.
	g.sizeFamily(seed)
	t.Logf("c15 harness: %d cases %v", g.n, g.dist)
}

func (g *c15gen) sizeFamily(seed int64) {
	saved := g.r
	g.r = rand.New(rand.NewSource(seed ^ 0x51ed270b))
	defer func() { g.r = saved }()
	g.newServices()
	sizes := []int{18, 19, 20, 21, 32, 127, 128, 129, 254, 255, 256, 257, 300, 511, 512, 513, 1024}
	for _, n := range sizes {
		_, m := g.message(2, false)
		m.TargetChainId = 0
		gs := make([]*nodev1.GuardianSetUpgrade_Guardian, n)
		seen := map[string]bool{}
		for i := range gs {
			k := g.validKey()
			for seen[strings.ToLower(strings.TrimPrefix(strings.TrimPrefix(k, "0x"), "0X"))] {
				k = g.validKey()
			}
			seen[strings.ToLower(strings.TrimPrefix(strings.TrimPrefix(k, "0x"), "0X"))] = true
			gs[i] = &nodev1.GuardianSetUpgrade_Guardian{Pubkey: k, Name: fmt.Sprintf("g%d", i)}
		}
		m.Payload.(*nodev1.GovernanceMessage_GuardianSet).GuardianSet.Guardians = gs
		req := g.request(m)
		req.CurrentSetIndex = uint32(g.r.Intn(1000))
		g.emit("gsz", req)
	}
	// the same sizes once more with a repeated key at the far end (the duplicate check has to reach it) - rejected whatever the limit
	for _, n := range []int{19, 20, 255, 256, 257} {
		_, m := g.message(2, false)
		m.TargetChainId = 0
		gs := make([]*nodev1.GuardianSetUpgrade_Guardian, n)
		for i := range gs {
			gs[i] = &nodev1.GuardianSetUpgrade_Guardian{Pubkey: g.validKey(), Name: fmt.Sprintf("g%d", i)}
		}
		gs[n-1].Pubkey = gs[0].Pubkey
		m.Payload.(*nodev1.GovernanceMessage_GuardianSet).GuardianSet.Guardians = gs
		req := g.request(m)
		req.CurrentSetIndex = 3
		g.emit("gszd", req)
	}
}
