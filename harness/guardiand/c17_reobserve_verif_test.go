//go:build verif

package guardiand

// Correspondence harness for C17 (family `reobserve`), injected into package guardiand by `go test -overlay`.
//
// It runs the REAL handleReobservationRequests loop in a goroutine.  Determinism comes from three things:
//   * the clock handed to the loop is c17Clock: Now() returns a value the harness sets, and Ticker(d) returns a
//     ticker whose channel is an UNBUFFERED channel owned by the harness (the requested period d is recorded and
//     written into the case so the driver can compare it with the extracted constant);
//   * the request channel is unbuffered, so when a send returns the loop has taken the item, and when the NEXT
//     send (a "barrier" request for a chain nobody watches) returns, the loop has finished the previous body;
//   * only the harness reads from the per-chain watcher channels.
// After every operation the length of every watcher channel is recorded; `drain` pops items and records their
// content.  Every send is guarded by a timeout: a dispatcher that blocks is reported, never waited for.
//
// The harness OWNS the clock: besides Now() and the ticker channel, every other way of waiting on it (After, Sleep,
// Timer, AfterFunc, Tick, WithTimeout, WithDeadline) is live - it is served by a benbjohnson mock that is created at
// the harness' current time the first time the code under test arms a timer and from then on is moved (Mock.Set,
// which fires what became due) every time the harness advances time.  The pinned loop arms nothing, so on it the
// clock is a plain variable; code that defers work on the clock is actually exercised.  `adv` moves the clock without
// any dispatcher event; the `late` sessions drop a request on a full watcher queue, drain the queue and step the clock
// past 1 s / 5 s / 1 min / the window (repeats of the request interleaved), recording every queue after every step.
//
// SCALE sessions forward hundreds to thousands of DISTINCT (chain, transaction) pairs within a fraction of one suppression
// window (three watcher queues, drained as they fill, some requests dropped on a full queue and repeated once there is
// room, purge ticks as due), with repeats of earlier pairs on the way; then a sample of early, middle and late pairs is
// repeated inside the window (nothing may be forwarded), at the last instant of the first pair's window, and - after the
// window of every pair has lapsed and the due purge tick was handled - once more (everything forwarded once) and again
// (suppressed).  Their lines are written in an abbreviated but lossless form (`burst`, `rdrain`): every request is still
// followed by a barrier, every queue is looked at after every request, and every drained item is in the file.
//
// Part 0 of the file drives the admin entry point nodePrivilegedService.SendObservationRequest (a caller of the post to
// the outbound request queue) on queues of every fill level, under a watchdog.
//
// Case lines (one session = one case id):
//   reset   <cid> tick=<ns passed to clock.Ticker|none> chans=<chain:cap,..|-> [sfx=<hex>: a scale session]
//   req     <cid> now=<ns> chain=<uint32> tx=<hex|-> res=ok|blocked|dead lens=<chain:len,..|->
//   tick    <cid> now=<ns> res=ok|blocked|dead lens=..
//   drain   <cid> chain=<c> n=<k> got=<chain32:txhex;..|-> lens=..
//   setchan <cid> chain=<c> cap=<k> lens=..
//   delchan <cid> chain=<c> lens=..
//   adv     <cid> now=<ns> lens=..
//   burst   <cid> now=<ns> dt=<ns> chain=<uint32> from=<i> n=<k> d=<k digits> lens=<after the last>
//           = k `req` lines: request j (0 <= j < k) at now+j*dt for tx = le32(from+j) ++ sfx, res=ok, during which the
//           queue of chain (chain mod 2^16) grew by d[j] and no other queue changed (anything else is written as `req`)
//   rdrain  <cid> chain=<c> n=<k> got=<e;e;..|-> lens=..      = a `drain` line; e is `<chain32>:<from>+<cnt>`
//           (cnt items chain32 : le32(from), le32(from+1), .. ++ sfx) or `<chain32>=<txhex|->` (any other item)
//           (sfx: from the session's reset line)
//   end     <cid> res=ok|panic|running
//   adminpost <id> cap=<k> fill=<j> ctx=bg|deadline res=ok|full|err|blocked|panic len=<n after> last=same|altered|missing|- prefix=ok|changed

import (
	"bufio"
	"bytes"
	"context"
	"encoding/binary"
	"encoding/hex"
	"errors"
	"fmt"
	"io"
	"math/rand"
	"os"
	"path/filepath"
	"sort"
	"strconv"
	"strings"
	"sync"
	"sync/atomic"
	"testing"
	"time"

	"github.com/alephium/wormhole-fork/node/pkg/common"
	gossipv1 "github.com/alephium/wormhole-fork/node/pkg/proto/gossip/v1"
	nodev1 "github.com/alephium/wormhole-fork/node/pkg/proto/node/v1"
	"github.com/alephium/wormhole-fork/node/pkg/vaa"
	"github.com/benbjohnson/clock"
	"go.uber.org/zap"
	"go.uber.org/zap/zapcore"
)

const c17BarrierChain = 0xFFFF

var c17BarrierTx = []byte("c17-barrier")

// ---------------------------------------------------------------- clock

type c17Clock struct {
	*clock.Mock // the "shell": never advanced; supplies well-formed Ticker values (their channel is replaced)
	now         atomic.Int64
	tickC       chan time.Time
	mu          sync.Mutex
	periods     []time.Duration

	// live timers: a second mock, created AT the harness' current time by the first timer the code under test arms and
	// kept at the harness' time from then on (only the harness goroutine calls Set on it)
	armed  atomic.Int64
	initMu sync.Mutex
	liveM  *clock.Mock
}

func c17NewClock() *c17Clock { return &c17Clock{Mock: clock.NewMock(), tickC: make(chan time.Time)} }

func (c *c17Clock) Now() time.Time                  { return time.Unix(0, c.now.Load()).UTC() }
func (c *c17Clock) Since(t time.Time) time.Duration { return c.Now().Sub(t) }
func (c *c17Clock) Until(t time.Time) time.Duration { return t.Sub(c.Now()) }
func (c *c17Clock) Ticker(d time.Duration) *clock.Ticker {
	c.mu.Lock()
	c.periods = append(c.periods, d)
	c.mu.Unlock()
	t := c.Mock.Ticker(d) // a well-formed ticker (Stop() works); only its channel is replaced
	t.C = c.tickC
	return t
}

func (c *c17Clock) live() *clock.Mock {
	c.initMu.Lock()
	defer c.initMu.Unlock()
	if c.liveM == nil {
		m := clock.NewMock()
		m.Set(c.Now()) // no timer registered yet: nothing fires
		c.liveM = m
	}
	return c.liveM
}

// arm: the code under test starts waiting on the clock
func (c *c17Clock) arm() *clock.Mock {
	c.armed.Add(1)
	return c.live()
}

func (c *c17Clock) After(d time.Duration) <-chan time.Time { return c.arm().After(d) }
func (c *c17Clock) AfterFunc(d time.Duration, f func()) *clock.Timer {
	return c.arm().AfterFunc(d, func() { go f() })
}
func (c *c17Clock) Sleep(d time.Duration)                 { <-c.arm().After(d) }
func (c *c17Clock) Tick(d time.Duration) <-chan time.Time { return c.arm().Tick(d) }
func (c *c17Clock) Timer(d time.Duration) *clock.Timer    { return c.arm().Timer(d) }
func (c *c17Clock) WithDeadline(p context.Context, d time.Time) (context.Context, context.CancelFunc) {
	return c.arm().WithDeadline(p, d)
}
func (c *c17Clock) WithTimeout(p context.Context, d time.Duration) (context.Context, context.CancelFunc) {
	return c.arm().WithTimeout(p, d)
}

// how long the harness lets goroutines woken by a timer run before it looks at the queues (only when something is armed)
const c17Settle = 3 * time.Millisecond

// set moves the harness' clock.  With nothing armed this is a store; otherwise everything that became due fires
// (result true: timers were live while time moved).
func (c *c17Clock) set(now int64) bool {
	c.now.Store(now)
	if c.armed.Load() == 0 {
		return false
	}
	m := c.live()
	if t := c.Now(); t.After(m.Now()) {
		m.Set(t)
		time.Sleep(c17Settle)
		return true
	}
	return false
}

// ---------------------------------------------------------------- logger used only for synchronisation

type c17Core struct{ ch chan string }

func (c *c17Core) Enabled(zapcore.Level) bool        { return true }
func (c *c17Core) With([]zapcore.Field) zapcore.Core { return c }
func (c *c17Core) Check(e zapcore.Entry, ce *zapcore.CheckedEntry) *zapcore.CheckedEntry {
	return ce.AddCore(e, c)
}
func (c *c17Core) Sync() error { return nil }
func (c *c17Core) Write(e zapcore.Entry, fs []zapcore.Field) error {
	for _, f := range fs {
		if f.Key == "tx_hash" && f.String == hex.EncodeToString(c17BarrierTx) {
			select {
			case c.ch <- e.Message:
			default:
			}
		}
	}
	return nil
}

// ---------------------------------------------------------------- session

type c17Sess struct {
	w        *bufio.Writer
	cid      string
	clk      *c17Clock
	reqC     chan *gossipv1.ObservationRequest
	chans    map[vaa.ChainID]chan *gossipv1.ObservationRequest
	cancel   context.CancelFunc
	logC     chan string
	done     chan struct{}
	panicked atomic.Bool
	stuck    bool
	muted    bool
	slow     bool // late sessions: see req()
	nosync   int
	sfx      []byte // scale sessions: the part all transactions of the session share (drains are written as rdrain)
}

const c17Timeout = 10 * time.Second

// sessions in which the dispatcher blocked or died; after c17GiveUp of them no further sessions are generated
var c17Bad int

const c17GiveUp = 2

func c17Start(w *bufio.Writer, cid string, caps map[uint16]int) *c17Sess {
	return c17StartSfx(w, cid, caps, nil)
}

// c17StartSfx: sfx != nil starts a scale session (sfx = what all its transactions share, written into the reset line)
func c17StartSfx(w *bufio.Writer, cid string, caps map[uint16]int, sfx []byte) *c17Sess {
	s := &c17Sess{w: w, cid: cid, sfx: sfx}
	if c17Bad >= c17GiveUp { // enough evidence: a muted session (nothing is started, nothing is written)
		s.muted = true
		s.w = bufio.NewWriter(io.Discard)
		s.stuck = true
		s.done = make(chan struct{})
		close(s.done)
		s.cancel = func() {}
		s.clk = c17NewClock()
		s.chans = map[vaa.ChainID]chan *gossipv1.ObservationRequest{}
		s.logC = make(chan string, 1)
		return s
	}
	s.clk = c17NewClock()
	s.reqC = make(chan *gossipv1.ObservationRequest)
	s.chans = map[vaa.ChainID]chan *gossipv1.ObservationRequest{}
	for c, k := range caps {
		s.chans[vaa.ChainID(c)] = make(chan *gossipv1.ObservationRequest, k)
	}
	s.logC = make(chan string, 16)
	s.done = make(chan struct{})
	ctx, cancel := context.WithCancel(context.Background())
	s.cancel = cancel
	logger := zap.New(&c17Core{ch: s.logC})
	go func() {
		defer close(s.done)
		defer func() {
			if e := recover(); e != nil {
				s.panicked.Store(true)
			}
		}()
		handleReobservationRequests(ctx, s.clk, logger, s.reqC, s.chans)
	}()
	// the ticker is created before the loop starts: wait for it through a first barrier
	s.barrier()
	tick := "none"
	s.clk.mu.Lock()
	if len(s.clk.periods) == 1 {
		tick = strconv.FormatInt(int64(s.clk.periods[0]), 10)
	} else if len(s.clk.periods) > 1 {
		tick = "many"
	}
	s.clk.mu.Unlock()
	var parts []string
	for _, c := range c17SortedChains(s.chans) {
		parts = append(parts, fmt.Sprintf("%d:%d", c, cap(s.chans[vaa.ChainID(c)])))
	}
	if sfx != nil {
		fmt.Fprintf(w, "reset %s tick=%s chans=%s sfx=%s\n", cid, tick, c17Join(parts, ","), hex.EncodeToString(sfx))
		return s
	}
	fmt.Fprintf(w, "reset %s tick=%s chans=%s\n", cid, tick, c17Join(parts, ","))
	return s
}

func c17Join(p []string, sep string) string {
	if len(p) == 0 {
		return "-"
	}
	return strings.Join(p, sep)
}

func c17SortedChains(m map[vaa.ChainID]chan *gossipv1.ObservationRequest) []int {
	var ks []int
	for c := range m {
		ks = append(ks, int(c))
	}
	sort.Ints(ks)
	return ks
}

func (s *c17Sess) lens() string {
	var parts []string
	for _, c := range c17SortedChains(s.chans) {
		parts = append(parts, fmt.Sprintf("%d:%d", c, len(s.chans[vaa.ChainID(c)])))
	}
	return c17Join(parts, ",")
}

func (s *c17Sess) sendReq(r *gossipv1.ObservationRequest) string {
	if s.stuck {
		return "blocked"
	}
	t := time.NewTimer(c17Timeout)
	defer t.Stop()
	select {
	case s.reqC <- r:
		return "ok"
	case <-s.done:
		return "dead"
	case <-t.C:
		s.stuck = true
		return "blocked"
	}
}

// barrier returns once the loop has finished everything sent before it (see the file comment) and, when the
// "unknown chain" log line for the barrier request is seen, also the barrier's own body.
func (s *c17Sess) barrier() (res string, quiescent bool) {
	for len(s.logC) > 0 {
		<-s.logC
	}
	res = s.sendReq(&gossipv1.ObservationRequest{ChainId: c17BarrierChain, TxHash: c17BarrierTx})
	if res != "ok" {
		return res, false
	}
	if s.nosync >= 3 { // the loop no longer logs unknown chains: stop waiting for it (watcher-map changes are skipped)
		return "ok", false
	}
	t := time.NewTimer(300 * time.Millisecond)
	defer t.Stop()
	select {
	case <-s.logC:
		return "ok", true
	case <-t.C:
		s.nosync++
		return "ok", false
	}
}

func c17Tx(b []byte) string {
	if len(b) == 0 {
		return "-"
	}
	return hex.EncodeToString(b)
}

func (s *c17Sess) req(now int64, chain uint32, tx []byte) {
	s.moveTo(now)
	before := s.lens()
	res := s.sendReq(&gossipv1.ObservationRequest{ChainId: chain, TxHash: tx})
	if res == "ok" {
		res, _ = s.barrier()
	}
	if s.slow && res == "ok" && s.lens() == before {
		// nothing was forwarded (dropped or suppressed): give anything the loop may have started for later a moment to
		// arm its timer, so that the clock steps that follow are seen by it
		s.pause(c17Pause)
	}
	fmt.Fprintf(s.w, "req %s now=%d chain=%d tx=%s res=%s lens=%s\n", s.cid, now, chain, c17Tx(tx), res, s.lens())
}

const c17Pause = 1500 * time.Microsecond

// pause waits up to d, or less if the code under test arms a timer meanwhile
func (s *c17Sess) pause(d time.Duration) {
	a := s.clk.armed.Load()
	for end := time.Now().Add(d); time.Now().Before(end) && s.clk.armed.Load() == a; {
		time.Sleep(100 * time.Microsecond)
	}
}

// moveTo sets the clock for the operation that follows; when timers were live while time moved, what the queues look
// like BEFORE the operation is recorded as a clock advance of its own
func (s *c17Sess) moveTo(now int64) {
	if s.clk.set(now) && !s.muted {
		fmt.Fprintf(s.w, "adv %s now=%d lens=%s\n", s.cid, now, s.lens())
	}
}

// adv: time passes, nothing else happens
func (s *c17Sess) adv(now int64) {
	if s.muted {
		return
	}
	s.clk.set(now)
	fmt.Fprintf(s.w, "adv %s now=%d lens=%s\n", s.cid, now, s.lens())
}

// drainAll empties every watcher queue (after letting armed timers' consequences settle)
func (s *c17Sess) drainAll() {
	if s.clk.armed.Load() > 0 {
		time.Sleep(10 * c17Settle)
	}
	for _, c := range c17SortedChains(s.chans) {
		s.drain(uint16(c), 64)
	}
}

func (s *c17Sess) tick(now int64) {
	s.moveTo(now)
	res := "ok"
	if s.stuck {
		res = "blocked"
	} else {
		t := time.NewTimer(c17Timeout)
		select {
		case s.clk.tickC <- s.clk.Now():
		case <-s.done:
			res = "dead"
		case <-t.C:
			s.stuck = true
			res = "blocked"
		}
		t.Stop()
	}
	if res == "ok" {
		res, _ = s.barrier()
	}
	fmt.Fprintf(s.w, "tick %s now=%d res=%s lens=%s\n", s.cid, now, res, s.lens())
}

func (s *c17Sess) drain(chain uint16, n int) {
	ch, ok := s.chans[vaa.ChainID(chain)]
	var got []string
	var items []*gossipv1.ObservationRequest
	if ok {
		for i := 0; i < n; i++ {
			select {
			case r := <-ch:
				items = append(items, r)
				if r == nil {
					got = append(got, "nil")
				} else {
					got = append(got, fmt.Sprintf("%d:%s", r.ChainId, c17Tx(r.TxHash)))
				}
			default:
				i = n
			}
		}
	}
	if s.sfx != nil {
		fmt.Fprintf(s.w, "rdrain %s chain=%d n=%d got=%s lens=%s\n", s.cid, chain, n, c17Join(c17Runs(items, s.sfx), ";"), s.lens())
		return
	}
	fmt.Fprintf(s.w, "drain %s chain=%d n=%d got=%s lens=%s\n", s.cid, chain, n, c17Join(got, ";"), s.lens())
}

// c17ScaleTx: transaction i of a scale session - a 4-byte little-endian counter, then the bytes the session's transactions share
func c17ScaleTx(sfx []byte, i int) []byte {
	b := make([]byte, 4, 4+len(sfx))
	binary.LittleEndian.PutUint32(b, uint32(i))
	return append(b, sfx...)
}

// c17Runs writes drained items with runs of consecutive scale transactions abbreviated (lossless)
func c17Runs(items []*gossipv1.ObservationRequest, sfx []byte) []string {
	var out []string
	runChain, runFrom, runCnt := uint32(0), 0, 0
	flush := func() {
		if runCnt > 0 {
			out = append(out, fmt.Sprintf("%d:%d+%d", runChain, runFrom, runCnt))
			runCnt = 0
		}
	}
	for _, r := range items {
		if r == nil {
			flush()
			out = append(out, "nil")
			continue
		}
		if len(r.TxHash) == 4+len(sfx) && bytes.Equal(r.TxHash[4:], sfx) {
			i := int(binary.LittleEndian.Uint32(r.TxHash))
			if runCnt > 0 && r.ChainId == runChain && i == runFrom+runCnt {
				runCnt++
				continue
			}
			flush()
			runChain, runFrom, runCnt = r.ChainId, i, 1
			continue
		}
		flush()
		out = append(out, fmt.Sprintf("%d=%s", r.ChainId, c17Tx(r.TxHash)))
	}
	flush()
	return out
}

func (s *c17Sess) lenList() []int {
	var l []int
	for _, c := range c17SortedChains(s.chans) {
		l = append(l, len(s.chans[vaa.ChainID(c)]))
	}
	return l
}

func (s *c17Sess) lensOf(l []int) string {
	var parts []string
	for i, c := range c17SortedChains(s.chans) {
		parts = append(parts, fmt.Sprintf("%d:%d", c, l[i]))
	}
	return c17Join(parts, ",")
}

// burst: n requests for `chain`, request j at now+j*dt for transaction from+j of the session, each one followed by a
// barrier and a look at every queue - exactly what n calls of req do.  Consecutive requests that were taken and during
// which nothing but the named chain's queue changed are written as ONE line (see the file comment); every other request
// is written as the `req` line it is.
func (s *c17Sess) burst(now, dt int64, chain uint32, from, n int) {
	var d []byte
	var t0 int64
	start, last := 0, ""
	flush := func() {
		if len(d) > 0 {
			fmt.Fprintf(s.w, "burst %s now=%d dt=%d chain=%d from=%d n=%d d=%s lens=%s\n", s.cid, t0, dt, chain, start, len(d), d, last)
			d = d[:0]
		}
	}
	named := int(chain % 65536)
	for j := 0; j < n; j++ {
		t := now + int64(j)*dt
		tx := c17ScaleTx(s.sfx, from+j)
		if s.stuck || s.clk.armed.Load() > 0 { // a dispatcher that stalled, or timers that may fire while time moves: the long form
			flush()
			s.req(t, chain, tx)
			continue
		}
		before := s.lenList()
		s.clk.set(t) // nothing is armed: a plain store
		res := s.sendReq(&gossipv1.ObservationRequest{ChainId: chain, TxHash: tx})
		if res == "ok" {
			res, _ = s.barrier()
		}
		after := s.lenList()
		grew, plain := 0, res != "ok"
		for i, c := range c17SortedChains(s.chans) {
			if after[i] == before[i] {
				continue
			}
			if c == named && after[i] > before[i] && after[i]-before[i] <= 9 {
				grew = after[i] - before[i]
			} else {
				plain = true
			}
		}
		if plain {
			flush()
			fmt.Fprintf(s.w, "req %s now=%d chain=%d tx=%s res=%s lens=%s\n", s.cid, t, chain, c17Tx(tx), res, s.lensOf(after))
			continue
		}
		if len(d) == 0 {
			t0, start = t, from+j
		}
		d = append(d, byte('0'+grew))
		last = s.lensOf(after)
	}
	flush()
}

// setchan / delchan change the watcher map while the loop is parked in its select (only after a quiescent barrier).
func (s *c17Sess) setchan(chain uint16, k int) {
	if _, q := s.barrier(); !q {
		return
	}
	s.chans[vaa.ChainID(chain)] = make(chan *gossipv1.ObservationRequest, k)
	fmt.Fprintf(s.w, "setchan %s chain=%d cap=%d lens=%s\n", s.cid, chain, k, s.lens())
}

func (s *c17Sess) delchan(chain uint16) {
	if _, q := s.barrier(); !q {
		return
	}
	delete(s.chans, vaa.ChainID(chain))
	fmt.Fprintf(s.w, "delchan %s chain=%d lens=%s\n", s.cid, chain, s.lens())
}

func (s *c17Sess) end() {
	if s.stuck && !s.muted {
		c17Bad++
	}
	s.cancel()
	res := "ok"
	t := time.NewTimer(c17Timeout)
	select {
	case <-s.done:
	case <-t.C:
		res = "running"
	}
	t.Stop()
	if s.panicked.Load() {
		res = "panic"
	}
	fmt.Fprintf(s.w, "end %s res=%s\n", s.cid, res)
}

// ---------------------------------------------------------------- part 0: the admin entry point

const c17AdminTimeout = 10 * time.Second

type c17AdminCall struct {
	k, j   int
	kind   string
	q      chan *gossipv1.ObservationRequest
	fill   []*gossipv1.ObservationRequest
	req    *gossipv1.ObservationRequest
	chain  uint32
	tx     []byte
	resC   chan string
	cancel context.CancelFunc
}

// c17AdminStart builds the service value the way adminServiceRunnable does (only the fields the method uses), an outbound
// request queue of capacity k holding j requests, and starts the REAL SendObservationRequest in its own goroutine.
func c17AdminStart(r *rand.Rand, k, j int, kind string) *c17AdminCall {
	c := &c17AdminCall{k: k, j: j, kind: kind, q: make(chan *gossipv1.ObservationRequest, k), resC: make(chan string, 1)}
	for i := 0; i < j; i++ {
		f := &gossipv1.ObservationRequest{ChainId: uint32(i + 1), TxHash: []byte{byte(i), 0xf1}}
		c.fill = append(c.fill, f)
		c.q <- f
	}
	c.chain = []uint32{0, 1, 2, 255, 65535, 65536 + 2, 1 << 31}[r.Intn(7)]
	switch r.Intn(4) {
	case 0:
		c.tx = nil
	case 1:
		c.tx = make([]byte, r.Intn(70))
		r.Read(c.tx)
	default:
		c.tx = make([]byte, 32)
		r.Read(c.tx)
	}
	c.req = &gossipv1.ObservationRequest{ChainId: c.chain, TxHash: append([]byte(nil), c.tx...)}
	if c.tx == nil {
		c.req.TxHash = nil
	}
	ctx, cancel := context.Background(), context.CancelFunc(func() {})
	if kind == "deadline" { // a caller prepared to wait (far longer than the harness is)
		ctx, cancel = context.WithTimeout(context.Background(), time.Hour)
	}
	c.cancel = cancel
	svc := &nodePrivilegedService{obsvReqSendC: c.q, logger: zap.NewNop()}
	go func() {
		defer func() {
			if e := recover(); e != nil {
				c.resC <- "panic"
			}
		}()
		resp, err := svc.SendObservationRequest(ctx, &nodev1.SendObservationRequestRequest{ObservationRequest: c.req})
		switch {
		case err == nil && resp != nil:
			c.resC <- "ok"
		case err == nil:
			c.resC <- "err" // neither a response nor an error
		case errors.Is(err, common.ErrChanFull):
			c.resC <- "full"
		default:
			c.resC <- "err"
		}
	}()
	return c
}

// finish waits for the call until the deadline (never longer) and writes the case line.
func (c *c17AdminCall) finish(w *bufio.Writer, id string, deadline time.Time) string {
	res := "blocked"
	t := time.NewTimer(time.Until(deadline))
	select {
	case res = <-c.resC:
	case <-t.C:
	}
	t.Stop()
	n := len(c.q)
	last, prefix := "-", "ok"
	if res != "blocked" {
		var items []*gossipv1.ObservationRequest
		for len(c.q) > 0 {
			items = append(items, <-c.q)
		}
		for i, f := range c.fill {
			if i >= len(items) || items[i] != f || f.ChainId != uint32(i+1) || !bytes.Equal(f.TxHash, []byte{byte(i), 0xf1}) {
				prefix = "changed"
			}
		}
		if res == "ok" {
			switch {
			case len(items) != c.j+1:
				last = "missing"
			case items[c.j] == nil || items[c.j].ChainId != c.chain || !bytes.Equal(items[c.j].TxHash, c.tx):
				last = "altered"
			default:
				last = "same"
			}
		}
	} else { // release the stuck call: give up its context and make room
		c.cancel()
		for len(c.q) > 0 {
			<-c.q
		}
	}
	c.cancel()
	fmt.Fprintf(w, "adminpost %s cap=%d fill=%d ctx=%s res=%s len=%d last=%s prefix=%s\n", id, c.k, c.j, c.kind, res, n, last, prefix)
	return res
}

// c17AdminPosts: every fill level 0..cap of the production queue size and of small queues, callers with and without a
// deadline.  Calls on a queue with room are made one by one; the calls on FULL queues are all started first and share
// one watchdog, so that an entry point that waits for room costs one timeout, not one per call.
func c17AdminPosts(r *rand.Rand, w *bufio.Writer) int {
	n := 0
	var full []*c17AdminCall
	for _, k := range []int{common.ObsvReqChannelSize, 0, 1, 2, 3, 7} {
		for j := 0; j <= k; j++ {
			for _, kind := range []string{"bg", "deadline"} {
				c := c17AdminStart(r, k, j, kind)
				if j == k {
					full = append(full, c)
					continue
				}
				n++
				c.finish(w, fmt.Sprintf("ap%d", n), time.Now().Add(c17AdminTimeout))
			}
		}
	}
	deadline := time.Now().Add(c17AdminTimeout)
	stalled := false
	for _, c := range full {
		n++
		if c.finish(w, fmt.Sprintf("ap%d", n), deadline) == "blocked" {
			stalled = true
		}
	}
	if stalled { // the timeout has been spent once: enough evidence
		return n
	}
	// a queue filled call by call through the entry point: exactly cap successes, then failures, then one more success
	// after a slot is freed
	for _, k := range []int{1, 3, common.ObsvReqChannelSize} {
		q := make(chan *gossipv1.ObservationRequest, k)
		svc := &nodePrivilegedService{obsvReqSendC: q, logger: zap.NewNop()}
		call := func() string {
			resC := make(chan string, 1)
			ctx, cancel := context.WithTimeout(context.Background(), time.Hour)
			defer cancel()
			go func() {
				defer func() {
					if e := recover(); e != nil {
						resC <- "panic"
					}
				}()
				_, err := svc.SendObservationRequest(ctx, &nodev1.SendObservationRequestRequest{ObservationRequest: &gossipv1.ObservationRequest{ChainId: 4, TxHash: []byte{9}}})
				switch {
				case err == nil:
					resC <- "ok"
				case errors.Is(err, common.ErrChanFull):
					resC <- "full"
				default:
					resC <- "err"
				}
			}()
			t := time.NewTimer(c17AdminTimeout)
			defer t.Stop()
			select {
			case res := <-resC:
				return res
			case <-t.C:
				return "blocked"
			}
		}
		stuck := false
		for i := 0; i < k+2 && !stuck; i++ {
			before := len(q)
			res := call()
			stuck = res == "blocked"
			n++
			fmt.Fprintf(w, "adminpost ap%d cap=%d fill=%d ctx=deadline res=%s len=%d last=- prefix=ok\n", n, k, before, res, len(q))
		}
		if stuck {
			break // one timeout is enough evidence
		}
		<-q
		before := len(q)
		res := call()
		n++
		fmt.Fprintf(w, "adminpost ap%d cap=%d fill=%d ctx=deadline res=%s len=%d last=- prefix=ok\n", n, k, before, res, len(q))
	}
	return n
}

// ---------------------------------------------------------------- generators

type c17Gen struct {
	r      *rand.Rand
	w      *bufio.Writer
	n      int
	window int64
	period int64
	dist   map[string]int
}

func (g *c17Gen) cid(kind string) string {
	g.n++
	g.dist[kind]++
	return fmt.Sprintf("%s%d", kind, g.n)
}

var c17TxPool = [][]byte{
	{0xe5, 0x9c, 0x1b, 0xe5, 0x0b, 0xe7, 0xe4, 0x7e},
	{0x6e, 0xf0, 0xa6, 0xba, 0x47, 0x3d, 0x34, 0x51},
	nil,
	{},
	{0x00},
	{0xe5, 0x9c, 0x1b, 0xe5, 0x0b, 0xe7, 0xe4},
	{0xe5, 0x9c, 0x1b, 0xe5, 0x0b, 0xe7, 0xe4, 0x7e, 0x00},
}

func (g *c17Gen) tx32() []byte {
	b := make([]byte, 32)
	g.r.Read(b)
	return b
}

// boundary: one remembered forward at phase phi, then ticks at (multiples of the ticker period + jitter) or at
// forward + window + delta; the same request is repeated after every tick and around the boundary.
func (g *c17Gen) boundarySession(phi int64, tickAt []int64, probes []int64) {
	s := c17Start(g.w, g.cid("bnd"), map[uint16]int{2: 8, 255: 8})
	tx := g.tx32()
	s.req(phi, 2, tx)
	s.req(phi, 255, tx) // same tx on another chain: its own entry
	s.drain(2, 8)
	s.drain(255, 8)
	type ev struct {
		t    int64
		tick bool
	}
	var evs []ev
	for _, t := range tickAt {
		evs = append(evs, ev{t, true})
	}
	for _, t := range probes {
		evs = append(evs, ev{t, false})
	}
	sort.SliceStable(evs, func(i, j int) bool { return evs[i].t < evs[j].t })
	for _, e := range evs {
		if e.t < phi {
			continue
		}
		if e.tick {
			s.tick(e.t)
			s.req(e.t, 2, tx)
		} else {
			s.req(e.t, 2, tx)
		}
		s.drain(2, 8)
	}
	s.req(evs[len(evs)-1].t+1, 255, tx)
	s.drain(255, 8)
	s.end()
}

// fill: a watcher queue of capacity k holding j items; request (dropped when j = k), free one slot, same request again.
func (g *c17Gen) fillSession(k, j int) {
	s := c17Start(g.w, g.cid("fill"), map[uint16]int{4: k, 5: 1})
	now := int64(g.r.Intn(1000))
	for i := 0; i < j; i++ {
		s.req(now, 4, append([]byte{byte(i), 0xaa}, g.tx32()...))
		now += int64(g.r.Intn(3))
	}
	tx := g.tx32()
	s.req(now, 4, tx)     // forwarded iff j < k
	s.req(now+1, 5, tx)   // another chain is unaffected by chain 4 being full
	s.req(now+2, 4, tx)   // duplicate if forwarded above, dropped again otherwise
	s.drain(4, 1)         // free one slot (if any item)
	s.req(now+3, 4, tx)   // j = k > 0: must now be forwarded (a dropped request is not remembered)
	s.tick(now + 4)       // a tick long before the window lapses changes nothing
	s.req(now+5, 4, tx)   // duplicate now
	s.drain(4, k+1)
	s.drain(5, 2)
	s.end()
}

// unknown: requests for a chain nobody watches are not remembered: once a watcher appears the same request goes through.
func (g *c17Gen) unknownSession() {
	s := c17Start(g.w, g.cid("unk"), map[uint16]int{2: 2})
	tx := c17TxPool[g.r.Intn(len(c17TxPool))]
	c := uint16(3 + g.r.Intn(5))
	now := int64(g.r.Intn(1000))
	s.req(now, uint32(c), tx)
	s.req(now+1, uint32(c)+65536, tx)
	s.setchan(c, 1+g.r.Intn(2))
	s.req(now+2, uint32(c), tx)
	s.req(now+3, uint32(c)+65536*uint32(1+g.r.Intn(3)), tx) // names the same 16-bit chain: duplicate
	s.drain(c, 3)
	s.delchan(c)
	s.req(now+4, uint32(c), tx) // still remembered: dropped as duplicate (and the chain is gone anyway)
	s.tick(now + 5 + g.window)
	s.req(now+6+g.window, uint32(c), tx) // purged, but unknown chain now
	s.setchan(c, 1)
	s.req(now+7+g.window, uint32(c), tx) // forwarded
	s.drain(c, 3)
	s.end()
}

// late: the queue of chain 4 (capacity k) is full when X and Y arrive - both are dropped; X for chain 7, which nobody
// watches, is dropped too.  The queue is drained (at once, or after the step with index drainAt), and the clock is
// stepped past 1 s / 5 s / 1 min / the ticker period / the window (+-1 ns) with a purge tick whenever a multiple of the
// period is crossed.  X is repeated never (0) / once at +1 s (1) / after every step (2) / once at +6 s (3).  Every queue
// is recorded after every step and (drainEach) emptied, so that whatever reaches a watcher is seen and identified.
func (g *c17Gen) lateSession(k, repeat, drainAt int, drainEach bool) {
	s := c17Start(g.w, g.cid("late"), map[uint16]int{4: k, 5: 1})
	s.slow = true
	S, M, W, P := int64(time.Second), int64(time.Minute), g.window, g.period
	t := int64(g.r.Intn(int(P)))
	for i := 0; i < k; i++ {
		s.req(t, 4, append([]byte{byte(i), 0xbb}, g.tx32()...))
	}
	X, Y := g.tx32(), g.tx32()
	s.req(t, 4, X) // dropped: queue full
	s.req(t, 4, Y) // dropped: queue full
	s.req(t, 5, X) // the same transaction on chain 5 is another key: forwarded
	s.req(t, 7, X) // nobody watches chain 7: dropped
	if drainAt == 0 {
		s.drain(4, k)
	}
	offs := []int64{1, S - 1, S, S + 1, 5*S - 1, 5 * S, 5*S + 1, 6 * S, 10*S + 1, M, M + 1, P, W - 1, W, W + 1, W + P, 2*W + P + 1}
	last := t
	for i, off := range offs {
		now := t + off
		s.adv(now)
		if now/P > last/P {
			s.tick(now)
		}
		last = now
		if drainAt == i+1 {
			s.drain(4, k)
		}
		if off == 6*S {
			s.setchan(7, 1) // a watcher for chain 7 appears: the request dropped earlier must not reach it
		}
		switch {
		case repeat == 1 && off == S, repeat == 2, repeat == 3 && off == 6*S:
			s.req(now, 4, X)
		}
		if drainEach {
			s.drain(4, k+1)
			s.drain(5, 1)
			s.drain(7, 1)
		}
	}
	s.drainAll()
	s.end()
}

// scale: n DISTINCT (chain, transaction) pairs forwarded within a quarter of one suppression window - see the file comment.
func (g *c17Gen) scaleSession(n int) {
	r := g.r
	caps := map[uint16]int{2: 50, 4: 25, 5: 7}
	sfx := make([]byte, 28)
	r.Read(sfx)
	s := c17StartSfx(g.w, g.cid("scale"), caps, sfx)
	W, P := g.window, g.period
	t0 := int64(r.Intn(int(P)))
	dt := W / 4 / int64(n)
	if dt < 1 {
		dt = 1
	}
	now, lastTick := t0, t0
	tickDue := func() { // the purge ticker fires at the multiples of its period; a tick is handled when the loop gets to it
		if now/P > lastTick/P {
			s.tick(now)
		}
		lastTick = now
	}
	cut := func() bool { return s.stuck || s.muted || s.clk.armed.Load() > 0 }
	room := func(c uint16, k int) { // make sure the watcher of c can take k more requests: what must not be forwarded would be seen
		if ch := s.chans[vaa.ChainID(c)]; cap(ch)-len(ch) < k {
			s.drain(c, cap(ch))
		}
	}
	var chainOf []uint16 // the chain of pair i
	// repeat the pairs idxs (runs of consecutive pairs of one chain in one burst), all at the same instant
	repeat := func(pick []int, wrap bool) {
		sort.Ints(pick)
		var idxs []int
		for _, x := range pick {
			if x >= 0 && x < len(chainOf) && (len(idxs) == 0 || idxs[len(idxs)-1] != x) {
				idxs = append(idxs, x)
			}
		}
		for i := 0; i < len(idxs) && !cut(); {
			j := i + 1
			for j < len(idxs) && j-i < 5 && idxs[j] == idxs[j-1]+1 && chainOf[idxs[j]] == chainOf[idxs[i]] {
				j++
			}
			c := chainOf[idxs[i]]
			room(c, j-i)
			id := uint32(c)
			if wrap && r.Intn(3) == 0 {
				id += 65536 * uint32(1+r.Intn(3)) // names the same 16-bit chain
			}
			s.burst(now, 0, id, idxs[i], j-i)
			i = j
		}
	}
	nextRepeat := n/6 + 1
	for len(chainOf) < n && !cut() {
		c := []uint16{2, 2, 2, 4, 4, 5}[r.Intn(6)]
		ch := s.chans[vaa.ChainID(c)]
		free := cap(ch) - len(ch)
		if free == 0 {
			s.drain(c, 1+r.Intn(cap(ch)))
			continue
		}
		k, over := free, 0
		if rest := n - len(chainOf); k > rest {
			k = rest
		} else if r.Intn(6) == 0 {
			over = 1 + r.Intn(2) // the queue is full when the last `over` requests arrive: dropped, not remembered
		}
		from := len(chainOf)
		tickDue()
		s.burst(now, dt, uint32(c), from, k+over)
		now += int64(k+over) * dt
		for i := 0; i < k+over; i++ {
			chainOf = append(chainOf, c)
		}
		if r.Intn(2) == 0 { // the watcher takes some or all of its queue
			s.drain(c, cap(ch))
		} else {
			s.drain(c, 1+r.Intn(cap(ch)))
		}
		if over > 0 && !cut() {
			room(c, over)
			s.burst(now, dt, uint32(c), from+k, over) // the same requests again: forwarded now
			now += int64(over) * dt
		}
		if len(chainOf) >= nextRepeat && !cut() {
			nextRepeat += n/6 + 1
			m := len(chainOf)
			repeat([]int{0, r.Intn(m), r.Intn(m), r.Intn(m), m - 1}, true) // earlier pairs, inside their window: suppressed
		}
	}
	m := len(chainOf)
	if m == 0 || cut() {
		s.drainAll()
		s.end()
		return
	}
	lastFwd := now
	var sample []int
	for i := 0; i < 5; i++ {
		sample = append(sample, i, m/2-2+i, m-5+i)
	}
	for i := 0; i < 6; i++ {
		sample = append(sample, r.Intn(m))
	}
	// 1. right after the last forward: every pair is inside its window
	now += dt
	tickDue()
	repeat(sample, false)
	// 2. the last instant of the first pair's window (ticks as due on the way)
	for next := (now/P + 1) * P; next <= t0+W; next += P {
		now = next
		tickDue()
	}
	now = t0 + W
	repeat(sample, true)
	// 3. the window of every pair has lapsed and the purge tick that was due after that has been handled:
	// forwarded again, once
	for next := (now/P + 1) * P; ; next += P {
		now = next
		tickDue()
		if now > lastFwd+W {
			break
		}
	}
	for _, c := range c17SortedChains(s.chans) {
		s.drain(uint16(c), 64)
	}
	repeat(sample, false)
	now += int64(r.Intn(int(time.Minute)))
	repeat(sample, true)
	s.drainAll()
	s.end()
}

func (g *c17Gen) randomSession(nops int) {
	r := g.r
	chainsAll := []uint16{0, 1, 2, 4, 6, 255, 256, 65534}
	caps := map[uint16]int{}
	nch := 1 + r.Intn(4)
	for i := 0; i < nch; i++ {
		caps[chainsAll[r.Intn(len(chainsAll))]] = []int{0, 1, 1, 2, 3, 50}[r.Intn(6)]
	}
	s := c17Start(g.w, g.cid("rnd"), caps)
	known := func() uint16 {
		ks := c17SortedChains(s.chans)
		if len(ks) == 0 {
			return 1
		}
		return uint16(ks[r.Intn(len(ks))])
	}
	txs := [][]byte{g.tx32(), g.tx32(), c17TxPool[r.Intn(len(c17TxPool))], c17TxPool[r.Intn(len(c17TxPool))]}
	now := int64(r.Intn(int(g.period)))
	nextTick := g.period
	var fwdTimes []int64 // times of requests sent so far (boundaries are placed relative to them)
	for i := 0; i < nops; i++ {
		switch x := r.Intn(100); {
		case x < 55:
			var c uint32
			switch y := r.Intn(10); {
			case y < 7:
				c = uint32(known())
			case y < 8:
				c = uint32(known()) + 65536*uint32(1+r.Intn(2))
			default:
				c = uint32(chainsAll[r.Intn(len(chainsAll))])
			}
			s.req(now, c, txs[r.Intn(len(txs))])
			fwdTimes = append(fwdTimes, now)
		case x < 70:
			// advance the clock
			switch r.Intn(6) {
			case 0:
				now += 1
			case 1:
				now += int64(r.Intn(int(time.Minute)))
			case 2:
				now += int64(r.Intn(int(g.period)))
			case 3:
				if len(fwdTimes) > 0 { // land around forward + window
					t := fwdTimes[r.Intn(len(fwdTimes))] + g.window + int64(r.Intn(3)) - 1
					if t > now {
						now = t
					}
				}
			case 4:
				now += g.window
			default:
				now += int64(r.Intn(int(time.Second)))
			}
		case x < 85:
			// ticker: the next scheduled tick (possibly handled late, possibly some ticks dropped), or an exact boundary
			switch r.Intn(4) {
			case 0:
				if len(fwdTimes) > 0 {
					t := fwdTimes[r.Intn(len(fwdTimes))] + g.window + int64(r.Intn(3)) - 1
					if t > now {
						now = t
					}
				}
			case 1:
				for nextTick <= now {
					nextTick += g.period
				}
				now = nextTick + int64(r.Intn(3))*int64(r.Intn(int(time.Second)))
				nextTick += g.period
			default:
				for nextTick <= now {
					nextTick += g.period
				}
				now = nextTick
				nextTick += g.period
			}
			s.tick(now)
		case x < 96:
			s.drain(known(), 1+r.Intn(3))
		case x < 98:
			s.setchan(chainsAll[r.Intn(len(chainsAll))], []int{0, 1, 2, 50}[r.Intn(4)])
		default:
			s.delchan(known())
		}
	}
	s.drainAll()
	s.end()
}

func TestVerifC17Reobserve(t *testing.T) {
	seed, _ := strconv.ParseInt(os.Getenv("VERIF_SEED"), 10, 64)
	tier := os.Getenv("VERIF_TIER")
	out := os.Getenv("VERIF_OUT")
	if out == "" {
		t.Skip("VERIF_OUT not set")
	}
	f, err := os.Create(filepath.Join(out, "reobserve.cases"))
	if err != nil {
		t.Fatal(err)
	}
	defer f.Close()
	w := bufio.NewWriterSize(f, 1<<20)
	defer w.Flush()
	g := &c17Gen{r: rand.New(rand.NewSource(seed)), w: w, dist: map[string]int{}}
	g.window = int64(11 * time.Minute)
	g.period = int64(7 * time.Minute)
	if v, err := strconv.ParseInt(os.Getenv("VERIF_C17_WINDOW_NS"), 10, 64); err == nil && v > 0 {
		g.window = v
	}
	if v, err := strconv.ParseInt(os.Getenv("VERIF_C17_TICK_NS"), 10, 64); err == nil && v > 0 {
		g.period = v
	}
	W, P := g.window, g.period

	// 0. the admin entry point
	g.dist["adminpost"] = c17AdminPosts(g.r, w)

	// 1. window boundary, ticker phases: forward at phase phi, ticks at k*P (+ jitter)
	for _, phi := range []int64{0, 1, 2*P - W - 1, 2*P - W, 2*P - W + 1, P - 1, P, P + 1, 3*P - W - 1, 3*P - W, 3*P - W + 1, int64(g.r.Intn(int(P)))} {
		if phi < 0 {
			continue
		}
		for _, jit := range []int64{0, 1} {
			var ticks []int64
			for k := int64(1); k <= 5; k++ {
				ticks = append(ticks, k*P+jit)
			}
			g.boundarySession(phi, ticks, []int64{phi + 1, phi + W - 1, phi + W, phi + W + 1, phi + W + P})
		}
	}
	// 2. a tick exactly at forward + window + delta
	for _, d := range []int64{-2, -1, 0, 1, 2, int64(time.Second), -int64(time.Second)} {
		phi := int64(g.r.Intn(int(P)))
		g.boundarySession(phi, []int64{phi + W + d}, []int64{phi + W + d - 1, phi + W + d + 1, phi + 2*W})
		g.boundarySession(phi, []int64{phi + 1, phi + W + d, phi + W + d + 5}, []int64{phi + W + d + 6})
	}
	// 3. every fill level of small queues and the production queue size
	for _, k := range []int{0, 1, 2, 3, 4, 50} {
		for j := 0; j <= k; j++ {
			if k == 50 && j > 1 && j < 49 {
				continue
			}
			g.fillSession(k, j)
		}
	}
	// 3b. dropped on a full queue, the queue drains, time passes (with and without repeats of the request)
	li := 0
	for _, k := range []int{1, 2, 3} {
		for repeat := 0; repeat <= 3; repeat++ {
			for _, drainAt := range []int{0, 4, 8} {
				g.lateSession(k, repeat, drainAt, li%2 == 0 || repeat == 0)
				li++
			}
		}
	}
	g.lateSession(50, 0, 0, true)
	g.lateSession(50, 1, 0, false)
	// 4. unknown chains
	nunk, nrnd, nops := 8, 400, 60
	if tier == "thorough" {
		nunk, nrnd, nops = 40, 2500, 120
	}
	for i := 0; i < nunk; i++ {
		g.unknownSession()
	}
	// 5. random interleavings
	for i := 0; i < nrnd; i++ {
		g.randomSession(10 + g.r.Intn(nops))
	}
	// 6. scale: many distinct pairs within one window
	sizes := []int{300, 1100, 2500}
	if tier == "thorough" {
		sizes = append(sizes, 6000, 20000)
	}
	for _, n := range sizes {
		g.scaleSession(n)
	}
	var ks []string
	for k, v := range g.dist {
		ks = append(ks, fmt.Sprintf("%s=%d", k, v))
	}
	sort.Strings(ks)
	t.Logf("c17 sessions: %s", strings.Join(ks, " "))
}
