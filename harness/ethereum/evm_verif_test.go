//go:build verif

package ethereum

// Correspondence harness for C10 (family `evm`), injected into package ethereum by `go test -overlay`.
//
// Layer 1 ("ws"): the REAL Watcher.Run is started under a real supervisor against a scripted fake EVM
// node (go-ethereum's own rpc.Server behind an httptest websocket endpoint).  Every step of a case is
// synchronised with barriers on observable events (RPC requests reaching the fake node, the watcher's own
// log lines captured through a zap core, pointer identity of w.pending entries, the unbuffered
// observation-request channel) - never with sleeps, and no wall-clock value is ever written out.
// Layer 2 ("direct"): MessageEventsForTransaction, getBlock and pollBlocks are called in-process with a
// scripted Connector (panics recovered and reported).
// Restarts (op `restart`): when Run has returned with an error the supervised runnable hands that error to the supervisor,
// which - after its own back-off - calls Run again on the SAME Watcher value; the case goes on and everything forwarded
// across incarnations is judged by the same Spec.
//
// One line per operation goes to $VERIF_OUT/evm.cases; Whv/Driver/Evm.lean replays the model on the same
// lines (node answers travel in the line) and evaluates the C10 Spec on the implementation's results.

import (
	"context"
	"encoding/hex"
	"errors"
	"fmt"
	"math/big"
	"net/http/httptest"
	"os"
	"runtime"
	"sort"
	"strconv"
	"strings"
	"sync"
	"sync/atomic"
	"testing"
	"time"

	"github.com/alephium/wormhole-fork/node/pkg/common"
	ethAbi "github.com/alephium/wormhole-fork/node/pkg/ethereum/abi"
	gossipv1 "github.com/alephium/wormhole-fork/node/pkg/proto/gossip/v1"
	"github.com/alephium/wormhole-fork/node/pkg/readiness"
	"github.com/alephium/wormhole-fork/node/pkg/supervisor"
	"github.com/alephium/wormhole-fork/node/pkg/vaa"
	gethAbi "github.com/ethereum/go-ethereum/accounts/abi"
	ethCommon "github.com/ethereum/go-ethereum/common"
	"github.com/ethereum/go-ethereum/common/hexutil"
	ethTypes "github.com/ethereum/go-ethereum/core/types"
	"github.com/ethereum/go-ethereum/rpc"
	"go.uber.org/zap"
	"go.uber.org/zap/zapcore"
)

// ------------------------------------------------------------------------------------------------
// small helpers

const vWatchdog = 8 * time.Second // only ever reached when the implementation deviates (reported as `stuck`)

func vhex(b []byte) string {
	if len(b) == 0 {
		return "-"
	}
	return hex.EncodeToString(b)
}

func vjoin(l []string, sep string) string {
	if len(l) == 0 {
		return "-"
	}
	return strings.Join(l, sep)
}

func vmsg(m *common.MessagePublication) string {
	return fmt.Sprintf("%s,%d,%d,%d,%d,%d,%s,%d,%s", hex.EncodeToString(m.TxHash[:]), m.Timestamp.Unix(), m.Nonce, m.Sequence,
		uint16(m.EmitterChain), uint16(m.TargetChain), hex.EncodeToString(m.EmitterAddress[:]), m.ConsistencyLevel, vhex(m.Payload))
}

var vParsedAbi = func() gethAbi.ABI {
	a, err := gethAbi.JSON(strings.NewReader(ethAbi.AbiABI))
	if err != nil {
		panic(err)
	}
	return a
}()

type vMsgSpec struct {
	sender  ethCommon.Address
	tchain  uint16
	seq     uint64
	nonce   uint32
	payload []byte
	cl      uint8
}

func vPackData(m vMsgSpec) []byte {
	d, err := vParsedAbi.Events["LogMessagePublished"].Inputs.NonIndexed().Pack(m.tchain, m.seq, m.nonce, m.payload, m.cl)
	if err != nil {
		panic(err)
	}
	return d
}

// the real ABI decoder is the oracle for "what does this log parse to" (go-ethereum abi is trusted base)
var vFilterer = func() *ethAbi.AbiFilterer {
	f, err := ethAbi.NewAbiFilterer(ethCommon.Address{}, nil)
	if err != nil {
		panic(err)
	}
	return f
}()

func vParseOracle(l *ethTypes.Log) (s string) {
	defer func() {
		if e := recover(); e != nil {
			s = "na"
		}
	}()
	ev, err := vFilterer.ParseLogMessagePublished(*l)
	if err != nil {
		return "err"
	}
	return fmt.Sprintf("ok.%s.%d.%d.%d.%d.%s.%s", hex.EncodeToString(ev.Sender[:]), ev.TargetChainId, ev.Sequence, ev.Nonce,
		ev.ConsistencyLevel, vhex(ev.Payload), hex.EncodeToString(ev.Raw.TxHash[:]))
}

func vLogCanon(l *ethTypes.Log) string {
	if l == nil {
		return "nil"
	}
	ts := make([]string, len(l.Topics))
	for i, t := range l.Topics {
		ts[i] = hex.EncodeToString(t[:])
	}
	return fmt.Sprintf("%s/%s/%s", hex.EncodeToString(l.Address[:]), vjoin(ts, "+"), vParseOracle(l))
}

// ------------------------------------------------------------------------------------------------
// zap core that records every entry and wakes waiters (the watcher's own log lines are the barrier
// for "head N has been processed completely" and the source of the per-message outcome)

type vEntry struct {
	msg string
	f   map[string]interface{}
}

type vSink struct {
	mu      sync.Mutex
	entries []vEntry
	wake    chan struct{}
}

func newVSink() *vSink { return &vSink{wake: make(chan struct{}, 1)} }

func (s *vSink) add(e vEntry) {
	s.mu.Lock()
	s.entries = append(s.entries, e)
	s.mu.Unlock()
	select {
	case s.wake <- struct{}{}:
	default:
	}
}

func (s *vSink) snapshot(from int) []vEntry {
	s.mu.Lock()
	defer s.mu.Unlock()
	if from >= len(s.entries) {
		return nil
	}
	return append([]vEntry{}, s.entries[from:]...)
}

func (s *vSink) len() int {
	s.mu.Lock()
	defer s.mu.Unlock()
	return len(s.entries)
}

type vCore struct {
	sink *vSink
	with []zapcore.Field
}

func (c *vCore) Enabled(zapcore.Level) bool { return true }
func (c *vCore) With(f []zapcore.Field) zapcore.Core {
	return &vCore{c.sink, append(append([]zapcore.Field{}, c.with...), f...)}
}
func (c *vCore) Check(e zapcore.Entry, ce *zapcore.CheckedEntry) *zapcore.CheckedEntry {
	return ce.AddCore(e, c)
}
func (c *vCore) Write(e zapcore.Entry, fs []zapcore.Field) error {
	enc := zapcore.NewMapObjectEncoder()
	for _, f := range c.with {
		f.AddTo(enc)
	}
	for _, f := range fs {
		f.AddTo(enc)
	}
	c.sink.add(vEntry{e.Message, enc.Fields})
	return nil
}
func (c *vCore) Sync() error { return nil }

// ------------------------------------------------------------------------------------------------
// fake EVM node

type vRcAns struct {
	kind   string // null | nf | err | bad0 | bad1 | r
	status uint64
	bh     ethCommon.Hash
	bn     *uint64 // nil => receipt without block number (direct layer only)
	logs   []*ethTypes.Log
}

func (a vRcAns) canon() string {
	if a.kind != "r" {
		return a.kind
	}
	bn := "nil"
	if a.bn != nil {
		bn = strconv.FormatUint(*a.bn, 10)
	}
	return fmt.Sprintf("r.%d.%s.%s", a.status, hex.EncodeToString(a.bh[:]), bn)
}

type vBtAns struct {
	kind string // ok | null | err
	t    uint64
}

func (a vBtAns) canon() string {
	if a.kind == "ok" {
		return "ok:" + strconv.FormatUint(a.t, 10)
	}
	return a.kind
}

type vNode struct {
	mu            sync.Mutex
	heads         map[string]uint64 // latest / finalized / safe
	bnErrAll      bool              // every eth_getBlockByNumber fails
	bnErrLeft     int               // the next k eth_getBlockByNumber fail
	bnNoNum       bool              // failures are "block without number" instead of an RPC error
	bnFails       int
	bnOKAfterFail int // successful polls since the last scripted failure
	tags          map[string]int
	receipts      map[ethCommon.Hash]vRcAns
	blocks        map[ethCommon.Hash]vBtAns
	bump          map[ethCommon.Hash]map[string]uint64 // on receipt lookup of tx: new heads (head moves while the request is in flight)
	calls         []string
	gsErr         bool
	gsIndex       uint32                          // answer of getCurrentGuardianSetIndex when gsSets != nil
	gsSets        map[uint32][]ethCommon.Address // nil: the fixed one-key set with index 7 (evm cases); else the chain's sets by index
	notifier      *rpc.Notifier
	subID         rpc.ID
	subCrit       string
	wake          chan struct{}
	gate          chan struct{} // non-nil: every eth_getTransactionReceipt request waits here before it is answered (race op)
	held          int           // receipt requests that have reached the closed gate
	bnOK          int           // eth_getBlockByNumber requests answered with a block
	tagLog        []string      // every eth_getBlockByNumber request in order: <tag>+ (answered) or <tag>- (failed)
	step          bool          // step mode (rreobs op): every head / receipt / block-time request parks until the harness releases it
	stepQ         []*vStepCall  // parked requests, in order of arrival
}

// one parked request of step mode
type vStepCall struct {
	name string
	rel  chan struct{}
}

// stepWait (n.mu held): in step mode the request is parked - the harness decides in which state of the chain it is answered.
func (n *vNode) stepWait(ctx context.Context, name string) {
	if !n.step {
		return
	}
	sc := &vStepCall{name: name, rel: make(chan struct{})}
	n.stepQ = append(n.stepQ, sc)
	n.poke()
	n.mu.Unlock()
	select {
	case <-sc.rel:
	case <-ctx.Done():
	}
	n.mu.Lock()
}

func (n *vNode) poke() {
	select {
	case n.wake <- struct{}{}:
	default:
	}
}

type vEth struct{ n *vNode }

func (e *vEth) GetBlockByNumber(ctx context.Context, tag string, full bool) (map[string]interface{}, error) {
	n := e.n
	n.mu.Lock()
	defer n.mu.Unlock()
	defer n.poke()
	n.stepWait(ctx, "hq:"+tag)
	n.tags[tag]++
	n.calls = append(n.calls, "hq:"+tag)
	fail := n.bnErrAll
	if !fail && n.bnErrLeft > 0 {
		n.bnErrLeft--
		fail = true
	}
	if !fail {
		n.bnOKAfterFail++
	}
	if fail {
		n.bnFails++
		n.bnOKAfterFail = 0
		n.tagLog = append(n.tagLog, tag+"-")
		if n.bnNoNum {
			return map[string]interface{}{"hash": ethCommon.Hash{}}, nil
		}
		return nil, errors.New("scripted failure")
	}
	h, ok := n.heads[tag]
	if !ok {
		n.tagLog = append(n.tagLog, tag+"-")
		return nil, errors.New("unknown block tag " + tag)
	}
	n.bnOK++
	n.tagLog = append(n.tagLog, tag+"+")
	return map[string]interface{}{"number": hexutil.EncodeUint64(h), "hash": vBlockHashFor(h, 0)}, nil
}

// eth_blockNumber: always the node's latest head, whatever the watcher's mode (a watcher that reads its head through this
// call on a chain read at finalized height sees blocks that are not final). Never requested by the pinned code; every request
// is recorded (`hq=` of a reobs line).
func (e *vEth) BlockNumber(ctx context.Context) (hexutil.Uint64, error) {
	n := e.n
	n.mu.Lock()
	defer n.mu.Unlock()
	defer n.poke()
	n.stepWait(ctx, "hq:eth_blockNumber")
	n.calls = append(n.calls, "hq:eth_blockNumber")
	if n.bnErrAll {
		return 0, errors.New("scripted failure")
	}
	return hexutil.Uint64(n.heads["latest"]), nil
}

func vBlockHashFor(h uint64, salt byte) ethCommon.Hash {
	var x ethCommon.Hash
	x[0] = 0xb1
	x[1] = salt
	big.NewInt(0).SetUint64(h).FillBytes(x[24:])
	return x
}

func (e *vEth) GetBlockByHash(ctx context.Context, h ethCommon.Hash, full bool) (interface{}, error) {
	n := e.n
	n.mu.Lock()
	defer n.mu.Unlock()
	defer n.poke()
	n.stepWait(ctx, "bt")
	n.calls = append(n.calls, "bt:"+hex.EncodeToString(h[:]))
	a, ok := n.blocks[h]
	if !ok || a.kind == "null" {
		return nil, nil
	}
	if a.kind == "err" {
		return nil, errors.New("scripted failure")
	}
	return &ethTypes.Header{Number: big.NewInt(1), Difficulty: big.NewInt(0), Time: a.t}, nil
}

func (e *vEth) GetTransactionReceipt(ctx context.Context, h ethCommon.Hash) (interface{}, error) {
	n := e.n
	n.mu.Lock()
	defer n.mu.Unlock()
	defer n.poke()
	n.stepWait(ctx, "rc")
	n.calls = append(n.calls, "rc:"+hex.EncodeToString(h[:]))
	if g := n.gate; g != nil {
		// the request has arrived; its answer is held back until the harness opens the gate (a slow RPC provider)
		n.held++
		n.poke()
		n.mu.Unlock()
		select {
		case <-g:
		case <-ctx.Done():
		}
		n.mu.Lock()
	}
	if b, ok := n.bump[h]; ok {
		for k, v := range b {
			n.heads[k] = v
		}
	}
	a, ok := n.receipts[h]
	if !ok {
		return nil, nil
	}
	switch a.kind {
	case "null":
		return nil, nil
	case "nf":
		return nil, errors.New("not found")
	case "err":
		return nil, errors.New("scripted failure")
	case "bad1": // malformed receipt (required fields missing) that does carry a success status
		return map[string]interface{}{"status": "0x1", "blockHash": a.bh}, nil
	case "bad0": // malformed receipt without a status
		return map[string]interface{}{"blockHash": a.bh}, nil
	}
	r := &ethTypes.Receipt{Status: a.status, TxHash: h, BlockHash: a.bh, Logs: a.logs}
	if a.logs == nil {
		r.Logs = []*ethTypes.Log{}
	}
	if a.bn != nil {
		r.BlockNumber = new(big.Int).SetUint64(*a.bn)
	}
	return r, nil
}

func (e *vEth) Call(ctx context.Context, args map[string]interface{}, blk interface{}) (hexutil.Bytes, error) {
	n := e.n
	n.mu.Lock()
	defer n.mu.Unlock()
	n.calls = append(n.calls, "call")
	if n.gsErr {
		return nil, errors.New("scripted failure")
	}
	data, _ := args["data"].(string)
	if data == "" {
		data, _ = args["input"].(string)
	}
	raw, _ := hexutil.Decode(data)
	if len(raw) >= 4 {
		for _, name := range []string{"getCurrentGuardianSetIndex", "getGuardianSet"} {
			m := vParsedAbi.Methods[name]
			if string(m.ID) == string(raw[:4]) {
				if name == "getCurrentGuardianSetIndex" {
					idx := uint32(7)
					if n.gsSets != nil {
						idx = n.gsIndex
					}
					out, _ := m.Outputs.Pack(idx)
					return out, nil
				}
				keys := []ethCommon.Address{{1}}
				if n.gsSets != nil {
					// the contract's getter: the set stored under the requested index (an unknown index has no keys)
					in, err := m.Inputs.Unpack(raw[4:])
					if err != nil || len(in) != 1 {
						return nil, errors.New("malformed getGuardianSet call")
					}
					idx, _ := in[0].(uint32)
					n.calls = append(n.calls, fmt.Sprintf("gs:%d", idx))
					keys = append([]ethCommon.Address{}, n.gsSets[idx]...)
				}
				out, err := m.Outputs.Pack(ethAbi.StructsGuardianSet{Keys: keys, ExpirationTime: 0})
				if err != nil {
					return nil, err
				}
				return out, nil
			}
		}
	}
	return nil, errors.New("unexpected eth_call")
}

func (e *vEth) Logs(ctx context.Context, crit map[string]interface{}) (*rpc.Subscription, error) {
	notifier, ok := rpc.NotifierFromContext(ctx)
	if !ok {
		return nil, rpc.ErrNotificationsUnsupported
	}
	sub := notifier.CreateSubscription()
	n := e.n
	n.mu.Lock()
	n.notifier = notifier
	n.subID = sub.ID
	n.subCrit = vCritCanon(crit)
	n.calls = append(n.calls, "sub")
	n.mu.Unlock()
	n.poke()
	return sub, nil
}

// canonical rendering of the eth_subscribe filter: addr=<a,b> topics=<t0a|t0b;t1...>
func vCritCanon(c map[string]interface{}) string {
	flat := func(v interface{}) []string {
		switch x := v.(type) {
		case nil:
			return nil
		case string:
			return []string{strings.TrimPrefix(strings.ToLower(x), "0x")}
		case []interface{}:
			var out []string
			for _, y := range x {
				if s, ok := y.(string); ok {
					out = append(out, strings.TrimPrefix(strings.ToLower(s), "0x"))
				} else if y == nil {
					out = append(out, "*")
				} else {
					out = append(out, "?")
				}
			}
			return out
		}
		return []string{"?"}
	}
	addr := vjoin(flat(c["address"]), ",")
	var tops []string
	if ts, ok := c["topics"].([]interface{}); ok {
		for _, t := range ts {
			tops = append(tops, vjoin(flat(t), "|"))
		}
	}
	return addr + "/" + vjoin(tops, ";")
}

// ------------------------------------------------------------------------------------------------
// one ws case = one Watcher.Run

type vCase struct {
	t        *testing.T
	g        *vgen
	id       string
	node     *vNode
	sink     *vSink
	w        *Watcher
	msgC     chan *common.MessagePublication
	obsC     chan *gossipv1.ObservationRequest
	exitC    chan error
	cancel   context.CancelFunc
	srv      *httptest.Server
	rs       *rpc.Server
	chain    vaa.ChainID
	dev      bool
	wait     bool
	contract ethCommon.Address
	tag      string // block tag the watcher was seen using at start-up
	lastPub  uint64 // harness mirror: last head the poller can have published
	logFrom  int    // log entries before this index belong to earlier ops
	exited   string
	stuck    string
	gapF     uint64
	gapS     uint64
	lat      uint64
	flushed  bool // no poller iteration that read "enabled" can still be in flight
	sticky   []vTxRef // transactions delivered by a race op: their receipt answer is scripted (and written out) at every later op
	resume   chan struct{} // a token lets the supervised runnable return Run's error to the supervisor, which then restarts it
	gidMu    sync.Mutex
	runGID   string // goroutine id of the current incarnation of Run
	setC     chan *common.GuardianSet // nil in evm cases (guardian-set fetch cases: what the watcher hands to the processor)
	gsNode   func(*vNode)             // guardian-set fetch cases: configures the node's guardian sets before Run starts
	startPe  int    // the first startPe eth_getBlockByNumber requests of the case fail (the block poller's very first queries)
	startNN  bool   // ... by answering a block without number instead of an RPC error
	tried    string // block tags requested up to and including the first one that was answered, in order
}

// vGoID is the id of the calling goroutine (as printed in goroutine dumps).
func vGoID() string {
	var b [64]byte
	f := strings.Fields(string(b[:runtime.Stack(b[:], false)]))
	if len(f) >= 2 {
		return f[1]
	}
	return "?"
}

func (c *vCase) gid() string {
	c.gidMu.Lock()
	defer c.gidMu.Unlock()
	return c.runGID
}

var vCaseSeq int64

func vExitKind(err error) string {
	if err == nil {
		return "nil"
	}
	s := err.Error()
	switch {
	case strings.HasPrefix(s, "failed to request timestamp for block"):
		return "blocktime"
	case strings.HasPrefix(s, "error while processing header subscription"):
		return "headsub"
	case strings.HasPrefix(s, "error while processing message publication subscription"):
		return "logsub"
	case strings.HasPrefix(s, "failed to request guardian set"):
		return "gs"
	case strings.HasPrefix(s, "failed to subscribe to message publication events"):
		return "subscribe"
	case strings.HasPrefix(s, "dialing eth client failed"):
		return "dial"
	case errors.Is(err, context.Canceled):
		return "canceled"
	}
	return "other(" + strings.ReplaceAll(s, " ", "_") + ")"
}

func (c *vCase) setHeads(lat uint64) {
	c.lat = lat
	fin, safe := uint64(0), uint64(0)
	if lat > c.gapF {
		fin = lat - c.gapF
	}
	if lat > c.gapS {
		safe = lat - c.gapS
	}
	c.node.mu.Lock()
	c.node.heads["latest"] = lat
	c.node.heads["finalized"] = fin
	c.node.heads["safe"] = safe
	c.node.mu.Unlock()
}

func (c *vCase) headsCanon() string {
	c.node.mu.Lock()
	defer c.node.mu.Unlock()
	return fmt.Sprintf("lat=%d fin=%d safe=%d", c.node.heads["latest"], c.node.heads["finalized"], c.node.heads["safe"])
}

// the head the watcher's poller reads (by the tag it was observed to use)
func (c *vCase) watched() uint64 {
	c.node.mu.Lock()
	defer c.node.mu.Unlock()
	return c.node.heads[c.tag]
}

func readyState(comp string) bool {
	rec := httptest.NewRecorder()
	readiness.Handler(rec, httptest.NewRequest("GET", "/readyz", nil))
	return strings.Contains(rec.Body.String(), comp+"\ttrue\n")
}

// start launches Run and waits until initialisation is complete. Returns false if Run ended during start-up.
func (c *vCase) start(gsErr bool) bool {
	n := &vNode{heads: map[string]uint64{}, tags: map[string]int{}, receipts: map[ethCommon.Hash]vRcAns{},
		blocks: map[ethCommon.Hash]vBtAns{}, bump: map[ethCommon.Hash]map[string]uint64{}, wake: make(chan struct{}, 1), gsErr: gsErr}
	c.node = n
	if c.gsNode != nil {
		c.gsNode(n)
	}
	n.bnErrLeft, n.bnNoNum = c.startPe, c.startNN
	c.setHeads(c.lat)
	rs := rpc.NewServer()
	c.rs = rs
	if err := rs.RegisterName("eth", &vEth{n}); err != nil {
		c.t.Fatal(err)
	}
	c.srv = httptest.NewServer(rs.WebsocketHandler([]string{"*"}))
	url := "ws://" + strings.TrimPrefix(c.srv.URL, "http://")

	c.sink = newVSink()
	logger := zap.New(&vCore{sink: c.sink})
	comp := fmt.Sprintf("verif-evm-%d-%d", os.Getpid(), atomic.AddInt64(&vCaseSeq, 1))
	readiness.RegisterComponent(readiness.Component(comp))
	c.msgC = make(chan *common.MessagePublication, 4096)
	c.obsC = make(chan *gossipv1.ObservationRequest) // unbuffered on purpose: a completed send is a barrier
	c.exitC = make(chan error, 1)
	c.resume = make(chan struct{}, 1)
	poll := uint(1)
	c.w = NewEthWatcher(url, c.contract, "verif", readiness.Component(comp), c.chain, c.msgC, c.setC, c.obsC, c.dev, &poll, c.wait)
	ctx, cancel := context.WithCancel(context.Background())
	c.cancel = cancel
	supervisor.New(ctx, logger, func(ctx context.Context) error {
		c.gidMu.Lock()
		c.runGID = vGoID()
		c.gidMu.Unlock()
		err := c.w.Run(ctx)
		c.exitC <- err
		// The state Run left behind is recorded first; the error reaches the supervisor (which restarts this runnable, i.e.
		// calls Run again on the same Watcher, after its back-off) only when the case goes on with a `restart` op.
		select {
		case <-ctx.Done():
		case <-c.resume:
		}
		return err
	})
	// barrier: Run sets the component ready as its last initialisation step (after SubscribeForBlocks)
	deadline := time.Now().Add(vWatchdog)
	for !readyState(comp) {
		select {
		case err := <-c.exitC:
			c.exited = vExitKind(err)
			return false
		default:
		}
		if time.Now().After(deadline) {
			c.stuck = "startup"
			return false
		}
		time.Sleep(50 * time.Microsecond)
	}
	// barrier: the block poller (a separate runnable) has read its initial block. A poller whose first query fails returns
	// the error to the supervisor, which runs it again after its back-off (the only real-time wait of a start with startPe > 0).
	if !c.waitFirstBlock(0) {
		return false
	}
	c.flushed = true // nothing has enabled the poller yet
	c.lastPub = c.watched()
	return true
}

// waitFirstBlock: barrier for "the block poller has obtained its first block": a eth_getBlockByNumber request made after the
// first `from` ones has been answered with a block. Sets c.tag (the tag of that request: the head the poller goes on to watch)
// and c.tried (every tag requested up to there).
func (c *vCase) waitFirstBlock(from int) bool {
	n := c.node
	wd := time.NewTimer(vWatchdog)
	defer wd.Stop()
	for {
		n.mu.Lock()
		log := append([]string{}, n.tagLog[from:]...)
		n.mu.Unlock()
		var tried []string
		for _, x := range log {
			tried = append(tried, x[:len(x)-1])
			if strings.HasSuffix(x, "+") {
				c.tag = x[:len(x)-1]
				c.tried = vjoin(tried, ",")
				return true
			}
		}
		c.tried = "-"
		select {
		case <-n.wake:
		case err := <-c.exitC:
			c.exited = vExitKind(err)
			return false
		case <-wd.C:
			c.stuck = "poller-start"
			return false
		}
	}
}

func (c *vCase) tagLogMark() int {
	c.node.mu.Lock()
	defer c.node.mu.Unlock()
	return len(c.node.tagLog)
}

func (c *vCase) stop() {
	c.g.w.Flush() // a crash of the process under test must not lose the cases written so far
	c.openGate()
	c.cancel()
	// Run never closes the RPC client it dialled; do it here so that goroutines do not pile up over hundreds of cases
	if c.w != nil && c.w.ethConn != nil {
		if ec, ok := c.w.ethConn.Connector.(*EthereumConnector); ok && ec.rawClient != nil {
			ec.rawClient.Close()
		}
	}
	c.srv.CloseClientConnections()
	c.srv.Close()
	if c.rs != nil {
		c.rs.Stop()
	}
}

func (c *vCase) pendingSnapshot() (map[pendingKey]*pendingMessage, bool) {
	c.w.pendingMu.Lock()
	defer c.w.pendingMu.Unlock()
	m := make(map[pendingKey]*pendingMessage, len(c.w.pending))
	for k, v := range c.w.pending {
		m[k] = v
	}
	en := false
	if c.w.ethConn != nil && c.w.ethConn.enabled != nil {
		en = c.w.ethConn.enabled.Load()
	}
	return m, en
}

func vKeyCanon(k pendingKey) string {
	return fmt.Sprintf("%s/%s/%s/%d", hex.EncodeToString(k.TxHash[:]), hex.EncodeToString(k.BlockHash[:]), hex.EncodeToString(k.EmitterAddress[:]), k.Sequence)
}

// waitLog waits for a log entry satisfying pred among entries recorded from index `from`; also ends when Run exits.
func (c *vCase) waitLog(from int, pred func(vEntry) bool) bool {
	deadline := time.NewTimer(vWatchdog)
	defer deadline.Stop()
	for {
		for _, e := range c.sink.snapshot(from) {
			if pred(e) {
				return true
			}
		}
		select {
		case <-c.sink.wake:
		case err := <-c.exitC:
			c.exited = vExitKind(err)
			return false
		case <-deadline.C:
			c.stuck = "log-barrier"
			return false
		}
	}
}

// waitLogSeq waits for an entry satisfying p1 followed (later) by one satisfying p2.
func (c *vCase) waitLogSeq(from int, p1, p2 func(vEntry) bool) bool {
	deadline := time.NewTimer(vWatchdog)
	defer deadline.Stop()
	for {
		st := 0
		for _, e := range c.sink.snapshot(from) {
			if st == 0 && p1(e) {
				st = 1
			} else if st == 1 && p2(e) {
				return true
			}
		}
		select {
		case <-c.sink.wake:
		case err := <-c.exitC:
			c.exited = vExitKind(err)
			return false
		case <-deadline.C:
			c.stuck = "log-barrier"
			return false
		}
	}
}

var vOutcomeByMsg = map[string]string{
	"observation timed out":                       "timeout",
	"tx was orphaned":                             "orphaned",
	"transaction receipt with non-success status": "failed",
	"transaction could not be fetched":            "retry",
	"tx got dropped and mined in a different block; the message should have been reobserved": "mismatch",
	"observation confirmed": "confirmed",
}

// results collects everything observable since the op began and renders the common tail of a line.
func (c *vCase) results(callFrom int) string {
	// forwarded messages
	var fwd []string
	for {
		select {
		case m := <-c.msgC:
			fwd = append(fwd, vmsg(m))
			continue
		default:
		}
		break
	}
	sort.Strings(fwd)
	// per-message outcomes and processed heads from the watcher's own log
	var outs, heads, reobs []string
	for _, e := range c.sink.snapshot(c.logFrom) {
		// re-observation decisions in the order they were taken (the receipt's log order)
		if e.msg == "re-observed message publication transaction" {
			reobs = append(reobs, fmt.Sprintf("f%v", e.f["sequence"]))
		}
		if e.msg == "ignoring re-observed message publication transaction" {
			reobs = append(reobs, fmt.Sprintf("i%v", e.f["sequence"]))
		}
		if e.msg == "no block number available, ignoring observation request" {
			reobs = append(reobs, "z")
		}
		if o, ok := vOutcomeByMsg[e.msg]; ok {
			tx, _ := e.f["tx"].(string)
			bh, _ := e.f["blockhash"].(string)
			em, _ := e.f["emitter_address"].(string)
			outs = append(outs, fmt.Sprintf("%s/%s/%s/%v:%s", strings.TrimPrefix(tx, "0x"), strings.TrimPrefix(bh, "0x"), em, e.f["sequence"], o))
		}
		if e.msg == "processing new header" {
			safe := "u"
			if b, ok := e.f["is_safe_block"].(bool); ok && b {
				safe = "s"
			}
			heads = append(heads, fmt.Sprintf("%v%s", e.f["current_block"], safe))
		}
	}
	c.logFrom = c.sink.len()
	sort.Strings(outs)
	// RPC calls seen by the node
	c.node.mu.Lock()
	calls := append([]string{}, c.node.calls[callFrom:]...)
	c.node.mu.Unlock()
	var look, bts []string
	sentinel := "rc:" + hex.EncodeToString(vSentinelTx[:])
	for _, x := range calls {
		if x == sentinel {
			continue
		}
		if strings.HasPrefix(x, "rc:") {
			look = append(look, x[3:])
		}
		if strings.HasPrefix(x, "bt:") {
			bts = append(bts, x[3:])
		}
	}
	sort.Strings(bts)
	sort.Strings(look)
	pend, en := c.pendingSnapshot()
	var ps []string
	for k, v := range pend {
		ps = append(ps, fmt.Sprintf("%s@%d", vKeyCanon(k), v.height))
	}
	sort.Strings(ps)
	ex := "-"
	if c.exited != "" {
		ex = c.exited
	}
	st := "-"
	if c.stuck != "" {
		st = c.stuck
	}
	enS := 0
	if en {
		enS = 1
	}
	return fmt.Sprintf("heads=%s look=%s fwd=%s reord=%s out=%s pend=%s en=%d exit=%s stuck=%s bts=%s",
		vjoin(heads, ","), vjoin(look, ","), vjoin(fwd, ";"), vjoin(reobs, ","), vjoin(outs, ","), vjoin(ps, ","), enS, ex, st, vjoin(bts, ","))
}

func (c *vCase) callMark() int {
	c.node.mu.Lock()
	defer c.node.mu.Unlock()
	return len(c.node.calls)
}

type vTxRef struct {
	tx, bh ethCommon.Hash
	bn     uint64
}

// answers for every distinct tx currently pending (plus `extra`: the tx of the log being delivered) are scripted
// before the op and written into the line: they are what the node WOULD answer, whether or not it is asked
func (c *vCase) scriptAnswers(extra []vTxRef, pick func(vTxRef) vRcAns) string {
	pend, _ := c.pendingSnapshot()
	keys := make([]pendingKey, 0, len(pend))
	for k := range pend {
		keys = append(keys, k)
	}
	sort.Slice(keys, func(i, j int) bool { return vKeyCanon(keys[i]) < vKeyCanon(keys[j]) })
	refs := []vTxRef{}
	for _, k := range keys {
		refs = append(refs, vTxRef{k.TxHash, k.BlockHash, pend[k].height})
	}
	refs = append(refs, c.sticky...)
	refs = append(refs, extra...)
	done := map[ethCommon.Hash]bool{}
	var parts []string
	c.node.mu.Lock()
	for _, r := range refs {
		if done[r.tx] {
			continue
		}
		done[r.tx] = true
		a := pick(r)
		c.node.receipts[r.tx] = a
		parts = append(parts, hex.EncodeToString(r.tx[:])+":"+a.canon())
	}
	c.node.mu.Unlock()
	return vjoin(parts, ",")
}

// settle brings the case to quiescence: every head whose processing has started has been processed completely,
// and the head event the poller must publish now (enabled && watched head > last published) has been processed.
func (c *vCase) settle() {
	for round := 0; round < 4; round++ {
		if c.exited != "" || c.stuck != "" {
			return
		}
		// heads the watcher started to process during this op (logged before it takes the lock)
		for _, e := range c.sink.snapshot(c.logFrom) {
			if e.msg != "processing new header" {
				continue
			}
			num := fmt.Sprint(e.f["current_block"])
			if !c.waitLog(c.logFrom, func(x vEntry) bool {
				return x.msg == "processed new header" && fmt.Sprint(x.f["current_block"]) == num
			}) {
				return
			}
			if v, err := strconv.ParseUint(num, 10, 64); err == nil && v > c.lastPub {
				c.lastPub = v
			}
		}
		_, en := c.pendingSnapshot()
		w := c.watched()
		if !en {
			// The poller reads its enabled flag and polls afterwards: an iteration that read "enabled" just before
			// the watcher disabled it may still be in flight. Wait until the poller goroutine is back in its own
			// select (every later iteration reads "disabled"), otherwise a head change in the next op could be
			// published - or not - depending on scheduling.
			if !c.flushed {
				c.waitPollerParked()
				c.flushed = c.stuck == ""
			}
			return
		}
		c.flushed = false
		if w <= c.lastPub {
			return
		}
		want := strconv.FormatUint(w, 10)
		if !c.waitLog(c.logFrom, func(e vEntry) bool {
			return e.msg == "processed new header" && fmt.Sprint(e.f["current_block"]) == want
		}) {
			return
		}
		c.lastPub = w
	}
}

// pollerParked reports whether this case's block poller goroutine is idle in the select of BlockPollConnector.run
// (or has ended). Goroutine states are read from runtime.Stack: the first frame of an idle poller is run itself,
// while a poller with a request in flight is somewhere below pollBlocks.
func (c *vCase) pollerParked() bool {
	found, parked := c.pollerState()
	if !found {
		vNotFound++
	}
	return !found || parked // no such goroutine any more
}

// pollerState: does the block poller goroutine of the watcher's current connector exist, and is it idle in its own select?
func (c *vCase) pollerState() (found, parked bool) {
	if c.w.ethConn == nil {
		return false, false
	}
	ptr := fmt.Sprintf("%p", c.w.ethConn)
	vDumps++
	buf := vStackBuf[:runtime.Stack(vStackBuf, true)]
	const marker = "pkg/ethereum.(*BlockPollConnector).run("
	for _, g := range strings.Split(string(buf), "\n\n") {
		i := strings.Index(g, marker)
		if i < 0 {
			continue
		}
		arg := g[i+len(marker):]
		if j := strings.IndexAny(arg, ",)"); j >= 0 {
			arg = arg[:j]
		}
		if strings.TrimSuffix(arg, "?") != ptr {
			continue // the poller of another (ending) case, or of an earlier incarnation
		}
		lines := strings.Split(g, "\n")
		return true, len(lines) >= 2 && strings.Contains(lines[1], marker)
	}
	return false, false
}

var vStackBuf = make([]byte, 4<<20)
var vFlushes, vDumps, vNotFound int

func (c *vCase) waitPollerParked() {
	vFlushes++
	deadline := time.Now().Add(vWatchdog)
	for !c.pollerParked() {
		if time.Now().After(deadline) {
			c.stuck = "poller-busy"
			return
		}
		time.Sleep(50 * time.Microsecond)
	}
}

func (c *vCase) emit(line string) {
	fmt.Fprintln(c.g.w, line)
	c.g.lines++
}

// ---- restart of Run by the supervisor

// vRunGoroutines reads, from one goroutine dump: whether this watcher's Run is parked in its own final select (`waiting`),
// and how many goroutines started by the incarnation of Run that ran in goroutine `oldGID` can still act (goroutines that
// are blocked for good in a send on the abandoned error channel do not count).
func (c *vCase) vRunGoroutines(oldGID string) (waiting bool, oldLive int) {
	ptr := fmt.Sprintf("%p", c.w)
	vDumps++
	buf := vStackBuf[:runtime.Stack(vStackBuf, true)]
	const marker = "pkg/ethereum.(*Watcher).Run("
	parent := "pkg/ethereum.(*Watcher).Run in goroutine " + oldGID
	for _, g := range strings.Split(string(buf), "\n\n") {
		head := g
		if nl := strings.IndexByte(head, '\n'); nl >= 0 {
			head = head[:nl]
		}
		lines := strings.Split(g, "\n")
		if len(lines) >= 2 && strings.Contains(lines[1], marker) {
			arg := lines[1][strings.Index(lines[1], marker)+len(marker):]
			if j := strings.IndexAny(arg, ",)"); j >= 0 {
				arg = arg[:j]
			}
			if strings.TrimSuffix(arg, "?") == ptr && strings.Contains(head, "[select") {
				waiting = true
			}
		}
		if oldGID == "" {
			continue
		}
		if k := strings.LastIndex(g, "created by "); k >= 0 {
			created := g[k:]
			if nl := strings.IndexByte(created, '\n'); nl >= 0 {
				created = created[:nl]
			}
			if strings.HasSuffix(created, parent) && !strings.Contains(head, "[chan send") {
				oldLive++
			}
		}
	}
	return
}

// waitGoroutines polls goroutine states until cond holds; also ends when Run exits or on the watchdog.
func (c *vCase) waitGoroutines(what string, cond func() bool) bool {
	deadline := time.Now().Add(vWatchdog)
	for !cond() {
		select {
		case err := <-c.exitC:
			c.exited = vExitKind(err)
			return false
		default:
		}
		if time.Now().After(deadline) {
			c.stuck = what
			return false
		}
		time.Sleep(50 * time.Microsecond)
	}
	return true
}

// opRestart: Run has returned (c.exited). Its error is now handed to the supervisor, which cancels the old incarnation's
// context and, after its back-off, calls Run again on the same Watcher. `gsErr`: the guardian-set call of the new
// incarnation fails (Run returns again during start-up). The node's heads do not move during the op.
// Barriers: the goroutines of the old incarnation have ended; the new incarnation has logged its guardian-set fetch (its
// connector is in place); Run is parked in its final select (all its goroutines and subscriptions exist); the new block
// poller has read its first block and is idle.
func (c *vCase) opRestart(gsErr bool, pe int, nn bool, pick func(vTxRef) vRcAns) {
	mark := c.callMark()
	ans := c.scriptAnswers(nil, pick)
	was := c.exited
	oldGID := c.gid()
	oldConn := c.w.ethConn
	from := c.sink.len()
	c.node.mu.Lock()
	// pe > 0: the first pe block queries of the new incarnation's poller fail (its first query is an RPC position of its own)
	c.node.bnErrAll, c.node.bnErrLeft, c.node.bnNoNum = false, pe, nn
	c.node.gsErr = gsErr
	c.node.subCrit = ""
	c.node.mu.Unlock()
	tlm := c.tagLogMark()
	c.tried = "-"
	c.exited = ""
	c.resume <- struct{}{}
	ok := c.waitGoroutines("restart-old-goroutines", func() bool {
		_, live := c.vRunGoroutines(oldGID)
		return live == 0 && c.gid() != oldGID
	})
	ok = ok && c.waitLog(from, func(e vEntry) bool { return e.msg == "fetching guardian set" })
	ok = ok && c.waitGoroutines("restart-run", func() bool {
		w, _ := c.vRunGoroutines("")
		return w
	})
	ok = ok && c.waitGoroutines("restart-poller", func() bool {
		found, parked := c.pollerState()
		return found && parked
	})
	ok = ok && c.waitFirstBlock(tlm)
	if ok {
		c.flushed = true // the new connector starts disabled
		c.lastPub = c.watched()
	}
	if oldConn != nil && oldConn != c.w.ethConn {
		// Run never closes the RPC client it dialled (see stop)
		if ec, ok := oldConn.Connector.(*EthereumConnector); ok && ec.rawClient != nil {
			ec.rawClient.Close()
		}
	}
	c.node.mu.Lock()
	sub := c.node.subCrit
	c.node.gsErr = false
	c.node.bnErrLeft = 0
	c.node.mu.Unlock()
	if sub == "" {
		sub = "-"
	}
	g := 0
	if gsErr {
		g = 1
	}
	nnS := 0
	if nn {
		nnS = 1
	}
	c.emit(fmt.Sprintf("restart %s was=%s gserr=%d %s pe=%d nn=%d tried=%s ans=%s sub=%s %s", c.id, was, g, c.headsCanon(), pe, nnS, c.tried, ans, sub, c.results(mark)))
}

// ---- ops

type vLogSpec struct {
	tx, bh  ethCommon.Hash
	bn      uint64
	m       vMsgSpec
	removed bool
	badData bool
	bt      vBtAns
}

func (c *vCase) opLog(l vLogSpec, pick func(vTxRef) vRcAns) {
	c.flushed = false // the insertion enables the poller
	mark := c.callMark()
	ans := c.scriptAnswers([]vTxRef{{l.tx, l.bh, l.bn}}, pick)
	lg, undecodable, key := c.buildLog(l)
	before, _ := c.pendingSnapshot()
	prev := before[key]
	c.node.mu.Lock()
	c.node.blocks[l.bh] = l.bt
	notifier, subID := c.node.notifier, c.node.subID
	c.node.mu.Unlock()
	if err := notifier.Notify(subID, lg); err != nil {
		c.stuck = "notify:" + err.Error()
	}
	c.waitInserted(l, key, prev)
	c.settle()
	rm, bd := 0, 0
	if l.removed {
		rm = 1
	}
	if undecodable {
		bd = 1
	}
	c.emit(fmt.Sprintf("log %s %s %s pe=0 ans=%s %s", c.id, vLogFields(l, rm, bd), c.headsCanon(), ans, c.results(mark)))
}

func vLogFields(l vLogSpec, rm, bd int) string {
	return fmt.Sprintf("tx=%s bh=%s bn=%d sender=%s tchain=%d seq=%d nonce=%d pl=%s cl=%d rm=%d bad=%d bt=%s",
		hex.EncodeToString(l.tx[:]), hex.EncodeToString(l.bh[:]), l.bn, hex.EncodeToString(l.m.sender[:]), l.m.tchain, l.m.seq,
		l.m.nonce, vhex(l.m.payload), l.m.cl, rm, bd, l.bt.canon())
}

func (c *vCase) buildLog(l vLogSpec) (lg ethTypes.Log, undecodable bool, key pendingKey) {
	data := vPackData(l.m)
	if l.badData {
		data = data[:len(data)-40] // cuts into the payload length word / the payload itself
	}
	var senderTopic ethCommon.Hash
	copy(senderTopic[12:], l.m.sender[:])
	lg = ethTypes.Log{Address: c.contract, Topics: []ethCommon.Hash{LogMessagePublishedTopic, senderTopic}, Data: data,
		BlockNumber: l.bn, TxHash: l.tx, BlockHash: l.bh, Removed: l.removed}
	// whether the log is decodable is decided by the real ABI decoder (trusted base), not by the generator's intention
	undecodable = vParseOracle(&lg) == "err"
	key = pendingKey{TxHash: l.tx, BlockHash: l.bh, EmitterAddress: PadAddress(l.m.sender), Sequence: l.m.seq}
	return
}

// waitInserted: barrier for "the log goroutine has finished with this notification": the entry for this key is replaced by a
// new pointer, or Run ends
func (c *vCase) waitInserted(l vLogSpec, key pendingKey, prev *pendingMessage) {
	deadline := time.Now().Add(vWatchdog)
	for c.stuck == "" {
		now, _ := c.pendingSnapshot()
		if p := now[key]; p != nil && p != prev {
			break
		}
		// ... or it was inserted and already consumed by the head event that its insertion enabled
		// (every removal from pending is logged with the full key)
		consumed := false
		for _, e := range c.sink.snapshot(c.logFrom) {
			if _, ok := vOutcomeByMsg[e.msg]; ok && e.f["tx"] == l.tx.Hex() && e.f["blockhash"] == l.bh.Hex() &&
				fmt.Sprint(e.f["sequence"]) == strconv.FormatUint(l.m.seq, 10) && e.f["emitter_address"] == key.EmitterAddress.String() {
				consumed = true
			}
		}
		if consumed {
			break
		}
		select {
		case err := <-c.exitC:
			c.exited = vExitKind(err)
		default:
		}
		if c.exited != "" {
			break
		}
		if time.Now().After(deadline) {
			c.stuck = "log-insert"
			break
		}
		time.Sleep(20 * time.Microsecond)
	}
}

func (c *vCase) openGate() {
	c.node.mu.Lock()
	g := c.node.gate
	c.node.gate = nil
	c.node.mu.Unlock()
	if g != nil {
		close(g)
	}
}

// waitHeld: barrier for "the scan of head `want` is in progress": one of its receipt requests has reached the node and is being
// held there. Returns false when the scan ended without asking for a receipt, when Run ended, or on the watchdog.
func (c *vCase) waitHeld(want string) bool {
	deadline := time.NewTimer(vWatchdog)
	defer deadline.Stop()
	for {
		c.node.mu.Lock()
		held := c.node.held
		c.node.mu.Unlock()
		if held > 0 {
			return true
		}
		for _, e := range c.sink.snapshot(c.logFrom) {
			if e.msg == "processed new header" && fmt.Sprint(e.f["current_block"]) == want {
				return false
			}
		}
		select {
		case <-c.node.wake:
		case <-c.sink.wake:
		case err := <-c.exitC:
			c.exited = vExitKind(err)
			return false
		case <-deadline.C:
			c.stuck = "race-scan"
			return false
		}
	}
}

// insertParked reports whether a goroutine started by this case's Watcher.Run is parked in sync.Mutex.Lock. While the harness
// holds back the receipt answer of a head scan the only mutex such a goroutine can be waiting for is pendingMu, held by the
// scan: the log goroutine has done everything up to its insertion and will insert once the scan releases the lock.
// (Same technique as pollerParked: goroutine states read from runtime.Stack.)
func (c *vCase) insertParked() bool {
	ptr := fmt.Sprintf("%p", c.w)
	vDumps++
	buf := vStackBuf[:runtime.Stack(vStackBuf, true)]
	blocks := strings.Split(string(buf), "\n\n")
	const marker = "pkg/ethereum.(*Watcher).Run("
	runID := ""
	for _, g := range blocks {
		i := strings.Index(g, marker)
		if i < 0 {
			continue
		}
		arg := g[i+len(marker):]
		if j := strings.IndexAny(arg, ",)"); j >= 0 {
			arg = arg[:j]
		}
		if strings.TrimSuffix(arg, "?") != ptr {
			continue // the Run of another (ending) case
		}
		if f := strings.Fields(g); len(f) >= 2 && f[0] == "goroutine" {
			runID = f[1]
		}
	}
	if runID == "" {
		return false
	}
	parent := "pkg/ethereum.(*Watcher).Run in goroutine " + runID
	for _, g := range blocks {
		k := strings.LastIndex(g, "created by ")
		if k < 0 {
			continue
		}
		created := g[k:]
		if nl := strings.IndexByte(created, '\n'); nl >= 0 {
			created = created[:nl]
		}
		if !strings.HasSuffix(created, parent) {
			continue
		}
		head := g
		if nl := strings.IndexByte(head, '\n'); nl >= 0 {
			head = head[:nl]
		}
		if strings.Contains(head, "[sync.Mutex.Lock") {
			return true
		}
	}
	return false
}

// waitInsertedOrParked: barrier for "the log goroutine has gone as far as it can while the scan is waiting for its receipt":
// either the entry is already in w.pending ("during": the scan does not hold pendingMu), or the goroutine is parked on the
// mutex ("after": it will insert when the scan has ended).
func (c *vCase) waitInsertedOrParked(key pendingKey) string {
	deadline := time.Now().Add(vWatchdog)
	for {
		if c.w.pendingMu.TryLock() {
			_, ok := c.w.pending[key]
			c.w.pendingMu.Unlock()
			if ok {
				return "during"
			}
		}
		if c.insertParked() {
			return "after"
		}
		select {
		case err := <-c.exitC:
			c.exited = vExitKind(err)
			return "after"
		default:
		}
		if time.Now().After(deadline) {
			c.stuck = "race-insert"
			return "after"
		}
		time.Sleep(50 * time.Microsecond)
	}
}

// opRace: the node's head moves to `lat` (at which at least one pending message has reached its depth, and which the poller
// must publish), and WHILE the watcher is processing that head - the node holds back the answer to the scan's first receipt
// request - a new block with message `l` is mined and its log is pushed to the subscription. Only when the log goroutine has
// gone as far as it can (see waitInsertedOrParked) is the receipt answered. Both transactions stay where they are.
func (c *vCase) opRace(l vLogSpec, lat uint64, pick func(vTxRef) vRcAns) {
	c.flushed = false
	mark := c.callMark()
	c.sticky = append(c.sticky, vTxRef{l.tx, l.bh, l.bn})
	ans := c.scriptAnswers(nil, func(x vTxRef) vRcAns {
		if x.tx == l.tx {
			bn := x.bn
			return vRcAns{kind: "r", status: 1, bh: x.bh, bn: &bn}
		}
		return pick(x)
	})
	lg, _, key := c.buildLog(l)
	c.node.mu.Lock()
	c.node.blocks[l.bh] = l.bt
	c.node.gate = make(chan struct{})
	c.node.held = 0
	notifier, subID := c.node.notifier, c.node.subID
	c.node.mu.Unlock()
	c.setHeads(lat)
	held := c.waitHeld(strconv.FormatUint(c.watched(), 10))
	ins := "after"
	if !c.dead() {
		if err := notifier.Notify(subID, lg); err != nil {
			c.stuck = "notify:" + err.Error()
		}
		// barrier: the watcher's own line for this log (its block time has been served)
		txs := l.tx.Hex()
		if c.waitLog(c.logFrom, func(e vEntry) bool {
			return e.msg == "found new message publication transaction" && e.f["tx"] == txs
		}) && held {
			ins = c.waitInsertedOrParked(key)
		}
	}
	c.openGate()
	if ins != "during" && !c.dead() {
		c.waitInserted(l, key, nil)
	}
	c.settle()
	h := 0
	if held {
		h = 1
	}
	c.emit(fmt.Sprintf("race %s %s held=%d ins=%s %s pe=0 ans=%s %s", c.id, vLogFields(l, 0, 0), h, ins, c.headsCanon(), ans, c.results(mark)))
}

func (c *vCase) opHead(lat uint64, pollErr int, noNum bool, pick func(vTxRef) vRcAns) {
	mark := c.callMark()
	ans := c.scriptAnswers(nil, pick)
	_, en := c.pendingSnapshot()
	c.node.mu.Lock()
	c.node.bnNoNum = noNum
	c.node.bnFails = 0
	if pollErr >= 3 {
		c.node.bnErrAll = true
	} else {
		c.node.bnErrLeft = pollErr
	}
	c.node.mu.Unlock()
	c.setHeads(lat)
	if pollErr > 0 && en {
		// barrier: the scripted failures have been consumed (or Run ended)
		deadline := time.NewTimer(vWatchdog)
		for c.exited == "" && c.stuck == "" {
			c.node.mu.Lock()
			fails, okAfter := c.node.bnFails, c.node.bnOKAfterFail
			c.node.mu.Unlock()
			// ... and the poller's retry loop has ended with a successful poll: failures armed by the next op
			// must not extend this iteration's run of consecutive failures
			if pollErr < 3 && fails >= pollErr && okAfter >= 1 {
				break
			}
			select {
			case <-c.node.wake:
			case err := <-c.exitC:
				c.exited = vExitKind(err)
			case <-deadline.C:
				c.stuck = "poll-failures"
			}
		}
		deadline.Stop()
	}
	c.settle()
	nn := 0
	if noNum {
		nn = 1
	}
	c.emit(fmt.Sprintf("head %s %s pe=%d nn=%d ans=%s %s", c.id, c.headsCanon(), pollErr, nn, ans, c.results(mark)))
	c.node.mu.Lock()
	c.node.bnErrLeft = 0
	c.node.mu.Unlock()
}

var vSentinelTx = ethCommon.HexToHash("0xfefefefefefefefefefefefefefefefefefefefefefefefefefefefefefefefe")

type vReobs struct {
	tx     ethCommon.Hash
	rc     vRcAns
	bt     vBtAns
	bnErr  bool
	noNum  bool
	bumpTo uint64 // 0 = no bump; otherwise latest head after the receipt request
}

func (c *vCase) opReobs(r vReobs, pick func(vTxRef) vRcAns) {
	mark := c.callMark()
	ans := c.scriptAnswers(nil, func(x vTxRef) vRcAns {
		if x.tx == r.tx {
			return r.rc // the node gives one answer per tx during an op
		}
		return pick(x)
	})
	before := "b" + strings.ReplaceAll(c.headsCanon(), " ", " b")
	c.node.mu.Lock()
	c.node.receipts[r.tx] = r.rc
	c.node.receipts[vSentinelTx] = vRcAns{kind: "null"}
	if r.rc.kind == "r" {
		c.node.blocks[r.rc.bh] = r.bt
	}
	c.node.bnErrAll = r.bnErr
	c.node.bnNoNum = r.noNum
	if r.bumpTo != 0 {
		fin, safe := uint64(0), uint64(0)
		if r.bumpTo > c.gapF {
			fin = r.bumpTo - c.gapF
		}
		if r.bumpTo > c.gapS {
			safe = r.bumpTo - c.gapS
		}
		c.node.bump[r.tx] = map[string]uint64{"latest": r.bumpTo, "finalized": fin, "safe": safe}
	}
	c.node.mu.Unlock()
	send := func(tx ethCommon.Hash) bool {
		t := time.NewTimer(vWatchdog)
		defer t.Stop()
		select {
		case c.obsC <- &gossipv1.ObservationRequest{ChainId: uint32(c.chain), TxHash: tx[:]}:
			return true
		case err := <-c.exitC:
			c.exited = vExitKind(err)
		case <-t.C:
			c.stuck = "obsreq-send"
		}
		return false
	}
	if send(r.tx) {
		// barrier 1: the request goroutine accepts the sentinel only after it finished the real request
		if send(vSentinelTx) {
			c.node.mu.Lock()
			delete(c.node.bump, r.tx)
			c.node.mu.Unlock()
			if r.bumpTo != 0 {
				c.lat = r.bumpTo
			}
			// barrier 2: the sentinel is finished when, after its "received" entry, its failure has been logged
			sent := vSentinelTx.Hex()
			c.waitLogSeq(c.logFrom, func(e vEntry) bool {
				return e.msg == "received observation request" && e.f["tx_hash"] == sent
			}, func(e vEntry) bool {
				return e.msg == "failed to process observation request" || e.msg == "failed to get block number"
			})
		}
	}
	c.node.mu.Lock()
	c.node.bnErrAll = false
	c.node.mu.Unlock()
	c.settle()
	logs := make([]string, len(r.rc.logs))
	for i, l := range r.rc.logs {
		logs[i] = vLogCanon(l)
	}
	be, nn := 0, 0
	if r.bnErr {
		be = 1
	}
	if r.noNum {
		nn = 1
	}
	// which head reads reached the node during the op (block tags of eth_getBlockByNumber, or another method's name)
	hqs := map[string]bool{}
	c.node.mu.Lock()
	for _, x := range c.node.calls[mark:] {
		if strings.HasPrefix(x, "hq:") {
			hqs[x[3:]] = true
		}
	}
	c.node.mu.Unlock()
	hq := make([]string, 0, len(hqs))
	for k := range hqs {
		hq = append(hq, k)
	}
	sort.Strings(hq)
	c.emit(fmt.Sprintf("reobs %s tx=%s %s bnerr=%d nn=%d rc=%s rbt=%s rlogs=%s hq=%s %s pe=0 ans=%s %s", c.id, hex.EncodeToString(r.tx[:]),
		before, be, nn, r.rc.canon(), r.bt.canon(), vjoin(logs, ";"), vjoin(hq, ","), c.headsCanon(), ans, c.results(mark)))
}

// ---- re-observation while the node changes branch

// vReorg: one observation request during which the node's view of the chain changes: after `k` RPC requests of the
// re-observation have been answered (k = 0: before the first one; k beyond the last one: after it) the transaction's receipt
// becomes rcB (gone, in another block, failed, or unchanged) and the heads move to latB (up or down). Blocks stay retrievable by
// hash on either branch, as on a real node.
type vReorg struct {
	tx       ethCommon.Hash
	k        int
	rcA, rcB vRcAns
	btA, btB vBtAns
	latB     uint64
}

// opReorgReobs runs one observation request in the node's step mode: every head / receipt / block-time request of the
// re-observation goroutine parks at the node until the harness releases it, so the harness decides - and records - in which
// state of the chain each request is answered (`seq`). Only usable while the block poller is switched off and idle (it would
// issue head queries of its own). The end of the real request is recognised by the watcher's own "received observation request"
// line for the sentinel request (written before the sentinel's first RPC request) or by the sentinel having been accepted.
func (c *vCase) opReorgReobs(r vReorg, pick func(vTxRef) vRcAns) {
	mark := c.callMark()
	ans := c.scriptAnswers(nil, func(x vTxRef) vRcAns {
		if x.tx == r.tx {
			return r.rcA
		}
		return pick(x)
	})
	before := "b" + strings.ReplaceAll(c.headsCanon(), " ", " b")
	n := c.node
	n.mu.Lock()
	n.receipts[r.tx] = r.rcA
	n.receipts[vSentinelTx] = vRcAns{kind: "null"}
	if r.rcB.kind == "r" {
		n.blocks[r.rcB.bh] = r.btB
	}
	if r.rcA.kind == "r" {
		n.blocks[r.rcA.bh] = r.btA
	}
	n.step = true
	n.stepQ = nil
	n.mu.Unlock()
	from := c.logFrom
	switched := false
	doSwitch := func() {
		if switched {
			return
		}
		switched = true
		n.mu.Lock()
		n.receipts[r.tx] = r.rcB
		n.mu.Unlock()
		c.setHeads(r.latB)
	}
	stepOff := func() {
		n.mu.Lock()
		n.step = false
		rest := n.stepQ
		n.stepQ = nil
		n.mu.Unlock()
		for _, x := range rest {
			close(x.rel)
		}
	}
	if r.k == 0 {
		doSwitch()
	}
	stop := make(chan struct{})
	done := make(chan bool, 1)
	go func() {
		for _, tx := range []ethCommon.Hash{r.tx, vSentinelTx} {
			tx := tx
			select {
			case c.obsC <- &gossipv1.ObservationRequest{ChainId: uint32(c.chain), TxHash: tx[:]}:
			case <-stop:
				done <- false
				return
			}
		}
		done <- true
	}()
	sent := vSentinelTx.Hex()
	sentinelSeen := func() bool {
		for _, e := range c.sink.snapshot(from) {
			if e.msg == "received observation request" && e.f["tx_hash"] == sent {
				return true
			}
		}
		return false
	}
	var seq []string
	served, inA := 0, 0
	accepted := false
	wd := time.NewTimer(vWatchdog)
	defer wd.Stop()
	for {
		n.mu.Lock()
		var sc *vStepCall
		if len(n.stepQ) > 0 {
			sc = n.stepQ[0]
			n.stepQ = n.stepQ[1:]
		}
		n.mu.Unlock()
		if sc != nil {
			if accepted || sentinelSeen() {
				// the first request of the sentinel: the real request is finished
				doSwitch()
				stepOff()
				close(sc.rel)
				break
			}
			if served == r.k {
				doSwitch()
			}
			st := "a"
			if switched {
				st = "b"
			} else {
				inA++
			}
			seq = append(seq, sc.name+"/"+st)
			served++
			close(sc.rel)
			continue
		}
		if accepted {
			doSwitch()
			stepOff()
			break
		}
		select {
		case <-n.wake:
		case <-c.sink.wake:
		case ok := <-done:
			accepted = ok
		case err := <-c.exitC:
			c.exited = vExitKind(err)
		case <-wd.C:
			c.stuck = "rreobs-step"
		}
		if c.dead() {
			close(stop)
			doSwitch()
			stepOff()
			break
		}
	}
	if !c.dead() {
		// barrier: the sentinel is finished when, after its "received" entry, its failure has been logged
		c.waitLogSeq(c.logFrom, func(e vEntry) bool {
			return e.msg == "received observation request" && e.f["tx_hash"] == sent
		}, func(e vEntry) bool {
			return e.msg == "failed to process observation request" || e.msg == "failed to get block number"
		})
	}
	c.settle()
	logs := make([]string, len(r.rcA.logs))
	for i, l := range r.rcA.logs {
		logs[i] = vLogCanon(l)
	}
	c.emit(fmt.Sprintf("rreobs %s tx=%s %s k=%d sw=%d seq=%s rc=%s rbt=%s rlogs=%s rc2=%s rbt2=%s %s pe=0 ans=%s %s", c.id, hex.EncodeToString(r.tx[:]),
		before, r.k, inA, vjoin(seq, ","), r.rcA.canon(), r.btA.canon(), vjoin(logs, ";"), r.rcB.canon(), r.btB.canon(), c.headsCanon(), ans, c.results(mark)))
}
