//go:build verif

package ethereum

// Guardian-set fetch harness (family `evm`, op `gsf`; clause owner: C07, also run by C10).
//
// The watcher of the governance chain is the only producer of the processor's guardian-set channel: what it hands on is
// the `n` from which the node computes its quorum threshold. The fake EVM node of the C10 harness holds guardian sets of
// 1, 2, 19, 20, 25, 64, 255 (and a few more) keys under several indices and answers getCurrentGuardianSetIndex /
// getGuardianSet the ABI way (eth_call). The REAL fetch path runs against it
//   via=direct: Watcher.fetchAndUpdateGuardianSet with the real EthereumConnector dialled to the node (one Watcher sees the
//               chain move from set to set; every fetch is repeated once with the chain unchanged), and
//   via=run:    the initial fetch of the real Watcher.Run under a supervisor,
// and every fetch writes one line to $VERIF_OUT/gsfetch.cases: what the chain holds (index, every key in order) next to
// exactly what arrived on setC (index, every key in order). Whv/Driver/Evm.lean replays `gsFetch` and evaluates the clause
// `guardian-set-altered-before-processor` on the implementation's side of the line.

import (
	"bufio"
	"context"
	"encoding/hex"
	"fmt"
	"math/rand"
	"net/http/httptest"
	"os"
	"path/filepath"
	"strconv"
	"strings"
	"testing"
	"time"

	"github.com/alephium/wormhole-fork/node/pkg/common"
	"github.com/alephium/wormhole-fork/node/pkg/vaa"
	ethCommon "github.com/ethereum/go-ethereum/common"
	"github.com/ethereum/go-ethereum/rpc"
	"go.uber.org/zap"
)

func vKeysCanon(ks []ethCommon.Address) string {
	out := make([]string, len(ks))
	for i, k := range ks {
		out[i] = hex.EncodeToString(k[:])
	}
	return vjoin(out, ",")
}

func vCurCanon(p *uint32) string {
	if p == nil {
		return "nil"
	}
	return strconv.FormatUint(uint64(*p), 10)
}

func vGsKeys(r *rand.Rand, n int) []ethCommon.Address {
	ks := make([]ethCommon.Address, n)
	for i := range ks {
		r.Read(ks[i][:])
	}
	if n >= 3 && r.Intn(4) == 0 {
		ks[n-1] = ks[0] // the node hands on whatever the chain holds, duplicates included
	}
	return ks
}

type vGsOut struct {
	sent  []*common.GuardianSet
	err   bool
	panic bool
	stuck bool
}

func vDrainSets(ch chan *common.GuardianSet) []*common.GuardianSet {
	var out []*common.GuardianSet
	for {
		select {
		case gs := <-ch:
			out = append(out, gs)
			continue
		default:
		}
		return out
	}
}

func vGsLine(w *bufio.Writer, id, via, cur string, cidx uint32, ckeys []ethCommon.Address, callErr bool, o vGsOut, after string) {
	b := func(x bool) int {
		if x {
			return 1
		}
		return 0
	}
	idx, keys := "-", "-"
	if len(o.sent) > 0 {
		// the first set that arrived is rendered in full; any further one would be a second hand-over for one fetch
		if o.sent[0] == nil {
			idx, keys = "nilset", "-"
		} else {
			idx, keys = strconv.FormatUint(uint64(o.sent[0].Index), 10), vKeysCanon(o.sent[0].Keys)
		}
	}
	fmt.Fprintf(w, "gsf %s via=%s cur=%s cidx=%d cn=%d ckeys=%s callerr=%d sent=%d idx=%s n=%d keys=%s err=%d after=%s panic=%d stuck=%d\n",
		id, via, cur, cidx, len(ckeys), vKeysCanon(ckeys), b(callErr), len(o.sent), idx, func() int {
			if len(o.sent) > 0 && o.sent[0] != nil {
				return len(o.sent[0].Keys)
			}
			return 0
		}(), keys, b(o.err), after, b(o.panic), b(o.stuck))
}

func TestVerifGuardianSetFetch(t *testing.T) {
	out := os.Getenv("VERIF_OUT")
	if out == "" {
		t.Skip("VERIF_OUT not set")
	}
	seed, _ := strconv.ParseInt(os.Getenv("VERIF_SEED"), 10, 64)
	tier := os.Getenv("VERIF_TIER")
	f, err := os.Create(filepath.Join(out, "gsfetch.cases"))
	if err != nil {
		t.Fatal(err)
	}
	defer f.Close()
	bw := bufio.NewWriterSize(f, 1<<20)
	defer bw.Flush()
	r := rand.New(rand.NewSource(seed*7919 + 0x6773))

	sizes := []int{1, 2, 19, 20, 25, 64, 255, 0, 3, 13, 18, 21, 128, 254}
	if tier == "thorough" {
		for n := 0; n <= 255; n++ {
			sizes = append(sizes, n)
		}
	}
	indices := []uint32{0, 1, 2, 3, 7, 4294967295, 0, 5, 6, 1, 8, 9, 10, 11}
	lines := 0

	// ---- via=direct: the real connector against the fake node
	n := &vNode{heads: map[string]uint64{"latest": 100, "finalized": 90, "safe": 95}, tags: map[string]int{}, receipts: map[ethCommon.Hash]vRcAns{},
		blocks: map[ethCommon.Hash]vBtAns{}, bump: map[ethCommon.Hash]map[string]uint64{}, wake: make(chan struct{}, 1),
		gsSets: map[uint32][]ethCommon.Address{}}
	rs := rpc.NewServer()
	if err := rs.RegisterName("eth", &vEth{n}); err != nil {
		t.Fatal(err)
	}
	srv := httptest.NewServer(rs.WebsocketHandler([]string{"*"}))
	defer func() {
		srv.CloseClientConnections()
		srv.Close()
		rs.Stop()
	}()
	var contract ethCommon.Address
	r.Read(contract[:])
	logger := zap.NewNop()
	ctx, cancel := context.WithCancel(context.Background())
	defer cancel()
	conn, err := NewEthereumConnector(ctx, "verif", "ws://"+strings.TrimPrefix(srv.URL, "http://"), contract, logger)
	if err != nil {
		t.Fatal(err)
	}
	defer conn.rawClient.Close()

	fetch := func(w *Watcher, setC chan *common.GuardianSet) (o vGsOut) {
		done := make(chan struct{})
		go func() {
			defer close(done)
			defer func() {
				if e := recover(); e != nil {
					o.panic = true
				}
			}()
			o.err = w.fetchAndUpdateGuardianSet(logger, ctx, conn) != nil
		}()
		select {
		case <-done:
		case <-time.After(vWatchdog):
			o.stuck = true // (the goroutine is left behind; only reached when the implementation deviates)
			return o
		}
		o.sent = vDrainSets(setC)
		return o
	}
	step := func(id string, w *Watcher, setC chan *common.GuardianSet, idx uint32, callErr bool) {
		n.mu.Lock()
		n.gsIndex, n.gsErr = idx, callErr
		ckeys := append([]ethCommon.Address{}, n.gsSets[idx]...)
		n.mu.Unlock()
		cur := vCurCanon(w.currentGuardianSet)
		o := fetch(w, setC)
		vGsLine(bw, id, "direct", cur, idx, ckeys, callErr, o, vCurCanon(w.currentGuardianSet))
		lines++
		n.mu.Lock()
		n.gsErr = false
		n.mu.Unlock()
	}
	// one long-lived watcher: the chain moves from set to set (index up, far up, back down), each fetch repeated
	setC := make(chan *common.GuardianSet, 8)
	w := &Watcher{networkName: "verif", chainID: vaa.ChainIDEthereum, setChan: setC}
	for i, sz := range sizes {
		idx := indices[i%len(indices)] + uint32(i/len(indices))*16
		n.mu.Lock()
		n.gsSets[idx] = vGsKeys(r, sz)
		n.mu.Unlock()
		if i == 4 {
			step(fmt.Sprintf("gd%d.e", i), w, setC, idx, true) // the node fails the call: nothing handed on, nothing remembered
		}
		step(fmt.Sprintf("gd%d.a", i), w, setC, idx, false)
		step(fmt.Sprintf("gd%d.b", i), w, setC, idx, false) // chain unchanged: nothing is handed on again
	}
	// fresh watchers (nothing fetched yet): every size as the first set a node ever sees, under index 0 and others
	for i, sz := range sizes {
		if tier != "thorough" && i >= 9 {
			break
		}
		idx := []uint32{0, 0, 3, 0, 1, 2, 0, 9, 0}[i%9]
		n.mu.Lock()
		n.gsSets[idx] = vGsKeys(r, sz)
		n.mu.Unlock()
		c := make(chan *common.GuardianSet, 8)
		step(fmt.Sprintf("gf%d", i), &Watcher{networkName: "verif", chainID: vaa.ChainIDEthereum, setChan: c}, c, idx, false)
	}
	bw.Flush()

	// ---- via=run: the initial fetch of the real Watcher.Run under a supervisor
	g := &vgen{r: r, w: bufio.NewWriter(&strings.Builder{})} // the evm-case lines of these runs are not kept
	for i, sz := range []int{1, 2, 19, 20, 25, 64, 255} {
		idx := []uint32{0, 1, 2, 3, 4, 70000, 4294967295}[i]
		keys := vGsKeys(r, sz)
		c := &vCase{t: t, g: g, id: fmt.Sprintf("gr%d", i), chain: vaa.ChainIDEthereum, dev: i%2 == 1, lat: 200, gapF: 10, gapS: 5,
			setC: make(chan *common.GuardianSet, 8)}
		r.Read(c.contract[:])
		c.gsNode = func(n *vNode) {
			n.gsSets = map[uint32][]ethCommon.Address{idx: keys}
			n.gsIndex = idx
		}
		ok := c.start(false)
		o := vGsOut{stuck: c.stuck != "", err: !ok && c.stuck == ""}
		o.sent = vDrainSets(c.setC)
		vGsLine(bw, c.id, "run", "nil", idx, keys, false, o, vCurCanon(c.w.currentGuardianSet))
		lines++
		c.stop()
	}
	t.Logf("guardian-set fetch harness: %d lines", lines)
}
