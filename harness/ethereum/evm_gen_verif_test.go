//go:build verif

package ethereum

// Generator part of the C10 harness: chain histories for the ws layer, fixed scenarios, and the direct layer.

import (
	"bufio"
	"context"
	"encoding/hex"
	"encoding/json"
	"errors"
	"fmt"
	"math/big"
	"math/rand"
	"os"
	"path/filepath"
	"runtime"
	"sort"
	"strconv"
	"strings"
	"sync/atomic"
	"testing"

	ethAbi "github.com/alephium/wormhole-fork/node/pkg/ethereum/abi"
	"github.com/alephium/wormhole-fork/node/pkg/vaa"
	ethereum "github.com/ethereum/go-ethereum"
	ethCommon "github.com/ethereum/go-ethereum/common"
	ethTypes "github.com/ethereum/go-ethereum/core/types"
	ethEvent "github.com/ethereum/go-ethereum/event"
	"github.com/ethereum/go-ethereum/rpc"
	"go.uber.org/zap"
)

type vgen struct {
	r     *rand.Rand
	w     *bufio.Writer
	lines int
	stuck int
	seq   uint64
	// generated histories: how many more Run exits may be followed by a supervisor restart (each one waits out the
	// supervisor's own back-off, 0.25-0.75 s), and one in how many exits is
	restarts, restartOneIn int
	// ... and how many more generated cases may start with a failing first block query (same back-off), one in how many
	startErrs, startErrOneIn int
}

func (g *vgen) hash(prefix byte) ethCommon.Hash {
	var h ethCommon.Hash
	g.r.Read(h[:])
	h[0] = prefix
	return h
}

func (g *vgen) pick(ws ...int) int {
	t := 0
	for _, w := range ws {
		t += w
	}
	x := g.r.Intn(t)
	for i, w := range ws {
		if x < w {
			return i
		}
		x -= w
	}
	return len(ws) - 1
}

var vCLs = []uint8{0, 0, 1, 1, 2, 3, 5, 15, 32, 59, 60, 61, 200, 255}

func (g *vgen) msgSpec() vMsgSpec {
	r := g.r
	g.seq++
	m := vMsgSpec{tchain: uint16(r.Intn(4) * 7), seq: g.seq, nonce: r.Uint32(), cl: vCLs[r.Intn(len(vCLs))]}
	if r.Intn(10) == 0 {
		m.seq = r.Uint64()
	}
	r.Read(m.sender[:])
	m.payload = make([]byte, r.Intn(40))
	r.Read(m.payload)
	if r.Intn(8) == 0 {
		m.tchain = uint16(r.Intn(65536))
	}
	return m
}

// what the node answers for the receipt of a pending tx at this step
func (g *vgen) answer(x vTxRef) vRcAns {
	bn := x.bn
	switch g.pick(68, 7, 5, 3, 6, 8, 3) {
	case 0:
		return vRcAns{kind: "r", status: 1, bh: x.bh, bn: &bn}
	case 1: // re-mined in another block
		nb := bn + uint64(g.r.Intn(3))
		return vRcAns{kind: "r", status: 1, bh: g.hash(0xbb), bn: &nb}
	case 2:
		return vRcAns{kind: "null"}
	case 3:
		return vRcAns{kind: "nf"}
	case 4:
		st := uint64(0)
		if g.r.Intn(3) == 0 {
			st = uint64(2 + g.r.Intn(3))
		}
		bh := x.bh
		if g.r.Intn(4) == 0 {
			bh = g.hash(0xbb)
		}
		return vRcAns{kind: "r", status: st, bh: bh, bn: &bn}
	case 5:
		return vRcAns{kind: "err"}
	}
	return vRcAns{kind: []string{"bad0", "bad1"}[g.r.Intn(2)], bh: x.bh}
}

func (g *vgen) goodAnswer(x vTxRef) vRcAns {
	bn := x.bn
	return vRcAns{kind: "r", status: 1, bh: x.bh, bn: &bn}
}

type vTruth struct {
	tx, bh ethCommon.Hash
	bn     uint64
	msgs   []vMsgSpec
	bt     uint64
}

func (g *vgen) newCase(t *testing.T, id string) *vCase {
	r := g.r
	c := &vCase{t: t, g: g, id: id}
	switch g.pick(3, 3, 2) {
	case 0:
		c.chain = vaa.ChainIDEthereum
	case 1:
		c.chain = vaa.ChainIDBSC
	default:
		c.chain = vaa.ChainID([]uint16{1, 3, 5, 6, 255, 10001}[r.Intn(6)])
	}
	c.dev = r.Intn(4) == 0
	c.wait = r.Intn(2) == 0
	r.Read(c.contract[:])
	c.gapF = uint64(r.Intn(70))
	c.gapS = c.gapF / 2
	c.lat = uint64(1000 + r.Intn(1000000))
	if r.Intn(12) == 0 {
		c.lat = uint64(r.Intn(4))
		c.gapF = uint64(r.Intn(2))
		c.gapS = 0
	}
	return c
}

func (c *vCase) startLine(gsErr bool) bool {
	ok := c.start(gsErr)
	ex, st := "-", "-"
	if c.exited != "" {
		ex = c.exited
	}
	if c.stuck != "" {
		st = c.stuck
		c.g.stuck++
	}
	b := func(x bool) int {
		if x {
			return 1
		}
		return 0
	}
	c.node.mu.Lock()
	sub := c.node.subCrit
	c.node.mu.Unlock()
	if sub == "" {
		sub = "-"
	}
	tag := c.tag
	if tag == "" {
		tag = "-"
	}
	tried := c.tried
	if tried == "" {
		tried = "-"
	}
	c.emit(fmt.Sprintf("start %s contract=%s chain=%d dev=%d wait=%d %s gserr=%d pe=%d nn=%d topic=%s tag=%s tried=%s sub=%s exit=%s stuck=%s", c.id,
		hex.EncodeToString(c.contract[:]), uint16(c.chain), b(c.dev), b(c.wait), c.headsCanon(), b(gsErr), c.startPe, b(c.startNN),
		hex.EncodeToString(LogMessagePublishedTopic[:]), tag, tried, sub, ex, st))
	return ok
}

func (c *vCase) dead() bool { return c.exited != "" || c.stuck != "" }

func (g *vgen) wsCase(t *testing.T, i int) {
	r := g.r
	c := g.newCase(t, fmt.Sprintf("ws%d", i))
	gsErr := r.Intn(60) == 0
	if !gsErr && g.startErrs > 0 && r.Intn(g.startErrOneIn) == 0 {
		// the block poller's very first query fails (the supervisor runs the poller again after its back-off)
		g.startErrs--
		c.startPe, c.startNN = 1, r.Intn(2) == 0
	}
	ok := c.startLine(gsErr)
	defer c.stop()
	if !ok {
		return
	}
	var truth []*vTruth
	var moved []*vTruth
	nops := 5 + r.Intn(22)
	pick := func(x vTxRef) vRcAns {
		a := g.answer(x)
		if a.kind == "r" && a.status == 1 && a.bh != x.bh {
			// remember where the tx went so that it can be observed again in its new block
			for _, tr := range truth {
				if tr.tx == x.tx {
					moved = append(moved, &vTruth{tx: tr.tx, bh: a.bh, bn: *a.bn, msgs: tr.msgs, bt: tr.bt})
					break
				}
			}
		}
		return a
	}
	for op := 0; op < nops; op++ {
		if c.dead() {
			// Run has returned with an RPC-induced error: now and then the supervisor gets to restart it and the history goes on
			restartable := c.exited == "blocktime" || c.exited == "headsub" || c.exited == "logsub"
			if c.stuck != "" || !restartable || g.restarts <= 0 || r.Intn(g.restartOneIn) != 0 {
				break
			}
			g.restarts--
			c.opRestart(false, 0, false, pick)
			continue
		}
		pend, en := c.pendingSnapshot()
		W := c.watched()
		var choice int
		if len(pend) == 0 {
			choice = g.pick(60, 12, 22, 0, 6)
		} else {
			choice = g.pick(18, 55, 14, 8, 5, 7)
		}
		if choice == 5 && !en {
			choice = 1
		}
		if choice == 3 && len(moved) == 0 {
			choice = 1
		}
		if choice == 4 && len(truth) == 0 {
			choice = 0
		}
		switch choice {
		case 0: // a new transaction with 1..3 messages is logged
			off := int64(r.Intn(7)) - 3
			if r.Intn(3) == 0 {
				off = int64(r.Intn(int(c.gapF)+4)) - 1
			}
			h := int64(W) + off
			if h < 0 {
				h = 0
			}
			tr := &vTruth{tx: g.hash(0xaa), bh: g.hash(0xbb), bn: uint64(h), bt: uint64(1600000000 + r.Intn(100000000))}
			truth = append(truth, tr)
			nm := 1 + g.pick(6, 2, 1)
			for k := 0; k < nm && !c.dead(); k++ {
				m := g.msgSpec()
				tr.msgs = append(tr.msgs, m)
				l := vLogSpec{tx: tr.tx, bh: tr.bh, bn: tr.bn, m: m, bt: vBtAns{kind: "ok", t: tr.bt}, removed: r.Intn(30) == 0}
				switch g.pick(96, 2, 2, 1) {
				case 1:
					l.bt = vBtAns{kind: "null"}
				case 2:
					l.bt = vBtAns{kind: "err"}
				case 3:
					l.badData = true
				}
				c.opLog(l, pick)
			}
		case 1: // the node's head moves
			lat := c.lat
			gap := uint64(0)
			if strings.Contains(c.tag, "finalized") {
				gap = c.gapF
			}
			switch g.pick(28, 14, 38, 8, 5, 5, 2) {
			case 0:
				lat++
			case 1:
				lat += uint64(2 + r.Intn(5))
			case 2: // land on a boundary of some pending message
				if len(pend) > 0 {
					keys := make([]pendingKey, 0, len(pend))
					for k := range pend {
						keys = append(keys, k)
					}
					sort.Slice(keys, func(i, j int) bool { return vKeyCanon(keys[i]) < vKeyCanon(keys[j]) })
					best := pend[keys[r.Intn(len(keys))]]
					cl := uint64(best.message.ConsistencyLevel)
					cands := []uint64{best.height + cl - 1, best.height + cl, best.height + cl + 1, best.height + cl + 59, best.height + cl + 60,
						best.height + cl + 61, best.height, best.height + 59, best.height + 60, best.height + 61, best.height + cl + 120}
					tgt := cands[r.Intn(len(cands))]
					if tgt+gap > lat {
						lat = tgt + gap
					} else {
						lat++
					}
				} else {
					lat++
				}
			case 3:
				lat += uint64(62 + r.Intn(400))
			case 4: // stall
			case 5:
				d := uint64(1 + r.Intn(3))
				if lat > d {
					lat -= d
				}
			case 6:
				lat += uint64(5000 + r.Intn(100000))
			}
			pe := 0
			if en {
				switch g.pick(94, 4, 2) {
				case 1:
					pe = 1 + r.Intn(2)
				case 2:
					pe = 3
				}
			}
			c.opHead(lat, pe, r.Intn(2) == 0, pick)
		case 2, 4: // re-observation request
			if !en && c.flushed && r.Intn(3) == 0 {
				// ... during which the node changes branch (the poller is off and idle: every head query is the re-observation's)
				c.opReorgReobs(g.reorgReobs(c, W), pick)
				break
			}
			c.opReobs(g.reobs(c, truth, choice == 4, en, W), pick)
		case 5: // a new message is logged while the watcher is processing a head at which a pending message has reached its depth
			keys := make([]pendingKey, 0, len(pend))
			for k := range pend {
				keys = append(keys, k)
			}
			sort.Slice(keys, func(i, j int) bool { return vKeyCanon(keys[i]) < vKeyCanon(keys[j]) })
			best := pend[keys[r.Intn(len(keys))]]
			tgt := best.height
			if c.wait {
				tgt += uint64(best.message.ConsistencyLevel)
			}
			if tgt <= c.lastPub {
				tgt = c.lastPub + 1
			}
			tgt += uint64(g.pick(5, 2, 1, 1)) * uint64(1+r.Intn(40))
			lat := tgt
			if strings.Contains(c.tag, "finalized") {
				lat += c.gapF
			}
			tr := &vTruth{tx: g.hash(0xaa), bh: g.hash(0xbb), bn: tgt + uint64(r.Intn(4)), bt: uint64(1600000000 + r.Intn(100000000))}
			if r.Intn(3) == 0 && tgt > 3 {
				tr.bn = tgt - uint64(r.Intn(3))
			}
			truth = append(truth, tr)
			m := g.msgSpec()
			tr.msgs = append(tr.msgs, m)
			c.opRace(vLogSpec{tx: tr.tx, bh: tr.bh, bn: tr.bn, m: m, bt: vBtAns{kind: "ok", t: tr.bt}}, lat, pick)
		case 3: // a transaction that moved is observed again in its new block
			tr := moved[r.Intn(len(moved))]
			for _, m := range tr.msgs {
				if c.dead() {
					break
				}
				c.opLog(vLogSpec{tx: tr.tx, bh: tr.bh, bn: tr.bn, m: m, bt: vBtAns{kind: "ok", t: tr.bt}}, pick)
			}
		}
	}
	if c.stuck != "" {
		g.stuck++
	}
}

func (g *vgen) reobs(c *vCase, truth []*vTruth, known bool, en bool, W uint64) vReobs {
	r := g.r
	ro := vReobs{tx: g.hash(0xaa), bt: vBtAns{kind: "ok", t: uint64(1600000000 + r.Intn(100000000))}}
	var msgs []vMsgSpec
	if known && len(truth) > 0 {
		tr := truth[r.Intn(len(truth))]
		ro.tx = tr.tx
		msgs = tr.msgs
	} else {
		for k := g.pick(1, 5, 2, 1); k > 0; k-- {
			msgs = append(msgs, g.msgSpec())
		}
	}
	// depth: place the block so that bn + conf is at a chosen distance from the head the watcher reads
	conf := uint64(0)
	if c.wait && len(msgs) > 0 {
		conf = uint64(msgs[r.Intn(len(msgs))].cl)
	}
	var bn uint64
	d := []int64{-2, -1, 0, 0, 1, 2, 30, 1000}[r.Intn(8)]
	if x := int64(W) - int64(conf) - d; x >= 0 {
		bn = uint64(x)
	}
	bh := g.hash(0xbb)
	var logs []*ethTypes.Log
	other := func() ethCommon.Address {
		a := c.contract
		a[r.Intn(20)] ^= byte(1 + r.Intn(255))
		return a
	}
	mk := func(addr ethCommon.Address, topic0 *ethCommon.Hash, m vMsgSpec, trunc bool) *ethTypes.Log {
		var st ethCommon.Hash
		copy(st[12:], m.sender[:])
		l := &ethTypes.Log{Address: addr, Data: vPackData(m), BlockNumber: bn, TxHash: ro.tx, BlockHash: bh}
		if topic0 != nil {
			l.Topics = []ethCommon.Hash{*topic0, st}
		} else {
			l.Topics = []ethCommon.Hash{}
		}
		if trunc {
			l.Data = l.Data[:len(l.Data)-9]
		}
		return l
	}
	topic := LogMessagePublishedTopic
	for _, m := range msgs {
		for r.Intn(3) == 0 { // decoys in front of / between real logs
			switch g.pick(3, 3, 2, 1, 1) {
			case 0: // look-alike from another contract
				logs = append(logs, mk(other(), &topic, g.msgSpec(), false))
			case 1: // another event of the core contract
				t2 := g.hash(0xcd)
				if r.Intn(2) == 0 {
					t2 = topic
					t2[31] ^= 1
				}
				logs = append(logs, mk(c.contract, &t2, g.msgSpec(), false))
			case 2: // topic-less log of another contract (must be skipped before Topics[0] is read)
				logs = append(logs, mk(other(), nil, g.msgSpec(), false))
			case 3:
				logs = append(logs, nil)
			case 4: // core contract, right topic, undecodable data
				if r.Intn(3) == 0 {
					logs = append(logs, mk(c.contract, &topic, g.msgSpec(), true))
				}
			}
		}
		logs = append(logs, mk(c.contract, &topic, m, false))
	}
	ro.rc = vRcAns{kind: "r", status: 1, bh: bh, bn: &bn, logs: logs}
	switch g.pick(78, 6, 3, 5, 3, 5) {
	case 1:
		ro.rc = vRcAns{kind: "null"}
	case 2:
		ro.rc = vRcAns{kind: "nf"}
	case 3:
		ro.rc = vRcAns{kind: "err"}
	case 4:
		ro.rc = vRcAns{kind: []string{"bad0", "bad1"}[r.Intn(2)], bh: bh}
	case 5:
		ro.rc.status = uint64([]int{0, 0, 2, 255}[r.Intn(4)])
	}
	switch g.pick(92, 4, 4) {
	case 1:
		ro.bt = vBtAns{kind: "null"}
	case 2:
		ro.bt = vBtAns{kind: "err"}
	}
	if !en && r.Intn(14) == 0 {
		ro.bnErr = true
		ro.noNum = r.Intn(2) == 0
	}
	if !ro.bnErr && r.Intn(7) == 0 {
		// the head moves past the required depth while the receipt request is in flight
		ro.bumpTo = c.lat + uint64(1+r.Intn(300))
	}
	return ro
}

// fixed scenarios: the suspected defect and its control, every boundary of the abandonment window, both modes
func (g *vgen) scenarioCases(t *testing.T) {
	type sc struct {
		chain      vaa.ChainID
		dev, wait  bool
		gapF       uint64
		h          uint64
		cl         uint8
		heads      []uint64 // watched heads in order
		answers    []string // per head: ok | err | null | moved | failed
		relogAfter int      // -1: none; else index of head after which the log is delivered again
	}
	var scs []sc
	for _, wait := range []bool{true, false} {
		for _, chain := range []vaa.ChainID{vaa.ChainIDBSC, vaa.ChainIDEthereum} {
			for _, cl := range []uint8{0, 2, 15, 200} {
				conf := uint64(0)
				if wait {
					conf = uint64(cl)
				}
				h := uint64(101)
				gap := uint64(0)
				if chain == vaa.ChainIDEthereum {
					gap = 13
				}
				for _, jump := range []uint64{0, 1, 9, 59, 60, 61, 70, 500} {
					scs = append(scs, sc{chain, false, wait, gap, h, cl, []uint64{h + conf + jump, h + conf + jump + 1}, []string{"ok", "ok"}, -1})
				}
				// one below ready, then far beyond the window in one step
				scs = append(scs, sc{chain, false, wait, gap, h, cl, []uint64{h + conf - 1 + 1 - 1, h + conf + 64}, []string{"ok", "ok"}, -1})
				// transient errors through the whole window, then success / still failing at the window's end
				scs = append(scs, sc{chain, false, wait, gap, h, cl, []uint64{h + conf, h + conf + 30, h + conf + 59, h + conf + 60}, []string{"err", "err", "err", "ok"}, -1})
				scs = append(scs, sc{chain, false, wait, gap, h, cl, []uint64{h + conf, h + conf + 59, h + conf + 60, h + conf + 61}, []string{"err", "err", "err", "ok"}, -1})
				scs = append(scs, sc{chain, false, wait, gap, h, cl, []uint64{h + conf, h + conf + 1, h + conf + 2}, []string{"err", "ok", "ok"}, -1})
				// dropped, then observed again
				scs = append(scs, sc{chain, false, wait, gap, h, cl, []uint64{h + conf, h + conf + 1, h + conf + 2}, []string{"moved", "ok", "ok"}, 0})
				scs = append(scs, sc{chain, false, wait, gap, h, cl, []uint64{h + conf, h + conf + 3}, []string{"null", "ok"}, -1})
				scs = append(scs, sc{chain, false, wait, gap, h, cl, []uint64{h + conf, h + conf + 3}, []string{"failed", "ok"}, -1})
				// forwarded, delivered again, forwarded again (exactly once per delivery)
				scs = append(scs, sc{chain, false, wait, gap, h, cl, []uint64{h + conf, h + conf + 1, h + conf + 2}, []string{"ok", "ok", "ok"}, 0})
			}
		}
	}
	for i, s := range scs {
		if g.stuck >= 3 {
			break // the implementation deviates (already reported as `stuck`); do not wait out the watchdog hundreds of times
		}
		c := &vCase{t: t, g: g, id: fmt.Sprintf("sc%d", i), chain: s.chain, dev: s.dev, wait: s.wait, gapF: s.gapF, gapS: s.gapF / 2}
		g.r.Read(c.contract[:])
		c.lat = 90 + s.gapF
		if !c.startLine(false) {
			c.stop()
			continue
		}
		tx, bh := g.hash(0xaa), g.hash(0xbb)
		m := g.msgSpec()
		m.cl = s.cl
		cur := "ok"
		pick := func(x vTxRef) vRcAns {
			bn := x.bn
			switch cur {
			case "err":
				return vRcAns{kind: "err"}
			case "null":
				return vRcAns{kind: "null"}
			case "moved":
				return vRcAns{kind: "r", status: 1, bh: g.hash(0xbc), bn: &bn}
			case "failed":
				return vRcAns{kind: "r", status: 0, bh: x.bh, bn: &bn}
			}
			return vRcAns{kind: "r", status: 1, bh: x.bh, bn: &bn}
		}
		l := vLogSpec{tx: tx, bh: bh, bn: s.h, m: m, bt: vBtAns{kind: "ok", t: 1700000000}}
		c.opLog(l, pick)
		for k, hd := range s.heads {
			if c.dead() {
				break
			}
			cur = s.answers[k]
			c.opHead(hd+s.gapF, 0, false, pick)
			if s.relogAfter == k && !c.dead() {
				cur = "ok"
				c.opLog(l, pick)
			}
		}
		if c.stuck != "" {
			g.stuck++
		}
		c.stop()
	}
}

// fixed scenarios: message B is logged while the head at which message A has reached its depth is being processed (the node is
// slow to answer A's receipt request); both transactions stay in their blocks; later heads must forward B exactly once.
// keeper: a third message far from its depth keeps the pending set (and the poller) alive whatever happens to A and B.
func (g *vgen) raceCases(t *testing.T) {
	i := 0
	for _, wait := range []bool{true, false} {
		for _, chain := range []vaa.ChainID{vaa.ChainIDBSC, vaa.ChainIDEthereum} {
			for _, keeper := range []bool{true, false} {
				for _, aAns := range []string{"ok", "err", "null"} {
					if g.stuck >= 3 {
						return
					}
					gap := uint64(0)
					if chain == vaa.ChainIDEthereum {
						gap = 13
					}
					c := &vCase{t: t, g: g, id: fmt.Sprintf("rc%d", i), chain: chain, wait: wait, gapF: gap, gapS: gap / 2}
					i++
					g.r.Read(c.contract[:])
					c.lat = 90 + gap
					if !c.startLine(false) {
						c.stop()
						continue
					}
					conf := func(cl uint8) uint64 {
						if wait {
							return uint64(cl)
						}
						return 0
					}
					cur := "ok"
					var txA ethCommon.Hash
					pick := func(x vTxRef) vRcAns {
						bn := x.bn
						if x.tx == txA {
							switch cur {
							case "err":
								return vRcAns{kind: "err"}
							case "null":
								return vRcAns{kind: "null"}
							}
						}
						return vRcAns{kind: "r", status: 1, bh: x.bh, bn: &bn}
					}
					mk := func(bn uint64, cl uint8) vLogSpec {
						m := g.msgSpec()
						m.cl = cl
						return vLogSpec{tx: g.hash(0xaa), bh: g.hash(0xbb), bn: bn, m: m, bt: vBtAns{kind: "ok", t: 1700000000 + bn}}
					}
					a := mk(101, 2)
					txA = a.tx
					c.opLog(a, pick)
					if keeper && !c.dead() {
						c.opLog(mk(400, 5), pick)
					}
					b := mk(101+conf(2)+1, 1)
					if !c.dead() {
						cur = aAns
						c.opRace(b, 101+conf(2)+gap, pick)
						cur = "ok"
					}
					for _, hd := range []uint64{b.bn + conf(1), b.bn + conf(1) + 1, b.bn + conf(1) + 70} {
						if c.dead() {
							break
						}
						c.opHead(hd+gap, 0, false, pick)
					}
					if c.stuck != "" {
						g.stuck++
					}
					c.stop()
				}
			}
		}
	}
}

// fixed scenarios: Run returns with an error while messages are pending, and the supervisor restarts it on the same Watcher.
// History: message Z (block 95, cl 0) and message A (block 101, cl 2) are logged at head 90; head 100 (Z is forwarded where its
// depth is reached, A is not deep enough); then the fault:
//   blocktime - the block-time lookup for the log of another message B fails (eth_getBlockByHash error / null block),
//   logsub    - an undecodable log ends the log subscription,
//   headsub   - the head moves past A's depth but eth_getBlockByNumber fails three times in a row (head subscription error),
//   retry     - as blocktime, after A's receipt lookup had failed with a transient error at a head past its depth;
// the supervisor restarts Run (`twice`: the first restarted incarnation fails on its guardian-set call and is restarted again);
// the head moves on while the new poller is still off; the log of a new message C switches the poller on; later heads.
// All transactions stay in their blocks and every receipt lookup after the restart succeeds: A (and C) must be forwarded exactly once
// after their depth is reached, Z never again.
func (g *vgen) restartCases(t *testing.T, quick bool) {
	type sc struct {
		cause string
		wait  bool
		chain vaa.ChainID
		twice bool
	}
	var scs []sc
	for i, cause := range []string{"blocktime", "headsub", "logsub", "retry", "btnull", "headsub-nonum"} {
		for j, wait := range []bool{true, false} {
			chain := []vaa.ChainID{vaa.ChainIDBSC, vaa.ChainIDEthereum}[(i+j)%2]
			if quick && i >= 3 {
				continue
			}
			scs = append(scs, sc{cause, wait, chain, false})
			if !quick {
				scs = append(scs, sc{cause, wait, []vaa.ChainID{vaa.ChainIDBSC, vaa.ChainIDEthereum}[(i+j+1)%2], false})
			}
		}
	}
	scs = append(scs, sc{"blocktime", true, vaa.ChainIDBSC, true})
	if !quick {
		scs = append(scs, sc{"headsub", false, vaa.ChainIDEthereum, true})
	}
	for i, s := range scs {
		if g.stuck >= 3 {
			return
		}
		gap := uint64(0)
		if s.chain == vaa.ChainIDEthereum {
			gap = 13
		}
		c := &vCase{t: t, g: g, id: fmt.Sprintf("rs%d", i), chain: s.chain, wait: s.wait, gapF: gap, gapS: gap / 2}
		g.r.Read(c.contract[:])
		c.lat = 90 + gap
		if !c.startLine(false) {
			c.stop()
			continue
		}
		conf := func(cl uint8) uint64 {
			if s.wait {
				return uint64(cl)
			}
			return 0
		}
		cur := "ok"
		var txA ethCommon.Hash
		pick := func(x vTxRef) vRcAns {
			bn := x.bn
			if x.tx == txA && cur == "err" {
				return vRcAns{kind: "err"}
			}
			return vRcAns{kind: "r", status: 1, bh: x.bh, bn: &bn}
		}
		mk := func(bn uint64, cl uint8) vLogSpec {
			m := g.msgSpec()
			m.cl = cl
			return vLogSpec{tx: g.hash(0xaa), bh: g.hash(0xbb), bn: bn, m: m, bt: vBtAns{kind: "ok", t: 1700000000 + bn}}
		}
		step := func(f func()) {
			if !c.dead() {
				f()
			}
		}
		z, a := mk(95, 0), mk(101, 2)
		txA = a.tx
		c.opLog(z, pick)
		step(func() { c.opLog(a, pick) })
		step(func() { c.opHead(100+gap, 0, false, pick) })
		ready := 101 + conf(2)
		W := uint64(100)
		switch s.cause {
		case "blocktime", "btnull", "logsub":
			b := mk(100, 1)
			if s.cause == "logsub" {
				b.badData = true
			} else if s.cause == "btnull" {
				b.bt = vBtAns{kind: "null"}
			} else {
				b.bt = vBtAns{kind: "err"}
			}
			step(func() { c.opLog(b, pick) })
		case "retry":
			W = ready + 1
			cur = "err"
			step(func() { c.opHead(W+gap, 0, false, pick) })
			b := mk(W, 1)
			b.bt = vBtAns{kind: "err"}
			step(func() { c.opLog(b, pick) })
			cur = "ok"
		default: // headsub
			W = ready + 3
			step(func() { c.opHead(W+gap, 3, s.cause == "headsub-nonum", pick) })
		}
		if c.exited != "" && c.stuck == "" {
			if s.twice {
				c.opRestart(true, 0, false, pick)
			}
			if c.stuck == "" {
				// (one scenario: the restarted incarnation's poller fails its first block query and is run again)
				pe := 0
				if s.twice || (!quick && i%4 == 1) {
					pe = 1
				}
				c.opRestart(false, pe, i%2 == 1, pick)
			}
			// the poller of the new incarnation is off until the next log arrives
			W += 2
			step(func() { c.opHead(W+gap, 0, false, pick) })
			cm := mk(W, 1)
			step(func() { c.opLog(cm, pick) })
			for _, hd := range []uint64{ready + 4, W + conf(1), W + conf(1) + 1, W + conf(1) + 70} {
				if hd > W {
					W = hd
					step(func() { c.opHead(W+gap, 0, false, pick) })
				}
			}
		}
		if c.stuck != "" {
			g.stuck++
		}
		c.stop()
	}
}

// fixed scenarios: re-observation requests on a chain read at finalized height (and, as control, the same history read at latest
// height): a successful core-contract transaction in a block below / at / above the finalized head, at / above the latest head;
// then finality catches up and the request is repeated.
func (g *vgen) finReobsCases(t *testing.T) {
	i := 0
	for _, dev := range []bool{false, true} {
		for _, wait := range []bool{false, true} {
			for _, off := range []int64{-1, 0, 1, 21, 32, 33} { // block number relative to the finalized head 100 (latest 132)
				if g.stuck >= 3 {
					return
				}
				c := &vCase{t: t, g: g, id: fmt.Sprintf("fr%d", i), chain: vaa.ChainIDEthereum, dev: dev, wait: wait, gapF: 32, gapS: 16}
				i++
				g.r.Read(c.contract[:])
				c.lat = 132
				if !c.startLine(false) {
					c.stop()
					continue
				}
				bn := uint64(100 + off)
				m := g.msgSpec()
				m.cl = uint8(g.r.Intn(2))
				bh := g.hash(0xbb)
				ro := vReobs{tx: g.hash(0xaa), bt: vBtAns{kind: "ok", t: 1700000000 + bn}}
				var st ethCommon.Hash
				copy(st[12:], m.sender[:])
				ro.rc = vRcAns{kind: "r", status: 1, bh: bh, bn: &bn, logs: []*ethTypes.Log{{Address: c.contract,
					Topics: []ethCommon.Hash{LogMessagePublishedTopic, st}, Data: vPackData(m), BlockNumber: bn, TxHash: ro.tx, BlockHash: bh}}}
				c.opReobs(ro, g.goodAnswer)
				for _, lat := range []uint64{bn + 32 + uint64(m.cl) - 1, bn + 32 + uint64(m.cl)} {
					if c.dead() {
						break
					}
					if lat > c.lat {
						c.opHead(lat, 0, false, g.goodAnswer)
					}
					if !c.dead() {
						c.opReobs(ro, g.goodAnswer)
					}
				}
				if c.stuck != "" {
					g.stuck++
				}
				c.stop()
			}
		}
	}
}

// vRelocate: the same logs as they appear in the receipt of another block.
func vRelocate(logs []*ethTypes.Log, bh ethCommon.Hash, bn uint64) []*ethTypes.Log {
	out := make([]*ethTypes.Log, len(logs))
	for i, l := range logs {
		if l != nil {
			x := *l
			x.BlockHash, x.BlockNumber = bh, bn
			out[i] = &x
		}
	}
	return out
}

// a generated re-observation request during which the node changes branch (see vReorg): any position of the change among
// the request's RPC requests, the transaction gone / re-mined in another block (0..3 higher) / failed there / untouched, the
// heads moving up (just past the depth the message needs, a little, a lot) or down.
func (g *vgen) reorgReobs(c *vCase, W uint64) vReorg {
	r := g.r
	ro := g.reobs(c, nil, false, true, W)
	for ro.rc.kind != "r" || ro.rc.bn == nil {
		ro = g.reobs(c, nil, false, true, W)
	}
	x := vReorg{tx: ro.tx, k: r.Intn(5), rcA: ro.rc, btA: ro.bt, rcB: vRcAns{kind: "null"}, btB: vBtAns{kind: "null"}}
	bn := *ro.rc.bn
	moved := func(status uint64) {
		nb := bn + uint64(r.Intn(4))
		bh := g.hash(0xbc)
		x.rcB = vRcAns{kind: "r", status: status, bh: bh, bn: &nb, logs: vRelocate(ro.rc.logs, bh, nb)}
		x.btB = vBtAns{kind: "ok", t: ro.bt.t + 12}
		if ro.bt.kind != "ok" {
			x.btB.t = uint64(1600000000 + r.Intn(100000000))
		}
	}
	switch g.pick(5, 3, 2, 1) {
	case 1:
		moved(1)
	case 2:
		x.rcB, x.btB = x.rcA, x.btA
	case 3:
		moved(0)
	}
	// heads after the change
	maxCl := uint64(0)
	if c.wait {
		for _, l := range ro.rc.logs {
			if l != nil && l.Address == c.contract && len(l.Data) >= 160 {
				if cl := uint64(l.Data[159]); cl > maxCl {
					maxCl = cl
				}
			}
		}
	}
	lat := c.lat
	switch g.pick(5, 3, 2, 2, 1) {
	case 0: // the watched head lands at the depth the deepest-waiting message needs (or just around it)
		gap := c.lat - W
		tgt := bn + maxCl + uint64(r.Intn(3))
		if r.Intn(4) == 0 && tgt > 0 {
			tgt--
		}
		lat = tgt + gap
	case 1:
		lat += uint64(1 + r.Intn(5))
	case 2:
		d := uint64(1 + r.Intn(3))
		if lat > d {
			lat -= d
		}
	case 3:
		lat += uint64(30 + r.Intn(300))
	}
	x.latB = lat
	return x
}

// fixed scenarios: the poller's very first block query fails on a chain read at finalized height (dev mode = the same chain read
// at latest height, as control). Finalized 100 / latest 132. A message is logged in block 105 (not final); finality advances
// to 101 (must wait), a re-observation request names a transaction in block 104 (not final either: must be ignored), finality
// reaches 105 and 106: the message is forwarded where its depth is reached under the FINALIZED head, exactly once.
func (g *vgen) finStartCases(t *testing.T, quick bool) {
	type sc struct{ dev, wait, nn bool }
	scs := []sc{{false, false, false}, {false, true, true}, {true, false, false}}
	if !quick {
		scs = append(scs, sc{false, false, true}, sc{false, true, false}, sc{true, true, true})
	}
	for i, s := range scs {
		if g.stuck >= 3 {
			return
		}
		c := &vCase{t: t, g: g, id: fmt.Sprintf("fs%d", i), chain: vaa.ChainIDEthereum, dev: s.dev, wait: s.wait, gapF: 32, gapS: 16,
			startPe: 1, startNN: s.nn}
		g.r.Read(c.contract[:])
		c.lat = 132
		if !c.startLine(false) {
			c.stop()
			continue
		}
		m := g.msgSpec()
		m.cl = 1
		l := vLogSpec{tx: g.hash(0xaa), bh: g.hash(0xbb), bn: 105, m: m, bt: vBtAns{kind: "ok", t: 1700000105}}
		c.opLog(l, g.goodAnswer)
		step := func(f func()) {
			if !c.dead() {
				f()
			}
		}
		step(func() { c.opHead(133, 0, false, g.goodAnswer) })
		step(func() {
			bn := uint64(104)
			m2 := g.msgSpec()
			m2.cl = 0
			bh := g.hash(0xbb)
			ro := vReobs{tx: g.hash(0xaa), bt: vBtAns{kind: "ok", t: 1700000104}}
			var st ethCommon.Hash
			copy(st[12:], m2.sender[:])
			ro.rc = vRcAns{kind: "r", status: 1, bh: bh, bn: &bn, logs: []*ethTypes.Log{{Address: c.contract,
				Topics: []ethCommon.Hash{LogMessagePublishedTopic, st}, Data: vPackData(m2), BlockNumber: bn, TxHash: ro.tx, BlockHash: bh}}}
			c.opReobs(ro, g.goodAnswer)
		})
		for _, lat := range []uint64{137, 138, 139} {
			lat := lat
			step(func() { c.opHead(lat, 0, false, g.goodAnswer) })
		}
		if c.stuck != "" {
			g.stuck++
		}
		c.stop()
	}
}

// fixed scenarios: re-observation requests during which the node changes branch. One Run per configuration; per scenario a
// fresh transaction T with one message (cl 2) and a change of branch after k = 0..3 of the request's RPC requests:
//   profile 0 - T not deep enough before the change (on the chain read at finalized height: in a block above the finalized
//               head), the head beyond T's depth after it;
//   profile 1 - T deep enough before the change, the head below T's depth after it;
//   profile 2 - not deep enough before or after;
// after the change T is gone (orphaned) or re-mined one block higher. Heights grow from scenario to scenario so that no head
// served earlier in the case reaches a later scenario's depth.
func (g *vgen) reorgReobsCases(t *testing.T) {
	type cfg struct {
		chain vaa.ChainID
		wait  bool
		gap   uint64
	}
	for ci, cf := range []cfg{{vaa.ChainIDBSC, true, 0}, {vaa.ChainIDEthereum, false, 8}, {vaa.ChainIDEthereum, true, 8}, {vaa.ChainIDBSC, false, 0}} {
		if g.stuck >= 3 {
			return
		}
		c := &vCase{t: t, g: g, id: fmt.Sprintf("rr%d", ci), chain: cf.chain, wait: cf.wait, gapF: cf.gap, gapS: cf.gap / 2}
		g.r.Read(c.contract[:])
		c.lat = 900 + cf.gap
		if !c.startLine(false) {
			c.stop()
			continue
		}
		conf := uint64(0)
		if cf.wait {
			conf = 2
		}
		i := uint64(0)
		for _, profile := range []int{0, 1, 2} {
			for _, gone := range []bool{true, false} {
				for k := 0; k <= 3; k++ {
					if c.dead() {
						break
					}
					base := 1000 + 20*i
					i++
					c.opHead(base+cf.gap, 0, false, g.goodAnswer)
					if c.dead() {
						break
					}
					bn := base
					if cf.gap > 0 {
						bn = base + 1
					}
					wb := bn + conf + 1
					switch profile {
					case 1:
						bn = base - conf - 1
						wb = bn + conf - 1
					case 2:
						wb = bn + conf - 1
					}
					m := g.msgSpec()
					m.cl = 2
					tx, bh := g.hash(0xaa), g.hash(0xbb)
					var st ethCommon.Hash
					copy(st[12:], m.sender[:])
					logs := []*ethTypes.Log{{Address: c.contract, Topics: []ethCommon.Hash{LogMessagePublishedTopic, st}, Data: vPackData(m),
						BlockNumber: bn, TxHash: tx, BlockHash: bh}}
					x := vReorg{tx: tx, k: k, rcA: vRcAns{kind: "r", status: 1, bh: bh, bn: &bn, logs: logs}, btA: vBtAns{kind: "ok", t: 1700000000 + bn},
						rcB: vRcAns{kind: "null"}, btB: vBtAns{kind: "null"}, latB: wb + cf.gap}
					if !gone {
						nb, bh2 := bn+1, g.hash(0xbc)
						x.rcB = vRcAns{kind: "r", status: 1, bh: bh2, bn: &nb, logs: vRelocate(logs, bh2, nb)}
						x.btB = vBtAns{kind: "ok", t: 1700000012 + bn}
					}
					c.opReorgReobs(x, g.goodAnswer)
				}
			}
		}
		if c.stuck != "" {
			g.stuck++
		}
		c.stop()
	}
}

// Re-observation (and log delivery) across a reorg that keeps the HEIGHT: "the same message" must be handed over with the time of
// the block its receipt points to at that moment, whatever the watcher has resolved for that height before.  Per configuration one
// Run with growing heights per round: transaction T re-observed in block (N, h1, t1); the chain reorganises and T is re-mined in
// (N, h2, t2) - t2 later, earlier, or far from t1 -: T again; another transaction U of the new block N; the chain flips back to
// (N, h1, t1): T again; T re-mined one block higher (N+1, h3, t3); a block of height N whose time lookup fails, then T there once
// it answers; and the same change of branch DURING one request (step mode, after k = 0..3 of its RPC requests).  Last, on the
// log path: L is logged in (M, hA, tA), the reorg delivers it again in (M, hB, tB), the head reaches its depth while the receipt
// points to hB: forwarded once, with tB.
func (g *vgen) sameHeightCases(t *testing.T) {
	type cfg struct {
		chain vaa.ChainID
		dev   bool
		wait  bool
		gap   uint64
	}
	for ci, cf := range []cfg{{vaa.ChainIDBSC, false, true, 0}, {vaa.ChainIDEthereum, false, false, 8}, {vaa.ChainIDBSC, true, false, 0}} {
		if g.stuck >= 3 {
			return
		}
		c := &vCase{t: t, g: g, id: fmt.Sprintf("sh%d", ci), chain: cf.chain, dev: cf.dev, wait: cf.wait, gapF: cf.gap, gapS: cf.gap / 2}
		g.r.Read(c.contract[:])
		c.lat = 1900 + cf.gap
		if !c.startLine(false) {
			c.stop()
			continue
		}
		gap := cf.gap
		if cf.dev {
			gap = 0
		}
		mkLogs := func(tx, bh ethCommon.Hash, bn uint64, ms []vMsgSpec) []*ethTypes.Log {
			var logs []*ethTypes.Log
			for _, m := range ms {
				var st ethCommon.Hash
				copy(st[12:], m.sender[:])
				logs = append(logs, &ethTypes.Log{Address: c.contract, Topics: []ethCommon.Hash{LogMessagePublishedTopic, st}, Data: vPackData(m),
					BlockNumber: bn, TxHash: tx, BlockHash: bh})
			}
			return logs
		}
		reobs := func(tx, bh ethCommon.Hash, bn uint64, ms []vMsgSpec, bt vBtAns) {
			if c.dead() {
				return
			}
			b := bn
			c.opReobs(vReobs{tx: tx, bt: bt, rc: vRcAns{kind: "r", status: 1, bh: bh, bn: &b, logs: mkLogs(tx, bh, bn, ms)}}, g.goodAnswer)
		}
		for round, dt := range []int64{12, -7, int64(100000 + g.r.Intn(1000000)), 1} {
			if c.dead() {
				break
			}
			base := uint64(2000 + 40*round)
			c.opHead(base+gap, 0, false, g.goodAnswer)
			msT := []vMsgSpec{g.msgSpec()}
			if round%2 == 1 {
				msT = append(msT, g.msgSpec())
			}
			for i := range msT {
				msT[i].cl = uint8(g.r.Intn(3))
			}
			msU := []vMsgSpec{g.msgSpec()}
			msU[0].cl = 1
			bn := base - 5
			T, U := g.hash(0xaa), g.hash(0xaa)
			h1, h2, h3, h4 := g.hash(0xbb), g.hash(0xbb), g.hash(0xbb), g.hash(0xbb)
			t1 := uint64(1700000000 + 100*int64(round) + int64(g.r.Intn(50)))
			t2 := uint64(int64(t1) + dt)
			ok := func(t uint64) vBtAns { return vBtAns{kind: "ok", t: t} }
			reobs(T, h1, bn, msT, ok(t1))
			reobs(T, h2, bn, msT, ok(t2))
			reobs(U, h2, bn, msU, ok(t2))
			reobs(T, h1, bn, msT, ok(t1))
			reobs(T, h3, bn+1, msT, ok(t2+12))
			reobs(T, h4, bn, msT, vBtAns{kind: []string{"err", "null"}[round%2]})
			reobs(T, h4, bn, msT, ok(t2+1))
			// the change of branch inside one request
			if !c.dead() {
				V := g.hash(0xaa)
				hA, hB := g.hash(0xbb), g.hash(0xbc)
				b1, b2 := bn+2, bn+2
				logs := mkLogs(V, hA, b1, msU)
				c.opReorgReobs(vReorg{tx: V, k: round, rcA: vRcAns{kind: "r", status: 1, bh: hA, bn: &b1, logs: logs}, btA: ok(t1 + 24),
					rcB: vRcAns{kind: "r", status: 1, bh: hB, bn: &b2, logs: vRelocate(logs, hB, b2)}, btB: ok(uint64(int64(t1+24) + dt)), latB: base + gap}, g.goodAnswer)
			}
		}
		// the log path
		if !c.dead() {
			base := uint64(2400)
			c.opHead(base+gap, 0, false, g.goodAnswer)
			m := g.msgSpec()
			m.cl = 2
			conf := uint64(0)
			if cf.wait {
				conf = 2
			}
			L, hA, hB := g.hash(0xaa), g.hash(0xbb), g.hash(0xbb)
			M := base + 1
			pick := func(x vTxRef) vRcAns {
				b := M
				return vRcAns{kind: "r", status: 1, bh: hB, bn: &b}
			}
			c.opLog(vLogSpec{tx: L, bh: hA, bn: M, m: m, bt: vBtAns{kind: "ok", t: 1700009000}}, pick)
			if !c.dead() {
				c.opLog(vLogSpec{tx: L, bh: hB, bn: M, m: m, bt: vBtAns{kind: "ok", t: 1700009013}}, pick)
			}
			for _, hd := range []uint64{M + conf, M + conf + 1} {
				if !c.dead() {
					c.opHead(hd+gap, 0, false, pick)
				}
			}
		}
		if c.stuck != "" {
			g.stuck++
		}
		c.stop()
	}
}

// re-observation while the node's head is 0 ("no block number available"), then again once it has moved
func (g *vgen) zeroHeadCases(t *testing.T) {
	for i, wait := range []bool{false, true} {
		if g.stuck >= 3 {
			break
		}
		c := &vCase{t: t, g: g, id: fmt.Sprintf("z%d", i), chain: vaa.ChainIDBSC, wait: wait}
		g.r.Read(c.contract[:])
		c.lat = 0
		if c.startLine(false) {
			for _, lat := range []uint64{0, 1, 7} {
				if c.dead() {
					break
				}
				if lat != 0 {
					c.opHead(lat, 0, false, g.goodAnswer)
				}
				ro := g.reobs(c, nil, false, false, 0)
				for ro.rc.kind != "r" || len(ro.rc.logs) == 0 {
					ro = g.reobs(c, nil, false, false, 0)
				}
				bn := uint64(0)
				ro.rc.kind, ro.rc.status, ro.rc.bn, ro.bnErr, ro.bumpTo = "r", 1, &bn, false, 0
				ro.bt = vBtAns{kind: "ok", t: 1700000001}
				for _, l := range ro.rc.logs {
					if l != nil {
						l.BlockNumber = 0
					}
				}
				c.opReobs(ro, g.goodAnswer)
			}
		}
		if c.stuck != "" {
			g.stuck++
		}
		c.stop()
	}
}

// ------------------------------------------------------------------------------------------------
// direct layer: scripted Connector

type vConn struct {
	rc      *ethTypes.Receipt
	rcErr   error
	bt      uint64
	btErr   error
	rawAns  string // ok | nonum | err
	rawNum  *big.Int
	rawTags []string
}

func (c *vConn) NetworkName() string                                            { return "verif" }
func (c *vConn) ContractAddress() ethCommon.Address                             { return ethCommon.Address{} }
func (c *vConn) GetCurrentGuardianSetIndex(ctx context.Context) (uint32, error) { return 0, nil }
func (c *vConn) GetGuardianSet(ctx context.Context, index uint32) (ethAbi.StructsGuardianSet, error) {
	return ethAbi.StructsGuardianSet{}, nil
}
func (c *vConn) WatchLogMessagePublished(ctx context.Context, sink chan<- *ethAbi.AbiLogMessagePublished) (ethEvent.Subscription, error) {
	return nil, errors.New("not scripted")
}
func (c *vConn) TransactionReceipt(ctx context.Context, txHash ethCommon.Hash) (*ethTypes.Receipt, error) {
	return c.rc, c.rcErr
}
func (c *vConn) TimeOfBlockByHash(ctx context.Context, hash ethCommon.Hash) (uint64, error) {
	return c.bt, c.btErr
}
func (c *vConn) ParseLogMessagePublished(log ethTypes.Log) (*ethAbi.AbiLogMessagePublished, error) {
	return vFilterer.ParseLogMessagePublished(log)
}
func (c *vConn) SubscribeForBlocks(ctx context.Context, sink chan<- *NewBlock) (ethereum.Subscription, error) {
	return nil, errors.New("not scripted")
}
func (c *vConn) RawCallContext(ctx context.Context, result interface{}, method string, args ...interface{}) error {
	if method != "eth_getBlockByNumber" {
		return errors.New("unexpected method " + method)
	}
	c.rawTags = append(c.rawTags, fmt.Sprint(args[0]))
	switch c.rawAns {
	case "err":
		return errors.New("scripted failure")
	case "nonum":
		return json.Unmarshal([]byte(`{"hash":"0x00000000000000000000000000000000000000000000000000000000000000aa"}`), result)
	}
	return json.Unmarshal([]byte(fmt.Sprintf(`{"number":"0x%s","hash":"0x00000000000000000000000000000000000000000000000000000000000000aa"}`, c.rawNum.Text(16))), result)
}

func vEvt(conn *vConn, contract ethCommon.Address, chain vaa.ChainID, tx ethCommon.Hash) (res string, msgs string) {
	defer func() {
		if e := recover(); e != nil {
			res, msgs = "panic", "-"
		}
	}()
	bn, ms, err := MessageEventsForTransaction(context.Background(), conn, contract, chain, tx)
	if err != nil {
		s := err.Error()
		k := "other"
		switch {
		case strings.HasPrefix(s, "failed to get transaction receipt"):
			k = "receipt"
		case strings.HasPrefix(s, "non-success transaction status"):
			k = "status"
		case strings.HasPrefix(s, "failed to get block time"):
			k = "blocktime"
		case strings.HasPrefix(s, "failed to parse log"):
			k = "parse"
		}
		if ms != nil || bn != 0 {
			k += "+partial"
		}
		return "err." + k, "-"
	}
	out := make([]string, len(ms))
	for i, m := range ms {
		out[i] = vmsg(m)
	}
	return fmt.Sprintf("ok.%d", bn), vjoin(out, ";")
}

func (g *vgen) directCases(t *testing.T, n int) {
	r := g.r
	logger := zap.NewNop()
	for i := 0; i < n; i++ {
		switch g.pick(6, 2, 2) {
		case 0: // MessageEventsForTransaction
			var contract ethCommon.Address
			r.Read(contract[:])
			chain := vaa.ChainID([]uint16{2, 4, 255, 65535}[r.Intn(4)])
			tx, bh := g.hash(0xaa), g.hash(0xbb)
			bn := uint64(r.Intn(1000000))
			conn := &vConn{bt: uint64(1600000000 + r.Intn(100000000))}
			rcerr := "none"
			switch g.pick(80, 4, 4, 6) {
			case 1:
				conn.rcErr, rcerr = rpc.ErrNoResult, "noresult"
			case 2:
				conn.rcErr, rcerr = ethereum.NotFound, "notfound"
			case 3:
				conn.rcErr, rcerr = errors.New("scripted failure"), "other"
			}
			bt := "ok:" + strconv.FormatUint(conn.bt, 10)
			if r.Intn(12) == 0 {
				conn.btErr, bt = errors.New("scripted failure"), "err"
			}
			rcCanon := "nil"
			var logsCanon []string
			if r.Intn(14) != 0 {
				rc := &ethTypes.Receipt{Status: 1, TxHash: tx, BlockHash: bh, BlockNumber: new(big.Int).SetUint64(bn)}
				if r.Intn(9) == 0 {
					rc.Status = uint64([]int{0, 2, 255}[r.Intn(3)])
				}
				if r.Intn(16) == 0 {
					rc.BlockNumber = nil
				}
				if r.Intn(40) == 0 {
					rc.BlockNumber = new(big.Int).Lsh(big.NewInt(1), 64)
					rc.BlockNumber.Add(rc.BlockNumber, big.NewInt(int64(bn)))
				}
				topic := LogMessagePublishedTopic
				nl := g.pick(1, 4, 3, 2, 1)
				for k := 0; k < nl; k++ {
					m := g.msgSpec()
					var st ethCommon.Hash
					copy(st[12:], m.sender[:])
					l := &ethTypes.Log{Address: contract, Topics: []ethCommon.Hash{topic, st}, Data: vPackData(m), BlockNumber: bn, TxHash: tx, BlockHash: bh}
					switch g.pick(60, 8, 8, 5, 5, 4, 4, 3, 3) {
					case 1:
						l.Address[r.Intn(20)] ^= byte(1 + r.Intn(255))
					case 2:
						l.Topics[0][r.Intn(32)] ^= byte(1 + r.Intn(255))
					case 3: // topic-less log of the core contract: index out of range
						l.Topics = nil
					case 4: // topic-less log of another contract
						l.Topics = nil
						l.Address[r.Intn(20)] ^= byte(1 + r.Intn(255))
					case 5:
						l = nil
					case 6:
						l.Data = l.Data[:len(l.Data)-1-r.Intn(40)]
					case 7: // missing indexed topic
						l.Topics = l.Topics[:1]
					case 8: // the log carries another transaction hash than the one asked about
						l.TxHash = g.hash(0xab)
					}
					rc.Logs = append(rc.Logs, l)
					logsCanon = append(logsCanon, vLogCanon(l))
				}
				conn.rc = rc
				a := vRcAns{kind: "r", status: rc.Status, bh: bh}
				if rc.BlockNumber != nil {
					rcCanon = fmt.Sprintf("r.%d.%s.%s", rc.Status, hex.EncodeToString(bh[:]), rc.BlockNumber.String())
				} else {
					rcCanon = a.canon()
				}
			}
			res, msgs := vEvt(conn, contract, chain, tx)
			fmt.Fprintf(g.w, "evt d%d contract=%s chain=%d tx=%s rc=%s rcerr=%s rbt=%s rlogs=%s res=%s msgs=%s\n", i, hex.EncodeToString(contract[:]),
				uint16(chain), hex.EncodeToString(tx[:]), rcCanon, rcerr, bt, vjoin(logsCanon, ";"), res, msgs)
			g.lines++
		case 1: // getBlock: which tag is requested, and what comes back
			conn := &vConn{rawAns: []string{"ok", "ok", "ok", "nonum", "err"}[r.Intn(5)], rawNum: new(big.Int).SetUint64(r.Uint64() >> uint(r.Intn(64)))}
			if r.Intn(10) == 0 {
				conn.rawNum.Lsh(conn.rawNum, 20)
			}
			var number *big.Int
			num := "nil"
			if r.Intn(3) == 0 {
				number = big.NewInt(int64(r.Intn(100000)))
				num = number.String()
			}
			fin, safe := r.Intn(2) == 0, r.Intn(2) == 0
			res := vGetBlock(logger, conn, number, fin, safe)
			fmt.Fprintf(g.w, "gb d%d num=%s fin=%v safe=%v ans=%s n=%s tags=%s res=%s\n", i, num, fin, safe, conn.rawAns, conn.rawNum.String(), vjoin(conn.rawTags, ","), res)
			g.lines++
		case 2: // pollBlocks: one poller step
			last := uint64(r.Intn(1000))
			var nw uint64
			switch g.pick(3, 3, 2, 2) {
			case 0:
				nw = last + 1
			case 1:
				nw = last
			case 2:
				nw = last + uint64(r.Intn(500))
			case 3:
				nw = uint64(r.Intn(int(last) + 1))
			}
			conn := &vConn{rawAns: []string{"ok", "ok", "ok", "ok", "nonum", "err"}[r.Intn(6)], rawNum: new(big.Int).SetUint64(nw)}
			fin, safe := r.Intn(2) == 0, r.Intn(2) == 0
			res, pub := vPollStep(logger, conn, last, fin, safe)
			fmt.Fprintf(g.w, "pb d%d last=%d fin=%v safe=%v ans=%s n=%d tags=%s res=%s pub=%s\n", i, last, fin, safe, conn.rawAns, nw, vjoin(conn.rawTags, ","), res, pub)
			g.lines++
		}
	}
}

func vGetBlock(logger *zap.Logger, conn *vConn, number *big.Int, fin, safe bool) (res string) {
	defer func() {
		if e := recover(); e != nil {
			res = "panic"
		}
	}()
	b, err := getBlock(context.Background(), logger, conn, number, fin, safe)
	if err != nil {
		if b != nil {
			return "err+block"
		}
		return "err"
	}
	return fmt.Sprintf("ok.%s.%v", b.Number.String(), b.Safe)
}

func vPollStep(logger *zap.Logger, conn *vConn, last uint64, fin, safe bool) (res string, pub string) {
	defer func() {
		if e := recover(); e != nil {
			res, pub = "panic", "-"
		}
	}()
	b := &BlockPollConnector{Connector: conn, enabled: &atomic.Bool{}, useFinalized: fin}
	ch := make(chan *NewBlock, 4)
	sub := b.blockFeed.Subscribe(ch)
	defer sub.Unsubscribe()
	nb, err := b.pollBlocks(context.Background(), logger, &NewBlock{Number: new(big.Int).SetUint64(last)}, safe)
	res = "ok."
	if err != nil {
		res = "err."
	}
	if nb == nil {
		res += "nil"
	} else {
		res += nb.Number.String()
	}
	var ps []string
	for {
		select {
		case x := <-ch:
			ps = append(ps, fmt.Sprintf("%s.%v", x.Number.String(), x.Safe))
			continue
		default:
		}
		break
	}
	return res, vjoin(ps, ",")
}

func TestVerifEvm(t *testing.T) {
	out := os.Getenv("VERIF_OUT")
	if out == "" {
		t.Skip("VERIF_OUT not set")
	}
	seed, _ := strconv.ParseInt(os.Getenv("VERIF_SEED"), 10, 64)
	tier := os.Getenv("VERIF_TIER")
	f, err := os.Create(filepath.Join(out, "evm.cases"))
	if err != nil {
		t.Fatal(err)
	}
	defer f.Close()
	g := &vgen{r: rand.New(rand.NewSource(seed)), w: bufio.NewWriterSize(f, 1<<20)}
	defer g.w.Flush()

	nWs, nDirect := 300, 2500
	if tier == "thorough" {
		nWs, nDirect = 3000, 30000
	}
	if v := os.Getenv("VERIF_EVM_WS"); v != "" {
		nWs, _ = strconv.Atoi(v)
	}
	g.restarts, g.restartOneIn = 4, 3
	g.startErrs, g.startErrOneIn = 3, 60
	if tier == "thorough" {
		g.restarts, g.restartOneIn = 150, 4
		g.startErrs, g.startErrOneIn = 60, 40
	}
	if os.Getenv("VERIF_PART") == "c04" {
		// C04's share of this harness ("every honest guardian observing the same message signs the same 32 bytes"): the histories in
		// which one message could be handed over with two different contents
		g.sameHeightCases(t)
		return
	}
	g.directCases(t, nDirect)
	g.w.Flush()
	if os.Getenv("VERIF_EVM_NOSC") == "" {
		g.sameHeightCases(t)
		g.scenarioCases(t)
		g.zeroHeadCases(t)
		g.raceCases(t)
		g.finReobsCases(t)
		g.finStartCases(t, tier != "thorough")
		g.reorgReobsCases(t)
		g.restartCases(t, tier != "thorough")
	}
	for i := 0; i < nWs && g.stuck < 3; i++ {
		g.wsCase(t, i)
	}
	t.Logf("evm harness: %d lines, stuck cases %d, goroutines at end %d, poller flushes %d (%d stack dumps, poller goroutine not found %d times)", g.lines, g.stuck, runtime.NumGoroutine(), vFlushes, vDumps, vNotFound)
}
