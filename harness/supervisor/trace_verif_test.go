//go:build verif

package supervisor

// Correspondence harness for C18, part (ii): scripted services under the REAL supervisor (supervisor.New, the
// real processor goroutine, the real 1 ms GC ticker, real back-off sleeps), run with the race detector.
//
// Every service is an instrumented runnable that follows a script chosen by its dn and by how many times that
// dn has been started: run child groups, signal Healthy / Done, then either fail (error / nil / panic / spurious
// context.Canceled) after a delay or wait for its context; after seeing ctx.Done it may linger before returning.
// Each step is appended to one event log under a mutex that is held ACROSS the supervisor call, so the log
// order is the real order of Signal / RunGroup calls.  The Lean driver (a) evaluates the Spec clauses of C18 on
// the log itself and (b) checks that the model accepts the log (searching over the hidden processor steps).
// The supervisor is built without options, and - scenarios in which no script panics, a second time - with the options
// guardiand passes (WithPropagatePanic): tScenario.opts, optionScenarios, `opts=` in the trace's first line.

import (
	"bufio"
	"context"
	"errors"
	"fmt"
	"math/rand"
	"os"
	"path/filepath"
	"sort"
	"strings"
	"sync"
	"testing"
	"time"

	"go.uber.org/zap"
)

// one incarnation's behaviour
type tScript struct {
	groups  [][]string    // RunGroup calls, in order
	healthy bool          // Signal(Healthy)
	done    bool          // Signal(Done) (after Healthy)
	badSig  bool          // Signal(Done) without Healthy first: panics inside the runnable
	fail    string        // "" = run until cancelled; else nil|other|panic|ctx|wctx : returned after failAfter
	after   time.Duration // delay before the scripted failure
	waitFor string        // additionally wait until this dn has signalled Done (barrier) before failing
	linger  time.Duration // exit latency after ctx.Done was seen
	// after ctx.Done: keep running until a NEWER instance of the same dn is seen running, at most `linger`
	lingerUntilTwin bool
	ctxHow          string // what is returned after ctx.Done: ""/"own" = ctx.Err(), wctx, nil, other
	// A REJECTED batch: after `badAt` of the `groups` have been started (0 = it is the first call, len(groups) = the
	// last) the service makes one more RunGroup call (supervisor.Run when it is a single name) that the supervisor has to
	// refuse AS A WHOLE: `badGroup` holds a name already running under this service (started by an earlier group of the
	// same incarnation) and / or a name without any [a-z0-9_] character, next to any number of fresh valid names.
	// badIgnore=false: the service returns the error at once (`if err := supervisor.RunGroup(..); err != nil { return
	// err }`) - a failure like any other; true: it carries on with its set-up and leaves later as `fail` / `after` say.
	badGroup  []string
	badAt     int
	badIgnore bool
}

type tScenario struct {
	name    string
	scripts map[string][]tScript // dn -> scripts per incarnation (last one repeats; it must be stable)
	init    time.Duration
	max     time.Duration
	deflt   bool // keep the library's default back-off parameters
	// Cancel-inside-the-back-off-window scenarios: the supervisor context is cancelled `cancelDelay` after the
	// `cancelNth`-th exit of `cancelAfter` was logged (no waiting for the tree to settle), and the trace keeps
	// recording until `observe` after the cancellation (longer than the longest back-off that can be pending).
	cancelAfter string
	cancelNth   int
	cancelDelay time.Duration
	observe     time.Duration
	// Upper bound on how long stopAndWatch waits for the running services to return after the cancellation
	// (0 = the scenario deadline).  Only set where every exit latency and back-off of the scenario is shorter by orders
	// of magnitude, so that a service still running after it will evidently never stop.
	stopWait time.Duration
	// Upper bound on how long runScenario waits for the tree to come back to its running configuration (0 = the scenario
	// deadline).  Only set where every back-off and exit latency of the scenario is shorter by orders of magnitude, so
	// that a service which is not back after it will evidently never be started again.
	settleWait time.Duration
	// The options supervisor.New is called with, by name (see tSupervisorOpts); nil = none.  They travel in the trace's
	// first line (`opts=`), so the driver replays the model under the same configuration.
	opts []string
}

// Every SupervisorOpt the package offers, by the name it has in the case lines.  guardiand builds its supervisor with
// WithPropagatePanic (node/cmd/guardiand/node.go); it is the only option there is.
var tSupervisorOpts = []struct {
	name string
	opt  SupervisorOpt
	// may a scenario run under this option?  WithPropagatePanic: "prevents the Supervisor from catching panics in
	// runnables" - a panicking service takes the whole process (this test binary) down, which is what the option is for
	// and outside what C18 states ("returns or panics (with panic capture on)"): only scenarios in which no script
	// panics - neither by itself nor through an out-of-order Signal.
	admits func(sc *tScenario) bool
}{
	{"propagate-panic", WithPropagatePanic, func(sc *tScenario) bool { return !sc.panics() }},
}

// panics: some incarnation of some service is scripted to panic (`fail: "panic"`, or a Signal(Done) without Healthy,
// which panics inside the supervisor call and unwinds the runnable).
func (sc *tScenario) panics() bool {
	for _, l := range sc.scripts {
		for _, s := range l {
			if s.fail == "panic" || s.badSig {
				return true
			}
		}
	}
	return false
}

func (sc *tScenario) has(opt string) bool {
	for _, o := range sc.opts {
		if o == opt {
			return true
		}
	}
	return false
}

func (sc *tScenario) supervisorOpts() []SupervisorOpt {
	var out []SupervisorOpt
	for _, o := range tSupervisorOpts {
		if sc.has(o.name) {
			out = append(out, o.opt)
		}
	}
	return out
}

func (sc *tScenario) maxLinger() time.Duration {
	var lat time.Duration
	for _, l := range sc.scripts {
		for _, s := range l {
			if s.linger > lat {
				lat = s.linger
			}
		}
	}
	return lat
}

type tEvent struct {
	t    time.Duration
	kind string
	iid  int
	dn   string
	body string
}

type tInst struct {
	iid     int
	dn      string
	ctx     context.Context
	script  *tScript
	stable  bool
	exited  bool
	setup   bool // finished groups + signals
	sawDone bool // observed ctx.Done
	sigDone bool
	exitNil bool // returned nil
}

type tRun struct {
	sc        *tScenario
	sup       *supervisor
	mu        sync.Mutex // the event log mutex
	events    []tEvent
	insts     []*tInst
	enters    map[string]int
	t0        time.Time
	doneSig   map[string]chan struct{} // closed when dn signalled Done (first time)
	settledOK bool
}

func (r *tRun) logLocked(kind string, in *tInst, body string) int {
	iid, dn := -1, "-"
	if in != nil {
		iid, dn = in.iid, in.dn
	}
	r.events = append(r.events, tEvent{time.Since(r.t0), kind, iid, dn, body})
	return len(r.events) - 1
}

func (r *tRun) log(kind string, in *tInst, body string) {
	r.mu.Lock()
	r.logLocked(kind, in, body)
	r.mu.Unlock()
}

func (r *tRun) scriptFor(dn string, k int) (*tScript, bool) {
	l := r.sc.scripts[dn]
	if len(l) == 0 {
		return &tScript{healthy: true}, true
	}
	if k >= len(l)-1 {
		return &l[len(l)-1], true
	}
	return &l[k], false
}

func (r *tRun) barrier(dn string) chan struct{} {
	c, ok := r.doneSig[dn]
	if !ok {
		c = make(chan struct{})
		r.doneSig[dn] = c
	}
	return c
}

func (r *tRun) tune(n *node) {
	if r.sc.deflt {
		return
	}
	n.bo.InitialInterval = r.sc.init
	n.bo.MaxInterval = r.sc.max
	n.bo.Reset()
}

// names of a batch as they travel in the case line: comma separated, the empty name as "~", no names as "-"
func tNames(g []string) string {
	if len(g) == 0 {
		return "-"
	}
	q := make([]string, len(g))
	for i, nm := range g {
		q[i] = nm
		if nm == "" {
			q[i] = "~"
		}
	}
	return strings.Join(q, ",")
}

func tErr(how string, ctx context.Context) error {
	switch how {
	case "nil":
		return nil
	case "other":
		return errors.New("verif: scripted failure")
	case "ctx":
		return context.Canceled
	case "wctx":
		return fmt.Errorf("verif wrap: %w", context.Canceled)
	case "", "own":
		return ctx.Err()
	// errors of a DERIVED sub-context the service cancelled (or let expire) itself while its own context is live:
	// their innermost cause is context.Canceled / context.DeadlineExceeded, yet the supervisor did not cancel anything
	case "subctx", "wsubctx", "wwsubctx":
		sub, c := context.WithCancel(ctx)
		c()
		switch how {
		case "subctx":
			return sub.Err()
		case "wsubctx":
			return fmt.Errorf("verif: upstream call: %w", sub.Err())
		}
		return fmt.Errorf("verif: request failed: %w", fmt.Errorf("dial: %w", sub.Err()))
	case "subdl", "wsubdl":
		sub, c := context.WithDeadline(ctx, time.Now().Add(-time.Second))
		defer c()
		<-sub.Done()
		if how == "subdl" {
			return sub.Err()
		}
		return fmt.Errorf("verif: upstream call: %w", sub.Err())
	}
	panic("bad how " + how)
}

func tLive(ctx context.Context) int {
	if ctx.Err() == nil {
		return 1
	}
	return 0
}

func (r *tRun) service(ctx context.Context) (ret error) {
	dn := ctx.Value(dnKey).(string)
	r.mu.Lock()
	k := r.enters[dn]
	r.enters[dn] = k + 1
	sc, stable := r.scriptFor(dn, k)
	in := &tInst{iid: len(r.insts), dn: dn, ctx: ctx, script: sc, stable: stable}
	r.insts = append(r.insts, in)
	r.logLocked("enter", in, "")
	r.mu.Unlock()

	// whatever way the runnable leaves (return or panic), log the exit BEFORE the supervisor learns of it
	defer func() {
		if e := recover(); e != nil {
			r.mu.Lock()
			in.exited = true
			r.logLocked("exit", in, fmt.Sprintf("how=other panic=1 live=%d", tLive(ctx)))
			r.mu.Unlock()
			if r.sup.propagatePanic {
				// No script panics in these scenarios, so a supervisor call has panicked where it must not.  Nothing would
				// recover it: the process - and with it every trace recorded so far - would be gone.  The panic is in the log
				// (the model refuses it under this option); hand the supervisor an error instead.
				ret = fmt.Errorf("verif: panic under WithPropagatePanic: %v", e)
				return
			}
			panic(e)
		}
	}()
	exit := func(err error) error {
		r.mu.Lock()
		in.exited = true
		in.exitNil = err == nil
		// live=1: the service's own context was not cancelled when it left (sampled under the log mutex)
		r.logLocked("exit", in, fmt.Sprintf("how=%s panic=0 live=%d", vKind(err), tLive(ctx)))
		r.mu.Unlock()
		return err
	}

	// one RunGroup / Run call, logged under the log mutex; names are rendered like part (i) does ("" as "~")
	runBatch := func(g []string, single bool) (string, error) {
		m := map[string]Runnable{}
		for _, nm := range g {
			m[nm] = r.service
		}
		r.mu.Lock()
		idx := r.logLocked("run", in, "")
		var err error
		var res string
		if single && len(g) == 1 {
			res = vGuard(func() { err = Run(ctx, g[0], r.service) })
		} else {
			res = vGuard(func() { err = RunGroup(ctx, m) })
		}
		if res == "ok" && err != nil {
			res = "err"
		}
		if res == "ok" {
			r.sup.mu.Lock()
			p := r.sup.nodeByDN(dn)
			for _, nm := range g {
				r.tune(p.children[nm])
			}
			r.sup.mu.Unlock()
		}
		r.events[idx].body = fmt.Sprintf("names=%s res=%s", tNames(g), res)
		r.mu.Unlock()
		if res == "panic" {
			panic("verif: RunGroup panicked")
		}
		return res, err
	}
	for gi := 0; gi <= len(sc.groups); gi++ {
		if sc.badGroup != nil && gi == sc.badAt {
			if res, err := runBatch(sc.badGroup, true); res == "err" && !sc.badIgnore {
				return exit(fmt.Errorf("verif: cannot start workers: %w", err))
			}
		}
		if gi < len(sc.groups) {
			runBatch(sc.groups[gi], false)
		}
	}
	sig := func(s SignalType) {
		r.mu.Lock()
		idx := r.logLocked("sig", in, "")
		res := vGuard(func() { Signal(ctx, s) })
		r.events[idx].body = fmt.Sprintf("s=%d res=%s", int(s), res)
		if res == "ok" && s == SignalDone {
			in.sigDone = true
			c := r.barrier(dn)
			select {
			case <-c:
			default:
				close(c)
			}
		}
		r.mu.Unlock()
		if res == "panic" {
			panic("verif: Signal panicked")
		}
	}
	if sc.badSig {
		sig(SignalDone)
	}
	if sc.healthy {
		sig(SignalHealthy)
	}
	if sc.done {
		sig(SignalDone)
	}
	r.mu.Lock()
	in.setup = true
	r.mu.Unlock()

	var failC <-chan time.Time
	if sc.fail != "" {
		if sc.waitFor != "" {
			r.mu.Lock()
			c := r.barrier(sc.waitFor)
			r.mu.Unlock()
			select {
			case <-c:
			case <-ctx.Done():
			case <-time.After(10 * time.Second):
			}
		}
		failC = time.After(sc.after)
	}
	select {
	case <-failC:
		if sc.fail == "panic" {
			panic("verif: scripted panic")
		}
		return exit(tErr(sc.fail, ctx))
	case <-ctx.Done():
	}
	r.mu.Lock()
	in.sawDone = true
	r.logLocked("ctxdone", in, "")
	r.mu.Unlock()
	if sc.lingerUntilTwin {
		dl := time.After(sc.linger)
	loop:
		for {
			r.mu.Lock()
			twin := false
			for _, o := range r.insts {
				if o.dn == dn && o.iid > in.iid {
					twin = true
				}
			}
			r.mu.Unlock()
			if twin {
				break
			}
			select {
			case <-dl:
				break loop
			case <-time.After(time.Millisecond):
			}
		}
	} else if sc.linger > 0 {
		time.Sleep(sc.linger)
	}
	return exit(tErr(sc.ctxHow, ctx))
}

// expected final configuration: every dn started by stable scripts, from the root down
func (r *tRun) expected() map[string]bool {
	exp := map[string]bool{}
	var walk func(dn string)
	walk = func(dn string) {
		exp[dn] = true
		l := r.sc.scripts[dn]
		if len(l) == 0 {
			return
		}
		for _, g := range l[len(l)-1].groups {
			for _, nm := range g {
				walk(dn + "." + nm)
			}
		}
	}
	walk("root")
	return exp
}

// settled: the latest instance of every expected dn runs its stable script with a live context and has
// finished its setup (or has completed: Done and returned nil), and nothing else is running.
func (r *tRun) settled(exp map[string]bool) (bool, string) {
	r.mu.Lock()
	defer r.mu.Unlock()
	latest := map[string]*tInst{}
	for _, in := range r.insts {
		latest[in.dn] = in
	}
	for dn := range exp {
		in := latest[dn]
		if in == nil {
			return false, "never-started:" + dn
		}
		if in.exited && in.sigDone && in.exitNil {
			continue // completed: signalled Done and returned nil, it is left alone from now on
		}
		if !in.stable || !in.setup {
			return false, "not-stable:" + dn
		}
		if in.exited {
			return false, "not-running:" + dn
		}
		if in.ctx.Err() != nil {
			return false, "cancelled:" + dn
		}
	}
	for _, in := range r.insts {
		if !in.exited && (latest[in.dn] != in || !exp[in.dn]) {
			return false, "stray:" + in.dn
		}
	}
	return true, ""
}

func (r *tRun) liveCount() int {
	r.mu.Lock()
	defer r.mu.Unlock()
	n := 0
	for _, in := range r.insts {
		if !in.exited {
			n++
		}
	}
	return n
}

func runScenario(sc *tScenario, deadline time.Duration) *tRun {
	r := &tRun{sc: sc, enters: map[string]int{}, doneSig: map[string]chan struct{}{}, t0: time.Now()}
	ctx, cancel := context.WithCancel(context.Background())
	defer cancel()
	// the processor must not start before r.sup is set: hold the log mutex across New (service() takes it first)
	r.mu.Lock()
	r.sup = New(ctx, zap.NewNop(), r.service, sc.supervisorOpts()...)
	r.sup.mu.Lock()
	r.tune(r.sup.root)
	r.sup.mu.Unlock()
	r.mu.Unlock()

	if sc.cancelAfter != "" {
		return r.finishInWindow(cancel, deadline)
	}
	exp := r.expected()
	settleFor := deadline
	if sw := sc.settleWait; sw > 0 && sw < deadline {
		settleFor = sw
	}
	dl := time.Now().Add(settleFor)
	ok, why := false, ""
	stableSince := time.Time{}
	for time.Now().Before(dl) {
		ok, why = r.settled(exp)
		if ok {
			if stableSince.IsZero() {
				stableSince = time.Now()
			} else if time.Since(stableSince) > 15*time.Millisecond {
				break
			}
		} else {
			stableSince = time.Time{}
		}
		time.Sleep(2 * time.Millisecond)
		ok = false
	}
	r.settledOK = ok
	if ok {
		r.log("settled", nil, "ok=1 why=-")
	} else {
		r.log("settled", nil, "ok=0 why="+why)
	}
	r.stopAndWatch(cancel, deadline, 60*time.Millisecond)
	return r
}

// stopAndWatch cancels the supervisor context, waits for everything to stop, and keeps recording for `watch`
// after a quiet period: an `enter` logged after `quiesced` is a start after the stop.
func (r *tRun) stopAndWatch(cancel func(), deadline, watch time.Duration) {
	r.mu.Lock()
	r.logLocked("cancelreq", nil, "")
	cancel()
	r.mu.Unlock()
	t0 := time.Now()
	// "cancelling the supervisor's context stops every service": everything running now must return
	if sw := r.sc.stopWait; sw > 0 && sw < deadline {
		deadline = sw
	}
	dl := time.Now().Add(deadline)
	for r.liveCount() > 0 && time.Now().Before(dl) {
		time.Sleep(time.Millisecond)
	}
	if n := r.liveCount(); n > 0 {
		r.log("stopped", nil, fmt.Sprintf("ok=0 live=%d waited_us=%d", n, time.Since(t0).Microseconds()))
	} else {
		r.log("stopped", nil, fmt.Sprintf("ok=1 live=0 waited_us=%d", time.Since(t0).Microseconds()))
	}
	// "... without further restarts": after a quiet period nothing may start any more.  (Where the root only leaves on
	// its context, the processor has run processKill and returned once it has left, so the quiet period only has to
	// cover a goroutine that processSchedule had already started but that has not logged yet.  Where the root has
	// completed - Done, returned nil - nothing may be running at the moment of the cancellation although schedule
	// requests are in flight: the processor may still take some of them before it takes ctx.Done, within the same
	// quiet period; what they start is cancelled by processKill and must have returned when the trace ends - the
	// driver's `service-live-after-stop` looks at the log up to `fin`, not at this flag.)
	time.Sleep(60 * time.Millisecond)
	r.log("quiesced", nil, "")
	if rest := watch - time.Since(t0); rest > 60*time.Millisecond {
		time.Sleep(rest)
	} else {
		time.Sleep(60 * time.Millisecond)
	}
	r.log("fin", nil, "")
}

func (r *tRun) exitsOf(dn string) int {
	r.mu.Lock()
	defer r.mu.Unlock()
	n := 0
	for _, in := range r.insts {
		if in.dn == dn && in.exited {
			n++
		}
	}
	return n
}

// finishInWindow: cancel the supervisor context while failed services sit in their restart back-off (or while
// the subtree of a failed service is still exiting), then watch for longer than any pending back-off.
func (r *tRun) finishInWindow(cancel func(), deadline time.Duration) *tRun {
	sc := r.sc
	r.settledOK = true
	dl := time.Now().Add(deadline)
	for r.exitsOf(sc.cancelAfter) < sc.cancelNth && time.Now().Before(dl) {
		time.Sleep(200 * time.Microsecond)
	}
	r.log("window", nil, fmt.Sprintf("after=%s nth=%d delay_us=%d seen=%d", sc.cancelAfter, sc.cancelNth, sc.cancelDelay.Microseconds(), r.exitsOf(sc.cancelAfter)))
	time.Sleep(sc.cancelDelay)
	r.stopAndWatch(cancel, deadline, sc.observe)
	return r
}

func (r *tRun) write(w *bufio.Writer, cid string) {
	r.mu.Lock()
	defer r.mu.Unlock()
	init, max := int64(r.sc.init), int64(r.sc.max)
	if r.sc.deflt {
		init, max = int64(500*time.Millisecond), int64(60*time.Second)
	}
	// lat: the longest scripted exit latency (time a service keeps running after it saw its context cancelled)
	lat := r.sc.maxLinger()
	opts := "-"
	if len(r.sc.opts) > 0 {
		opts = strings.Join(r.sc.opts, ",")
	}
	fmt.Fprintf(w, "tr %s name=%s init=%d max=%d lat=%d opts=%s\n", cid, r.sc.name, init, max, int64(lat), opts)
	for i, e := range r.events {
		b := e.body
		if b != "" {
			b = " " + b
		}
		fmt.Fprintf(w, "ev %s k=%d t=%d e=%s iid=%d dn=%s%s\n", cid, i, e.t.Microseconds(), e.kind, e.iid, e.dn, b)
	}
	fmt.Fprintf(w, "end %s\n", cid)
}

// ---------------------------------------------------------------- scenarios

const tInit = 16 * time.Millisecond
const tMax = 48 * time.Millisecond

func stableLeaf() tScript { return tScript{healthy: true} }

// fixed scenarios: one per clause of the statement, plus the lingering-Done scenario of DESIGN.md §8 #15
func fixedScenarios() []*tScenario {
	ms := time.Millisecond
	return []*tScenario{
		{name: "leaf-error-restarts", scripts: map[string][]tScript{
			"root":   {{groups: [][]string{{"a"}}, healthy: true}},
			"root.a": {{healthy: true, fail: "other", after: 2 * ms}, stableLeaf()},
		}},
		{name: "leaf-nil-return-restarts", scripts: map[string][]tScript{
			"root":   {{groups: [][]string{{"a"}}, healthy: true}},
			"root.a": {{healthy: true, fail: "nil", after: 2 * ms}, {fail: "nil", after: ms}, stableLeaf()},
		}},
		{name: "leaf-panic-restarts", scripts: map[string][]tScript{
			"root":   {{groups: [][]string{{"a"}, {"b"}}, healthy: true}},
			"root.a": {{healthy: true, fail: "panic", after: 2 * ms}, stableLeaf()},
			"root.b": {stableLeaf()},
		}},
		{name: "group-cancelled-together", scripts: map[string][]tScript{
			"root":   {{groups: [][]string{{"a", "b", "c"}, {"d"}}, healthy: true}},
			"root.a": {{healthy: true, fail: "other", after: 3 * ms}, stableLeaf()},
			"root.b": {{healthy: true, linger: 5 * ms}},
			"root.c": {{groups: [][]string{{"x"}}, healthy: true, ctxHow: "wctx"}},
			"root.d": {stableLeaf()},
		}},
		{name: "done-left-alone", scripts: map[string][]tScript{
			"root":   {{groups: [][]string{{"a"}, {"b"}}, healthy: true}},
			"root.a": {{healthy: true, done: true, fail: "nil"}},
			"root.b": {{healthy: true, fail: "other", after: 4 * ms}, {healthy: true, fail: "panic", after: 2 * ms}, stableLeaf()},
		}},
		{name: "done-parent-child-fails", scripts: map[string][]tScript{
			"root":     {{groups: [][]string{{"p"}}, healthy: true}},
			"root.p":   {{groups: [][]string{{"c"}}, healthy: true, done: true, fail: "nil"}},
			"root.p.c": {{healthy: true, fail: "other", after: 3 * ms}, stableLeaf()},
		}},
		{name: "root-fails", scripts: map[string][]tScript{
			"root":   {{groups: [][]string{{"a"}}, healthy: true, fail: "other", after: 4 * ms}, {groups: [][]string{{"a"}}, healthy: true}},
			"root.a": {{healthy: true, linger: 3 * ms}},
		}},
		{name: "bad-signal-panics", scripts: map[string][]tScript{
			"root":   {{groups: [][]string{{"a"}}, healthy: true}},
			"root.a": {{badSig: true}, stableLeaf()},
		}},
		{name: "spurious-ctx-error", scripts: map[string][]tScript{
			"root":   {{groups: [][]string{{"a", "b"}}, healthy: true}},
			"root.a": {{healthy: true, fail: "wctx", after: 2 * ms}, stableLeaf()},
			"root.b": {stableLeaf()},
		}},
		// A member of a group of >= 2 fails, its OWN context live, with an error whose innermost cause is the
		// Canceled / DeadlineExceeded of a sub-context it derived and cancelled itself: that is a failure like any other
		// (group cancelled, restart after back-off), not a cancellation.  The siblings then stop for a GENUINE
		// cancellation and answer with the context error (plain or wrapped): those are restarted without back-off.
		{name: "subctx-canceled-in-group", scripts: map[string][]tScript{
			"root":     {{groups: [][]string{{"a", "b", "c"}, {"d"}}, healthy: true}},
			"root.a":   {{healthy: true, fail: "subctx", after: 3 * ms}, stableLeaf()},
			"root.b":   {{healthy: true, linger: 3 * ms, ctxHow: "wctx"}},
			"root.c":   {{groups: [][]string{{"x"}}, healthy: true}},
			"root.c.x": {stableLeaf()},
			"root.d":   {stableLeaf()},
		}},
		{name: "wrapped-subctx-canceled-in-group", scripts: map[string][]tScript{
			"root":   {{groups: [][]string{{"a", "b"}}, healthy: true}},
			"root.a": {{healthy: true, fail: "wsubctx", after: 2 * ms}, stableLeaf()},
			"root.b": {{healthy: true, ctxHow: "own"}},
		}},
		{name: "double-wrapped-subctx-canceled-in-group", scripts: map[string][]tScript{
			"root":     {{groups: [][]string{{"p"}}, healthy: true}},
			"root.p":   {{groups: [][]string{{"a", "b"}, {"c"}}, healthy: true}},
			"root.p.a": {{healthy: true}},
			"root.p.b": {{fail: "wwsubctx", after: 2 * ms}, {healthy: true, fail: "subctx", after: 2 * ms}, stableLeaf()},
			"root.p.c": {stableLeaf()},
		}},
		{name: "subctx-deadline-in-group", scripts: map[string][]tScript{
			"root":   {{groups: [][]string{{"a", "b"}}, healthy: true}},
			"root.a": {{healthy: true, fail: "subdl", after: 2 * ms}, {healthy: true, fail: "wsubdl", after: 2 * ms}, stableLeaf()},
			"root.b": {{healthy: true, ctxHow: "wctx"}},
		}},
		{name: "genuine-cancel-then-subctx-failure", scripts: map[string][]tScript{
			// first a fails plainly and b is genuinely cancelled (restarted at once); then b's second incarnation fails
			// with a wrapped sub-context error under a live context and a is the one genuinely cancelled
			"root":   {{groups: [][]string{{"a", "b"}}, healthy: true}},
			"root.a": {{healthy: true, fail: "other", after: 2 * ms}, {healthy: true, ctxHow: "own"}, stableLeaf()},
			"root.b": {{healthy: true, ctxHow: "wctx"}, {healthy: true, fail: "wsubctx", waitFor: "", after: 40 * ms}, stableLeaf()},
		}},
		{name: "depth3-middle-fails", scripts: map[string][]tScript{
			"root":       {{groups: [][]string{{"m"}, {"s"}}, healthy: true}},
			"root.m":     {{groups: [][]string{{"x", "y"}}, healthy: true, fail: "other", after: 5 * ms}, {groups: [][]string{{"x", "y"}}, healthy: true}},
			"root.m.x":   {{groups: [][]string{{"l"}}, healthy: true, linger: 4 * ms}},
			"root.m.x.l": {stableLeaf()},
			"root.m.y":   {{healthy: true, done: true, fail: "nil"}},
			"root.s":     {stableLeaf()},
		}},
		// DESIGN.md §8 #15: the parent fails once; the child has signalled Healthy and Done and keeps running for a
		// while after its context is cancelled (exit latency).  The parent must not be restarted (and start a second
		// instance of the child) before the first instance has returned.
		{name: "done-lingers-parent-fails", scripts: map[string][]tScript{
			"root":     {{groups: [][]string{{"p"}}, healthy: true}},
			"root.p":   {{groups: [][]string{{"c"}}, healthy: true, fail: "other", waitFor: "root.p.c", after: 2 * ms}, {groups: [][]string{{"c"}}, healthy: true}},
			"root.p.c": {{healthy: true, done: true, lingerUntilTwin: true, linger: 400 * ms, ctxHow: "nil"}, stableLeaf()},
		}},
		// same, but the lingering instance belongs to a node that has been restarted before (its bookkeeping is reused)
		{name: "done-lingers-second-incarnation", scripts: map[string][]tScript{
			"root":     {{groups: [][]string{{"p"}}, healthy: true}},
			"root.p":   {{groups: [][]string{{"c"}}, healthy: true, fail: "other", waitFor: "root.p.c", after: 2 * ms}, {groups: [][]string{{"c"}}, healthy: true}},
			"root.p.c": {{healthy: true, fail: "other", after: 2 * ms}, {healthy: true, done: true, lingerUntilTwin: true, linger: 400 * ms, ctxHow: "nil"}, stableLeaf()},
		}},
		{name: "done-lingers-root-fails", scripts: map[string][]tScript{
			"root":   {{groups: [][]string{{"c"}}, healthy: true, fail: "nil", waitFor: "root.c", after: ms}, {groups: [][]string{{"c"}}, healthy: true}},
			"root.c": {{healthy: true, done: true, lingerUntilTwin: true, linger: 400 * ms, ctxHow: "own"}, stableLeaf()},
		}},
	}
}

// random scenario: tree of depth <= 3, every service gets 1-3 incarnation scripts, the last one stable
func randScenario(r *rand.Rand, idx int) *tScenario {
	ms := time.Millisecond
	sc := &tScenario{name: fmt.Sprintf("rand%d", idx), scripts: map[string][]tScript{}}
	fails := []string{"other", "other", "nil", "panic", "wctx", "ctx", "subctx", "wsubctx", "wwsubctx", "subdl", "wsubdl"}
	ctxHows := []string{"own", "own", "own", "wctx", "nil", "other"}
	budget := 7
	var build func(dn string, depth int) [][]string
	build = func(dn string, depth int) [][]string {
		var groups [][]string
		if depth < 3 && budget > 0 {
			ng := r.Intn(3)
			if depth == 0 {
				ng = 1 + r.Intn(2)
			}
			names := []string{"a", "b", "c", "d"}
			r.Shuffle(len(names), func(i, j int) { names[i], names[j] = names[j], names[i] })
			pos := 0
			for g := 0; g < ng && pos < len(names) && budget > 0; g++ {
				sz := 1 + r.Intn(2)
				var grp []string
				for i := 0; i < sz && pos < len(names) && budget > 0; i++ {
					grp = append(grp, names[pos])
					pos++
					budget--
				}
				sort.Strings(grp)
				groups = append(groups, grp)
			}
		}
		return groups
	}
	var mk func(dn string, depth int)
	mk = func(dn string, depth int) {
		groups := build(dn, depth)
		n := 1 + r.Intn(3)
		if dn == "root" && n > 2 {
			n = 2
		}
		var l []tScript
		for k := 0; k < n; k++ {
			s := tScript{groups: groups, healthy: r.Intn(8) != 0}
			last := k == n-1
			// Only leaves signal Done here: once a Done service has returned it is never started again, so when its
			// context is cancelled from outside (a group sibling fails) nothing below it can ever be restarted
			// (their parent context is dead for good) - outside what C18 states; see the fixed scenarios for Done parents.
			if s.healthy && len(groups) == 0 && r.Intn(4) == 0 {
				s.done = true
			}
			if !last {
				s.fail = fails[r.Intn(len(fails))]
				s.after = time.Duration(r.Intn(6)) * ms
				if r.Intn(10) == 0 {
					s.badSig = true
				}
				if s.done && s.fail == "nil" {
					// Done + nil return is a completion, not a failure: the service would (rightly) never be started again
					s.fail = "other"
				}
			} else if s.done && r.Intn(2) == 0 {
				s.fail = "nil" // completes
				s.after = time.Duration(r.Intn(3)) * ms
			}
			if !last {
				// a failing incarnation need not be healthy
			} else {
				s.healthy = true
			}
			if r.Intn(3) == 0 {
				s.linger = time.Duration(1+r.Intn(8)) * ms
			}
			s.ctxHow = ctxHows[r.Intn(len(ctxHows))]
			if last {
				// The final incarnation must answer a cancellation with the context error (or, once Done, with nil):
				// a service that answers every cancellation with a failure of its own cancels its group again, and two
				// such services in one group legitimately restart each other for ever - nothing C18 speaks about.
				s.ctxHow = []string{"own", "own", "wctx"}[r.Intn(3)]
				if s.done && r.Intn(3) == 0 {
					s.ctxHow = "nil"
				}
			}
			if last && s.done && s.fail == "" {
				// a Done service that keeps running until cancelled and returns late: the exit-latency case
				if r.Intn(2) == 0 {
					s.linger = time.Duration(5+r.Intn(40)) * ms
				}
			}
			l = append(l, s)
		}
		sc.scripts[dn] = l
		for _, g := range groups {
			for _, nm := range g {
				mk(dn+"."+nm, depth+1)
			}
		}
	}
	mk("root", 0)
	return sc
}

// windowScenarios: the supervisor context is cancelled at a PRNG-chosen point INSIDE the restart back-off window of
// one or several failed services - right after the failure, mid-window, just before its earliest end - also nested
// (a parent waiting for / sitting in its back-off while a child subtree or a group sibling is still exiting).
// Back-off here is 200 ms +-50 % for a first failure (100..300 ms), 150..450 ms for a second one in a row.
func windowScenarios(r *rand.Rand, n int) []*tScenario {
	ms := time.Millisecond
	between := func(lo, hi int) time.Duration { return time.Duration(lo+r.Intn(hi-lo+1)) * ms }
	leafFails := func(how string) []tScript {
		return []tScript{{healthy: true, fail: how, after: 2 * ms}, stableLeaf()}
	}
	var out []*tScenario
	for i := 0; i < n; i++ {
		sc := &tScenario{init: 200 * ms, max: 400 * ms, cancelNth: 1, observe: 650 * ms}
		switch i % 9 {
		case 0:
			sc.name, sc.cancelAfter, sc.cancelDelay = "cancel-in-backoff-early", "root.a", between(3, 12)
			sc.scripts = map[string][]tScript{"root": {{groups: [][]string{{"a"}}, healthy: true}}, "root.a": leafFails("other")}
		case 1:
			sc.name, sc.cancelAfter, sc.cancelDelay = "cancel-in-backoff-mid", "root.a", between(25, 75)
			sc.scripts = map[string][]tScript{"root": {{groups: [][]string{{"a"}}, healthy: true}}, "root.a": leafFails("nil")}
		case 2:
			sc.name, sc.cancelAfter, sc.cancelDelay = "cancel-in-backoff-late", "root.a", between(80, 97)
			sc.scripts = map[string][]tScript{"root": {{groups: [][]string{{"a"}}, healthy: true}}, "root.a": leafFails("panic")}
		case 3:
			sc.name, sc.cancelAfter, sc.cancelDelay = "cancel-three-in-backoff", "root.c", between(8, 70)
			sc.scripts = map[string][]tScript{
				"root":   {{groups: [][]string{{"a"}, {"b"}, {"c"}}, healthy: true}},
				"root.a": leafFails("nil"), "root.b": leafFails("panic"),
				"root.c": {{healthy: true, fail: "other", after: 4 * ms}, stableLeaf()},
			}
		case 4:
			// the parent has failed; its children are still exiting (exit latency), then it is reset and sleeps
			sc.name, sc.cancelAfter, sc.cancelDelay = "cancel-parent-backoff-children-exiting", "root.p", between(4, 95)
			sc.scripts = map[string][]tScript{
				"root":       {{groups: [][]string{{"p"}}, healthy: true}},
				"root.p":     {{groups: [][]string{{"x", "y"}}, healthy: true, fail: "other", after: 4 * ms}, {groups: [][]string{{"x", "y"}}, healthy: true}},
				"root.p.x":   {{healthy: true, linger: between(5, 40)}},
				"root.p.y":   {{groups: [][]string{{"l"}}, healthy: true, linger: between(1, 15)}},
				"root.p.y.l": {{healthy: true, linger: between(1, 10)}},
			}
		case 5:
			// a leaf in back-off while its cancelled group sibling is still exiting
			sc.name, sc.cancelAfter, sc.cancelDelay = "cancel-backoff-sibling-exiting", "root.a", between(8, 45)
			sc.scripts = map[string][]tScript{
				"root":   {{groups: [][]string{{"a", "b"}}, healthy: true}},
				"root.a": leafFails("other"),
				"root.b": {{healthy: true, linger: 50 * ms}},
			}
		case 6:
			sc.name, sc.cancelAfter, sc.cancelDelay = "cancel-root-in-backoff", "root", between(8, 80)
			sc.scripts = map[string][]tScript{
				"root":   {{groups: [][]string{{"a"}}, healthy: true, fail: "other", after: 4 * ms}, {groups: [][]string{{"a"}}, healthy: true}},
				"root.a": {{healthy: true, linger: between(0, 5)}},
			}
		case 7:
			// second failure in a row without a Healthy signal in between: the window is 150..450 ms
			sc.name, sc.cancelAfter, sc.cancelNth, sc.cancelDelay = "cancel-in-second-backoff", "root.a", 2, between(10, 140)
			sc.scripts = map[string][]tScript{
				"root":   {{groups: [][]string{{"a"}}, healthy: true}},
				"root.a": {{fail: "other", after: ms}, {fail: "nil", after: ms}, stableLeaf()},
			}
		case 8:
			// the library's own parameters: 250..750 ms for a first failure
			sc.name, sc.cancelAfter, sc.cancelDelay = "cancel-in-default-backoff", "root.a", between(10, 230)
			sc.deflt, sc.observe = true, 950*ms
			sc.scripts = map[string][]tScript{"root": {{groups: [][]string{{"a"}}, healthy: true}}, "root.a": leafFails("other")}
		}
		out = append(out, sc)
	}
	return out
}

// completedScenarios: trees in which the ROOT runnable and/or inner nodes are set-up-only runnables - they start their
// groups, signal Healthy and Done and return nil ("a service that signalled completion") - while the services below
// them keep running under the completed node's still-live context.  "Cancelling the supervisor's context stops every
// service" includes those: the supervisor context is cancelled after the tree has settled, a PRNG-chosen few
// milliseconds after the completed node returned (children starting / just started), while a child of the completed
// node sits in its restart back-off, and while the subtree of a failed child is still exiting.  A completed node is
// always alone in its group and never fails: were its context cancelled from outside (a group sibling failing), the
// services below it could never be restarted (their parent context is dead for good, the DONE node is left alone) -
// nothing C18 speaks about.
func completedScenarios(r *rand.Rand, n int) []*tScenario {
	ms := time.Millisecond
	between := func(lo, hi int) time.Duration { return time.Duration(lo+r.Intn(hi-lo+1)) * ms }
	pick := func(l ...string) string { return l[r.Intn(len(l))] }
	completes := func(groups ...[]string) []tScript {
		return []tScript{{groups: groups, healthy: true, done: true, fail: "nil", after: between(0, 2)}}
	}
	runs := func(groups ...[]string) []tScript { return []tScript{{groups: groups, healthy: true}} }
	leaf := func() []tScript {
		s := tScript{healthy: true, ctxHow: pick("own", "own", "wctx")}
		if r.Intn(2) == 0 {
			s.linger = between(1, 12)
		}
		return []tScript{s}
	}
	failsOnce := func() []tScript {
		return []tScript{{healthy: r.Intn(3) != 0, fail: pick("other", "nil", "panic", "wsubctx"), after: between(1, 4)}, stableLeaf()}
	}
	const nKinds = 9
	var out []*tScenario
	for i := 0; i < n; i++ {
		// every exit latency here is <= 40 ms and every back-off <= 450 ms: what still runs 4 s after the cancellation never stops
		sc := &tScenario{stopWait: 4 * time.Second}
		inWindow := func(after string, nth int, delay time.Duration, wide bool) {
			sc.cancelAfter, sc.cancelNth, sc.cancelDelay, sc.observe = after, nth, delay, 300*ms
			if wide {
				sc.init, sc.max, sc.observe = 200*ms, 400*ms, 650*ms
			}
		}
		switch i % nKinds {
		case 0:
			// the documented pattern: the root only sets things up; a group of two, and a long-running parent with a leaf
			sc.name = "completed-root-stop-settled"
			sc.scripts = map[string][]tScript{
				"root": completes([]string{"a", "b"}, []string{"p"}), "root.a": leaf(), "root.b": leaf(),
				"root.p": runs([]string{"l"}), "root.p.l": leaf(),
			}
		case 1:
			// completed nodes at depth 0, 1 and 2; running services at depth 1, 2 and 3
			sc.name = "completed-root-and-inner-stop-settled"
			sc.scripts = map[string][]tScript{
				"root": completes([]string{"p"}, []string{"s"}), "root.s": leaf(),
				"root.p": completes([]string{"x"}, []string{"y"}), "root.p.y": leaf(),
				"root.p.x": completes([]string{"k", "l"}), "root.p.x.k": leaf(), "root.p.x.l": leaf(),
			}
		case 2:
			// cancelled right after the root returned: its children are being scheduled, starting, or have just started
			sc.name = "completed-root-stop-early"
			sc.scripts = map[string][]tScript{
				"root": completes([]string{"a", "b"}, []string{"p"}), "root.a": leaf(), "root.b": leaf(),
				"root.p": runs([]string{"l"}), "root.p.l": leaf(),
			}
			inWindow("root", 1, time.Duration(r.Intn(12000))*time.Microsecond, false)
		case 3:
			// a child of the completed root has failed and sits in its back-off (100..300 ms); its sibling keeps running
			sc.name = "completed-root-stop-child-in-backoff"
			sc.scripts = map[string][]tScript{
				"root": completes([]string{"a"}, []string{"b"}), "root.a": failsOnce(), "root.b": leaf(),
			}
			inWindow("root.a", 1, between(5, 90), true)
		case 4:
			// a child of the completed root has failed, its own subtree is still exiting (then it is reset and sleeps)
			sc.name = "completed-root-stop-subtree-exiting"
			sc.scripts = map[string][]tScript{
				"root":       completes([]string{"p"}, []string{"s"}),
				"root.s":     leaf(),
				"root.p":     {{groups: [][]string{{"x", "y"}}, healthy: true, fail: pick("other", "nil", "panic"), after: 4 * ms}, {groups: [][]string{{"x", "y"}}, healthy: true}},
				"root.p.x":   {{healthy: true, linger: between(5, 40)}},
				"root.p.y":   {{groups: [][]string{{"l"}}, healthy: true, done: r.Intn(2) == 0, linger: between(1, 15)}},
				"root.p.y.l": {{healthy: true, linger: between(1, 10)}},
			}
			inWindow("root.p", 1, between(2, 95), true)
		case 5:
			// the root runs until cancelled; an inner node completes, cancelled right after it returned
			sc.name = "completed-inner-stop-early"
			sc.scripts = map[string][]tScript{
				"root": runs([]string{"p"}, []string{"s"}), "root.s": leaf(),
				"root.p": completes([]string{"x", "y"}), "root.p.x": leaf(),
				"root.p.y": completes([]string{"l"}), "root.p.y.l": leaf(),
			}
			inWindow("root.p", 1, time.Duration(r.Intn(10000))*time.Microsecond, false)
		case 6:
			// services below the completed root fail and are restarted under its context (alone and as a group) before the stop
			sc.name = "completed-root-restarts-then-stop"
			sc.scripts = map[string][]tScript{
				"root": completes([]string{"a", "b"}, []string{"c"}), "root.a": failsOnce(),
				"root.b": {{healthy: true, ctxHow: pick("own", "wctx"), linger: between(0, 6)}},
				"root.c": {{healthy: true, fail: "other", after: between(2, 6)}, {fail: pick("nil", "panic"), after: ms}, stableLeaf()},
			}
		case 7:
			// every inner node has completed: one running service, at depth 3
			sc.name = "completed-chain-stop-settled"
			sc.scripts = map[string][]tScript{
				"root": completes([]string{"p"}), "root.p": completes([]string{"q"}), "root.p.q": completes([]string{"l"}),
				"root.p.q.l": {{healthy: true, done: r.Intn(2) == 0, linger: between(0, 30), ctxHow: "own"}},
			}
			if r.Intn(2) == 0 {
				inWindow("root.p.q", 1, time.Duration(r.Intn(8000))*time.Microsecond, false)
				sc.name = "completed-chain-stop-early"
			}
		case 8:
			sc = completedRandom(r, i)
		}
		if sc.init == 0 {
			sc.init, sc.max = tInit, tMax
		}
		out = append(out, sc)
	}
	return out
}

// completedRandom: a PRNG-shaped tree (depth <= 3) whose root completes; inner nodes complete or run, leaves run, fail
// once or complete; cancelled after settling, or a PRNG-chosen moment after the root or a completed inner node returned.
func completedRandom(r *rand.Rand, idx int) *tScenario {
	ms := time.Millisecond
	sc := &tScenario{name: fmt.Sprintf("completed-rand%d", idx), scripts: map[string][]tScript{}, stopWait: 4 * time.Second}
	budget := 7
	var completed []string
	var mk func(dn string, depth int, mayComplete bool)
	mk = func(dn string, depth int, mayComplete bool) {
		var groups [][]string
		if depth < 3 && budget > 0 && (depth == 0 || r.Intn(3) != 0) {
			names := []string{"a", "b", "c", "d"}
			r.Shuffle(len(names), func(i, j int) { names[i], names[j] = names[j], names[i] })
			pos := 0
			for g := 0; g < 1+r.Intn(2) && pos < len(names) && budget > 0; g++ {
				var grp []string
				for k := 0; k < 1+r.Intn(2) && pos < len(names) && budget > 0; k++ {
					grp = append(grp, names[pos])
					pos++
					budget--
				}
				sort.Strings(grp)
				groups = append(groups, grp)
			}
		}
		switch {
		case len(groups) > 0 && mayComplete && (depth == 0 || r.Intn(2) == 0):
			sc.scripts[dn] = []tScript{{groups: groups, healthy: true, done: true, fail: "nil", after: time.Duration(r.Intn(3)) * ms}}
			completed = append(completed, dn)
		case len(groups) > 0:
			sc.scripts[dn] = []tScript{{groups: groups, healthy: true, ctxHow: []string{"own", "wctx"}[r.Intn(2)]}}
		default:
			last := tScript{healthy: true, ctxHow: []string{"own", "own", "wctx"}[r.Intn(3)], linger: time.Duration(r.Intn(3)*r.Intn(8)) * ms}
			if r.Intn(5) == 0 {
				last.done, last.ctxHow = true, []string{"own", "nil"}[r.Intn(2)]
			}
			var l []tScript
			if r.Intn(3) == 0 {
				l = append(l, tScript{healthy: r.Intn(2) == 0, fail: []string{"other", "nil", "panic", "subctx"}[r.Intn(4)], after: time.Duration(r.Intn(5)) * ms})
			}
			sc.scripts[dn] = append(l, last)
		}
		for _, g := range groups {
			for _, nm := range g {
				// a completed node must be alone in its group (see completedScenarios)
				mk(dn+"."+nm, depth+1, len(g) == 1)
			}
		}
	}
	mk("root", 0, true)
	if r.Intn(2) == 0 {
		sc.cancelAfter, sc.cancelNth = completed[r.Intn(len(completed))], 1
		sc.cancelDelay, sc.observe = time.Duration(r.Intn(15000))*time.Microsecond, 300*ms
	}
	return sc
}

// ---------------------------------------------------------------- rejected batches

// tFresh: k valid names that no scripted tree uses.  The name pattern is unanchored, so one character of [a-z0-9_]
// anywhere in the name makes it valid.
func tFresh(k int) []string {
	out := make([]string, k)
	for i := range out {
		out[i] = fmt.Sprintf([]string{"w%d", "W_%d", "Job%d"}[i%3], i)
	}
	return out
}

// tRejected: a batch the supervisor has to refuse as a whole: the offending names in the middle of k fresh valid ones
// (the order is immaterial - the batch is a Go map).
func tRejected(k int, offending ...string) []string {
	f := tFresh(k)
	out := append([]string{}, f[:k/2]...)
	out = append(out, offending...)
	return append(out, f[k/2:]...)
}

// tCaller: the first n incarnations follow `s` (which carries the rejected batch), the last one is stable and starts
// the same groups without the rejected call.
func tCaller(n int, groups [][]string, s tScript) []tScript {
	var l []tScript
	for i := 0; i < n; i++ {
		c := s
		c.groups = groups
		l = append(l, c)
	}
	return append(l, tScript{groups: groups, healthy: true})
}

// Every back-off in the rejected-batch scenarios is <= 72 ms and every exit latency <= 5 ms: a service that is not
// back 4 s after the scenario began will evidently never be started again.
const tRejectedSettle = 4 * time.Second

// rejectedFixed: a service makes a RunGroup (or Run) call that the supervisor refuses - a name that is already running
// under it, or an invalid name, among a dozen fresh ones - and returns that error (or ignores it and fails later for
// another reason: error, panic, plain return).  "When a supervised service returns ... it and the members of its group
// are cancelled and the service is started again after a bounded back-off": the refused call must leave nothing behind
// that keeps the caller (or an ancestor of it) from being restarted.  The first two or three incarnations of the
// caller all make the refused call; the call is the first, a middle or the last one of the set-up; the caller is the
// root, an inner node alone in its group, a member of a group of two, a node at depth 2.
func rejectedFixed() []*tScenario {
	ms := time.Millisecond
	gs := func(g ...[]string) [][]string { return g }
	g := func(nm ...string) []string { return nm }
	out := []*tScenario{
		{name: "rejected-duplicate-last-call-root", scripts: map[string][]tScript{
			"root": tCaller(3, gs(g("a"), g("b")), tScript{badGroup: tRejected(14, "a"), badAt: 2}),
		}},
		{name: "rejected-duplicate-middle-call-root", scripts: map[string][]tScript{
			"root":   tCaller(3, gs(g("a"), g("b", "c")), tScript{badGroup: tRejected(12, "a"), badAt: 1}),
			"root.b": {{healthy: true, linger: 2 * ms}},
		}},
		{name: "rejected-invalid-first-call-root", scripts: map[string][]tScript{
			"root": tCaller(3, gs(g("a")), tScript{badGroup: tRejected(15, ""), badAt: 0}),
		}},
		{name: "rejected-invalid-inner", scripts: map[string][]tScript{
			"root":   {{groups: gs(g("p"), g("s")), healthy: true}},
			"root.p": tCaller(3, gs(g("x")), tScript{badGroup: tRejected(13, "A-B"), badAt: 1}),
		}},
		// the caller is a member of a group of two: its sibling is cancelled with it and started again as well
		{name: "rejected-duplicate-group-member", scripts: map[string][]tScript{
			"root":   {{groups: gs(g("a", "b"), g("d")), healthy: true}},
			"root.a": tCaller(3, gs(g("x")), tScript{badGroup: tRejected(14, "x"), badAt: 1}),
			"root.b": {{healthy: true, linger: 3 * ms, ctxHow: "wctx"}},
		}},
		{name: "rejected-ignored-then-error", scripts: map[string][]tScript{
			"root":   {{groups: gs(g("p")), healthy: true}},
			"root.p": tCaller(2, gs(g("x"), g("y")), tScript{badGroup: tRejected(15, "x"), badAt: 1, badIgnore: true, healthy: true, fail: "other", after: 3 * ms}),
		}},
		{name: "rejected-ignored-then-panic-root", scripts: map[string][]tScript{
			"root":   tCaller(2, gs(g("a")), tScript{badGroup: tRejected(12, "!!"), badAt: 0, badIgnore: true, healthy: true, fail: "panic", after: 4 * ms}),
			"root.a": {{healthy: true, linger: 2 * ms}},
		}},
		{name: "rejected-ignored-then-nil-group-member", scripts: map[string][]tScript{
			"root":   {{groups: gs(g("p", "q")), healthy: true}},
			"root.p": tCaller(2, gs(g("x")), tScript{badGroup: tRejected(13, "x", "%"), badAt: 1, badIgnore: true, fail: "nil", after: 2 * ms}),
		}},
		// supervisor.Run: a batch of one
		{name: "rejected-run-duplicate", scripts: map[string][]tScript{
			"root":   {{groups: gs(g("p")), healthy: true}},
			"root.p": tCaller(2, gs(g("x")), tScript{badGroup: g("x"), badAt: 1}),
		}},
		{name: "rejected-run-invalid-root", scripts: map[string][]tScript{
			"root": tCaller(2, gs(g("a")), tScript{badGroup: g("%"), badAt: 1}),
		}},
		{name: "rejected-depth2-caller", scripts: map[string][]tScript{
			"root":     {{groups: gs(g("p")), healthy: true}},
			"root.p":   {{groups: gs(g("q"), g("s")), healthy: true}},
			"root.p.q": tCaller(3, gs(g("l")), tScript{badGroup: tRejected(14, "l", ""), badAt: 1}),
		}},
		{name: "rejected-two-callers", scripts: map[string][]tScript{
			"root":   {{groups: gs(g("a"), g("b")), healthy: true}},
			"root.a": tCaller(2, gs(g("x")), tScript{badGroup: tRejected(12, "x"), badAt: 1}),
			"root.b": tCaller(2, nil, tScript{badGroup: tRejected(12, "X+Y"), badAt: 0}),
		}},
		// the caller ignores the error and keeps running; later its PARENT fails: the whole subtree is started again
		{name: "rejected-ignored-parent-fails-later", scripts: map[string][]tScript{
			"root":     {{groups: gs(g("p")), healthy: true}},
			"root.p":   {{groups: gs(g("c")), healthy: true, fail: "other", after: 25 * ms}, {groups: gs(g("c")), healthy: true}},
			"root.p.c": {{groups: gs(g("l")), badGroup: tRejected(14, "l"), badAt: 1, badIgnore: true, healthy: true}},
		}},
		// the caller ignores the error and never fails; a service it started earlier fails and is started again
		{name: "rejected-ignored-caller-stays-up", scripts: map[string][]tScript{
			"root":   {{groups: gs(g("a")), badGroup: tRejected(12, "A"), badAt: 0, badIgnore: true, healthy: true}},
			"root.a": {{healthy: true, fail: "other", after: 3 * ms}, stableLeaf()},
		}},
	}
	for _, sc := range out {
		sc.init, sc.max, sc.settleWait = tInit, tMax, tRejectedSettle
	}
	return out
}

// rejectedScenarios: PRNG-shaped trees (depth <= 3) in which one PRNG-chosen service - the root, an inner node, a leaf,
// alone or in a group of two - makes a refused call in its first two or three incarnations: which call of its set-up
// it is, what makes it unacceptable (a name started by an earlier call, one of six invalid names, both), how many fresh
// names it carries (10..24), whether the error is returned at once or ignored (then: error / plain return / panic /
// wrapped sub-context error a little later) are all drawn from the PRNG.
func rejectedScenarios(r *rand.Rand, n int) []*tScenario {
	ms := time.Millisecond
	invalid := []string{"", "A-B", "!!", "%", "X+Y", "A"} // no character of [a-z0-9_] ("Zq" would be valid: the pattern is unanchored)
	type nd struct {
		dn     string
		groups [][]string
	}
	var out []*tScenario
	for i := 0; i < n; i++ {
		sc := &tScenario{name: fmt.Sprintf("rejected-rand%d", i), scripts: map[string][]tScript{}, init: tInit, max: tMax, settleWait: tRejectedSettle}
		budget := 6
		var nodes []nd
		var mk func(dn string, depth int)
		mk = func(dn string, depth int) {
			var groups [][]string
			if depth < 3 && budget > 0 && (depth == 0 || r.Intn(2) == 0) {
				names := []string{"a", "b", "c", "d"}
				r.Shuffle(len(names), func(i, j int) { names[i], names[j] = names[j], names[i] })
				pos := 0
				for g := 0; g < 1+r.Intn(2) && pos < len(names) && budget > 0; g++ {
					var grp []string
					for k := 0; k < 1+r.Intn(2) && pos < len(names) && budget > 0; k++ {
						grp = append(grp, names[pos])
						pos++
						budget--
					}
					sort.Strings(grp)
					groups = append(groups, grp)
				}
			}
			nodes = append(nodes, nd{dn, groups})
			for _, g := range groups {
				for _, nm := range g {
					mk(dn+"."+nm, depth+1)
				}
			}
		}
		mk("root", 0)
		ci := r.Intn(len(nodes))
		if r.Intn(4) == 0 {
			ci = 0
		}
		for j, x := range nodes {
			if j != ci {
				sc.scripts[x.dn] = []tScript{{groups: x.groups, healthy: true, ctxHow: []string{"own", "own", "wctx"}[r.Intn(3)], linger: time.Duration(r.Intn(2)*r.Intn(5)) * ms}}
				continue
			}
			var s tScript
			var offending []string
			if len(x.groups) > 0 && r.Intn(3) != 0 {
				// a name started by an earlier call of the same incarnation
				s.badAt = 1 + r.Intn(len(x.groups))
				g := x.groups[r.Intn(s.badAt)]
				offending = append(offending, g[r.Intn(len(g))])
				if r.Intn(5) == 0 {
					offending = append(offending, invalid[r.Intn(len(invalid))])
				}
			} else {
				s.badAt = r.Intn(len(x.groups) + 1)
				offending = append(offending, invalid[r.Intn(len(invalid))])
			}
			s.badGroup = tRejected(10+r.Intn(15), offending...)
			if r.Intn(3) == 0 {
				s.badIgnore, s.healthy = true, r.Intn(2) == 0
				s.fail = []string{"other", "nil", "panic", "wsubctx"}[r.Intn(4)]
				s.after = time.Duration(1+r.Intn(5)) * ms
			}
			sc.scripts[x.dn] = tCaller(2+r.Intn(2), x.groups, s)
		}
		out = append(out, sc)
	}
	return out
}

// doneMemberScenarios: a member of a group of >= 2 has signalled Healthy and Done and KEEPS RUNNING (a runnable may
// signal Done long before it returns); then another member of the group fails - the barrier `waitFor` makes the order
// certain.  "it and the members of its group are cancelled": the Done member's context is cancelled like everybody
// else's; it answers with nil (completed: left alone from then on) or with the context error (started again).
func doneMemberScenarios() []*tScenario {
	ms := time.Millisecond
	out := []*tScenario{
		{name: "done-member-running-sibling-fails", scripts: map[string][]tScript{
			"root":   {{groups: [][]string{{"a", "b"}, {"d"}}, healthy: true}},
			"root.a": {{healthy: true, fail: "other", waitFor: "root.b", after: 2 * ms}, stableLeaf()},
			"root.b": {{healthy: true, done: true, ctxHow: "nil"}},
		}},
		{name: "done-member-running-sibling-panics", scripts: map[string][]tScript{
			"root":     {{groups: [][]string{{"p"}}, healthy: true}},
			"root.p":   {{groups: [][]string{{"a", "b", "c"}}, healthy: true}},
			"root.p.a": {{fail: "panic", waitFor: "root.p.b", after: ms}, stableLeaf()},
			"root.p.b": {{healthy: true, done: true, ctxHow: "own", linger: 2 * ms}},
			"root.p.c": {{healthy: true, ctxHow: "wctx"}},
		}},
	}
	for _, sc := range out {
		sc.init, sc.max = tInit, tMax
	}
	return out
}

// ---------------------------------------------------------------- supervisor options

// Every back-off in the scenarios that get this bound is <= 72 ms (max interval 48 ms +50 %) and every exit latency
// <= 400 ms: a service that is not back 4 s after the scenario began will evidently never be started again.
const tOptionSettle = 4 * time.Second

// optionScenarios: everything the statement says about a service that RETURNS - restart after the back-off, the
// group cancelled with it, Done left alone, never twice at once, the stop - is said of a supervisor however it was
// built.  For every non-empty combination of the options supervisor.New accepts (today: WithPropagatePanic, which is
// what guardiand passes) the scenarios that may run under it (tSupervisorOpts.admits: under WithPropagatePanic those
// in which no script panics) are run a second time with a supervisor built with these options: every one of the first
// `nAll` scenarios of `base` (the fixed ones), and of the others - random trees, cancel-inside-the-back-off-window,
// completed-*, rejected-*, done-member-* - each with probability num/den, drawn from a PRNG of its own.  The scripts
// are shared with the original (they are read-only); the name gets the option names as a prefix.
func optionScenarios(r *rand.Rand, base []*tScenario, nAll, num, den int) []*tScenario {
	var out []*tScenario
	for mask := 1; mask < 1<<len(tSupervisorOpts); mask++ {
		var names []string
		for i, o := range tSupervisorOpts {
			if mask&(1<<i) != 0 {
				names = append(names, o.name)
			}
		}
		for i, sc := range base {
			// the library's own back-off parameters (up to 750 ms per restart): one such scenario per seed is what the budget allows
			take := !sc.deflt && (i < nAll || r.Intn(den) < num)
			for j, o := range tSupervisorOpts {
				if mask&(1<<j) != 0 && !o.admits(sc) {
					take = false
				}
			}
			if !take {
				continue
			}
			c := *sc
			c.name = strings.Join(names, "+") + "-" + sc.name
			c.opts = names
			if c.settleWait == 0 && c.cancelAfter == "" && c.max <= tMax && c.maxLinger() <= 400*time.Millisecond {
				c.settleWait = tOptionSettle
			}
			out = append(out, &c)
		}
	}
	return out
}

func TestVerifSupervisorTrace(t *testing.T) {
	out := os.Getenv("VERIF_OUT")
	if out == "" {
		t.Skip("VERIF_OUT not set")
	}
	seed := int64(vEnvInt("VERIF_SEED", 1))
	rnd := rand.New(rand.NewSource(seed*104729 + 18))
	nRand, par := 36, 6
	deadline := 20 * time.Second
	if os.Getenv("VERIF_TIER") == "thorough" {
		nRand = 400
	}
	scs := fixedScenarios()
	nFixed := len(scs)
	for i := 0; i < nRand; i++ {
		scs = append(scs, randScenario(rnd, i))
	}
	for _, sc := range scs {
		if sc.init == 0 {
			sc.init, sc.max = tInit, tMax
		}
	}
	// one scenario with the library's default back-off (500 ms +-50 %)
	scs = append(scs, &tScenario{name: "default-backoff", deflt: true, scripts: map[string][]tScript{
		"root":   {{groups: [][]string{{"a"}}, healthy: true}},
		"root.a": {{healthy: true, fail: "other", after: time.Millisecond}, stableLeaf()},
	}})
	nWindow := 9
	if os.Getenv("VERIF_TIER") == "thorough" {
		nWindow = 54
	}
	scs = append(scs, windowScenarios(rnd, nWindow)...)
	// completed (Done, returned nil) root / inner nodes with running services below them, cancelled at various moments
	nCompleted := 18
	if os.Getenv("VERIF_TIER") == "thorough" {
		nCompleted = 108
	}
	scs = append(scs, completedScenarios(rnd, nCompleted)...)
	// rejected RunGroup / Run calls (appended last: the scenarios above are the same for a given seed as before)
	nRejected := 10
	if os.Getenv("VERIF_TIER") == "thorough" {
		nRejected = 60
	}
	scs = append(scs, rejectedFixed()...)
	scs = append(scs, rejectedScenarios(rnd, nRejected)...)
	scs = append(scs, doneMemberScenarios()...)
	// the same scenarios under the options guardiand builds its supervisor with (appended after everything else, drawn
	// from a PRNG of their own: the scenarios above are the same for a given seed as before)
	for _, sc := range scs {
		if sc.init == 0 && !sc.deflt {
			sc.init, sc.max = tInit, tMax
		}
	}
	nPlain := len(scs)
	scs = append(scs, optionScenarios(rand.New(rand.NewSource(seed*15485863+1818)), scs, nFixed, 3, 4)...)
	t.Logf("scenarios: %d, of which %d with supervisor options", len(scs), len(scs)-nPlain)
	f, err := os.Create(filepath.Join(out, "supervisor_trace.cases"))
	if err != nil {
		t.Fatal(err)
	}
	defer f.Close()
	w := bufio.NewWriterSize(f, 1<<20)
	started, err := os.Create(filepath.Join(out, "supervisor_trace.started"))
	if err != nil {
		t.Fatal(err)
	}
	defer started.Close()
	var wmu sync.Mutex
	unsettled, unsettledOpt := 0, 0
	// Every trace is written (and flushed) as soon as its scenario ends: on a broken supervisor the processor
	// goroutine can panic, which takes the whole test binary down, and what was observed until then must survive.
	runBatch := func(batch []*tScenario, base int) {
		sem := make(chan struct{}, par)
		var wg sync.WaitGroup
		for i, sc := range batch {
			wg.Add(1)
			sem <- struct{}{}
			go func(i int, sc *tScenario) {
				defer wg.Done()
				defer func() { <-sem }()
				dl := deadline
				wmu.Lock()
				// which scenarios are in flight, should the processor goroutine take the process down
				if len(sc.opts) > 0 && unsettledOpt >= 12 {
					// a dozen traces in which a supervisor built with options did not restart its services are evidence
					// enough: the rest of that family would each wait out its settle bound
					fmt.Fprintf(started, "skipped tr%d name=%s\n", base+i+1, sc.name)
					wmu.Unlock()
					return
				}
				fmt.Fprintf(started, "start tr%d name=%s\n", base+i+1, sc.name)
				if unsettled >= 4 {
					dl = 3 * time.Second // the supervisor is evidently not restarting things: do not wait long for the rest
				}
				wmu.Unlock()
				r := runScenario(sc, dl)
				wmu.Lock()
				if !r.settledOK {
					unsettled++
					if len(sc.opts) > 0 {
						unsettledOpt++
					}
				}
				r.write(w, fmt.Sprintf("tr%d", base+i+1))
				w.Flush()
				wmu.Unlock()
			}(i, sc)
		}
		wg.Wait()
	}
	runBatch(scs[:nFixed], 0)
	runBatch(scs[nFixed:], nFixed)
}
