//go:build verif

package supervisor

// Correspondence harness for C18, part (i): deterministic differential run.
//
// The harness plays the processor goroutine itself: a supervisor value is built WITHOUT starting
// `processor`, every request sent on pReq is drained into a pending list, and the harness decides which
// real method runs next (processSchedule / processDied / processGC / processKill on the processor side,
// Signal / RunGroup / return / panic on the runnable side).  After every operation the whole tree
// (state, ctx.Err, back-off interval, groups), the newly arrived requests and the live goroutines are
// written on the case line; the Lean driver (family `supervisor`) replays the same operation on the model
// and compares.  Perturbation ops (`set`, `cancel`, `mark`) put the tree into arbitrary states so that
// every branch of processDied / processGC is reached on many tree shapes.

import (
	"bufio"
	"context"
	"errors"
	"fmt"
	"math/rand"
	"os"
	"path/filepath"
	"reflect"
	"sort"
	"strconv"
	"strings"
	"sync"
	"testing"
	"time"

	"go.uber.org/zap"
)

// every wait below is for a goroutine hand-off that normally takes microseconds
const vWait = 8 * time.Second

type vCmd struct {
	err error
	pan bool
}

type vInst struct {
	iid int
	dn  string
	ctx context.Context
	cmd chan vCmd
}

type vSim struct {
	sup     *supervisor
	mu      sync.Mutex
	reqs    []*processorRequest // arrived on pReq, not yet reported
	arrive  chan struct{}
	entered chan *vInst
	stop    chan struct{}
	stopped chan struct{}
	pend    []*processorRequest // reported, waiting for the harness to process them
	live    []*vInst
	nextIid int
	init    time.Duration
	max     time.Duration
	bad     string
}

func vKind(err error) string {
	if err == nil {
		return "nil"
	}
	p := err
	for {
		if in := errors.Unwrap(p); in != nil {
			p = in
			continue
		}
		break
	}
	if p == context.Canceled {
		return "ctx"
	}
	return "other"
}

// pp: the supervisor value has `propagatePanic` set, as after supervisor.New(..., WithPropagatePanic) - what guardiand does
func newVSim(init, max time.Duration, pp bool) *vSim {
	s := &vSim{arrive: make(chan struct{}, 1), entered: make(chan *vInst), stop: make(chan struct{}), stopped: make(chan struct{}), init: init, max: max}
	lg := zap.NewNop()
	s.sup = &supervisor{logger: lg, ilogger: lg, pReq: make(chan *processorRequest), propagatePanic: pp}
	s.sup.root = newNode("root", s.runnable, s.sup, nil)
	s.tune(s.sup.root)
	go func() {
		defer close(s.stopped)
		for {
			select {
			case r := <-s.sup.pReq:
				s.mu.Lock()
				s.reqs = append(s.reqs, r)
				s.mu.Unlock()
				select {
				case s.arrive <- struct{}{}:
				default:
				}
			case <-s.stop:
				return
			}
		}
	}()
	// supervisor.New sends the first schedule request itself
	s.pend = append(s.pend, &processorRequest{schedule: &processorRequestSchedule{dn: "root"}})
	return s
}

func (s *vSim) tune(n *node) {
	n.bo.InitialInterval = s.init
	n.bo.MaxInterval = s.max
	n.bo.Reset()
}

func (s *vSim) runnable(ctx context.Context) error {
	in := &vInst{dn: ctx.Value(dnKey).(string), ctx: ctx, cmd: make(chan vCmd)}
	s.entered <- in
	c := <-in.cmd
	if c.pan {
		panic("verif: scripted panic")
	}
	return c.err
}

// waitReqs waits until at least n unreported requests have arrived.
func (s *vSim) waitReqs(n int) {
	dl := time.After(vWait)
	for {
		s.mu.Lock()
		k := len(s.reqs)
		s.mu.Unlock()
		if k >= n {
			return
		}
		select {
		case <-s.arrive:
		case <-time.After(time.Millisecond):
		case <-dl:
			s.bad = fmt.Sprintf("timeout waiting for %d requests (have %d)", n, k)
			return
		}
	}
}

func vReqStr(r *processorRequest) string {
	switch {
	case r.schedule != nil:
		return "S:" + r.schedule.dn
	case r.died != nil:
		return "D:" + r.died.dn + ":" + vKind(r.died.err)
	}
	return "?"
}

func (s *vSim) nodes() []*node {
	var out []*node
	q := []*node{s.sup.root}
	for len(q) > 0 {
		c := q[0]
		q = q[1:]
		out = append(out, c)
		for _, ch := range c.children {
			q = append(q, ch)
		}
	}
	// map iteration order must not leak into the generator's choices
	sort.Slice(out, func(i, j int) bool { return out[i].dn() < out[j].dn() })
	return out
}

func vBoCur(n *node) int64 {
	return reflect.ValueOf(n.bo).Elem().FieldByName("currentInterval").Int()
}

func vNodeStr(n *node) string {
	c := 0
	if n.ctx.Err() != nil {
		c = 1
	}
	gs := "-"
	if len(n.groups) > 0 {
		parts := make([]string, len(n.groups))
		for i, g := range n.groups {
			names := make([]string, 0, len(g))
			for k := range g {
				names = append(names, k)
			}
			sort.Strings(names)
			parts[i] = strings.Join(names, ",")
			if len(names) == 0 {
				parts[i] = "~"
			}
		}
		gs = strings.Join(parts, "|")
	}
	return fmt.Sprintf("%s/%d/%d/%d/%s", n.dn(), int(n.state), c, vBoCur(n), gs)
}

// dump renders tree, newly arrived requests (moved to pend) and live goroutines.
func (s *vSim) dump() string {
	ns := s.nodes()
	strs := make([]string, len(ns))
	for i, n := range ns {
		strs[i] = vNodeStr(n)
	}
	sort.Strings(strs)
	s.mu.Lock()
	nw := s.reqs
	s.reqs = nil
	s.mu.Unlock()
	// arrival order depends on goroutine scheduling: canonicalise
	sort.SliceStable(nw, func(i, j int) bool { return vReqStr(nw[i]) < vReqStr(nw[j]) })
	rs := make([]string, len(nw))
	for i, r := range nw {
		rs[i] = vReqStr(r)
	}
	s.pend = append(s.pend, nw...)
	nws := "-"
	if len(rs) > 0 {
		nws = strings.Join(rs, ",")
	}
	lv := "-"
	if len(s.live) > 0 {
		parts := make([]string, len(s.live))
		for i, in := range s.live {
			c := 0
			if in.ctx.Err() != nil {
				c = 1
			}
			parts[i] = fmt.Sprintf("%d:%s:%d", in.iid, in.dn, c)
		}
		lv = strings.Join(parts, ",")
	}
	return fmt.Sprintf("tree=%s new=%s live=%s", strings.Join(strs, ";"), nws, lv)
}

func vGuard(f func()) (res string) {
	defer func() {
		if e := recover(); e != nil {
			res = "panic"
		}
	}()
	f()
	return "ok"
}

func (s *vSim) takePend(match func(*processorRequest) bool) *processorRequest {
	for i, r := range s.pend {
		if match(r) {
			s.pend = append(s.pend[:i:i], s.pend[i+1:]...)
			return r
		}
	}
	return nil
}

func (s *vSim) opSched(dn string) string {
	r := s.takePend(func(r *processorRequest) bool { return r.schedule != nil && r.schedule.dn == dn })
	fab := 0
	if r == nil {
		fab = 1
		r = &processorRequest{schedule: &processorRequestSchedule{dn: dn}}
	}
	res := vGuard(func() { s.sup.processSchedule(r.schedule) })
	if res == "ok" {
		select {
		case in := <-s.entered:
			in.iid = s.nextIid
			s.nextIid++
			s.live = append(s.live, in)
		case <-time.After(vWait):
			s.bad = "timeout waiting for the runnable of " + dn + " to start"
		}
	}
	return fmt.Sprintf("dn=%s fab=%d res=%s", dn, fab, res)
}

func vMkErr(kind string, in *vInst) (error, bool) {
	switch kind {
	case "nil":
		return nil, false
	case "other":
		return errors.New("verif: scripted failure"), false
	case "ctx":
		return context.Canceled, false
	case "wctx":
		return fmt.Errorf("verif wrap: %w", context.Canceled), false
	case "wwctx":
		return fmt.Errorf("outer: %w", fmt.Errorf("inner: %w", context.Canceled)), false
	case "deadline":
		return context.DeadlineExceeded, false
	case "wother":
		return fmt.Errorf("wrapped: %w", errors.New("verif: inner failure")), false
	case "subctx", "wsubctx":
		// the Canceled of a sub-context the runnable derived and cancelled itself
		base := context.Background()
		if in != nil {
			base = in.ctx
		}
		sub, c := context.WithCancel(base)
		c()
		if kind == "subctx" {
			return sub.Err(), false
		}
		return fmt.Errorf("upstream: %w", sub.Err()), false
	case "wsubdl":
		sub, c := context.WithDeadline(context.Background(), time.Now().Add(-time.Second))
		defer c()
		<-sub.Done()
		return fmt.Errorf("upstream: %w", sub.Err()), false
	case "own":
		if in != nil {
			return in.ctx.Err(), false
		}
		return nil, false
	case "panic":
		return nil, true
	}
	panic("bad kind " + kind)
}

func (s *vSim) opDied(dn, kind string) string {
	r := s.takePend(func(r *processorRequest) bool { return r.died != nil && r.died.dn == dn && vKind(r.died.err) == kind })
	fab := 0
	if r == nil {
		fab = 1
		e, _ := vMkErr(kind, nil)
		r = &processorRequest{died: &processorRequestDied{dn: dn, err: e}}
	}
	res := vGuard(func() { s.sup.processDied(r.died) })
	return fmt.Sprintf("dn=%s e=%s fab=%d res=%s", dn, kind, fab, res)
}

func (s *vSim) opGC() string {
	before := map[*node]context.Context{}
	for _, n := range s.nodes() {
		before[n] = n.ctx
	}
	res := vGuard(func() { s.sup.processGC() })
	var resets []string
	for _, n := range s.nodes() {
		if c, ok := before[n]; !ok || c != n.ctx {
			resets = append(resets, n.dn())
		}
	}
	sort.Strings(resets)
	s.waitReqs(len(resets))
	rs := "-"
	if len(resets) > 0 {
		rs = strings.Join(resets, ",")
	}
	return fmt.Sprintf("res=%s resets=%s", res, rs)
}

func (s *vSim) instByIid(iid int) *vInst {
	for _, in := range s.live {
		if in.iid == iid {
			return in
		}
	}
	return nil
}

func (s *vSim) dropLive(in *vInst) {
	for i, x := range s.live {
		if x == in {
			s.live = append(s.live[:i:i], s.live[i+1:]...)
			return
		}
	}
}

// a panic raised inside Signal / RunGroup unwinds the runnable in the real system: let the goroutine panic for real
func (s *vSim) unwind(in *vInst) {
	if s.sup.propagatePanic {
		// Nothing would recover it: the process (this test binary) would be gone.  The generator never asks for a call that
		// panics in this mode, so the supervisor call panicked where it must not: the case ends here (a `bad` line).
		s.bad = fmt.Sprintf("panic inside Signal / RunGroup of %s under propagatePanic", in.dn)
		return
	}
	in.cmd <- vCmd{pan: true}
	s.dropLive(in)
	s.waitReqs(1)
}

func (s *vSim) opSig(in *vInst, sg SignalType) string {
	res := vGuard(func() { Signal(in.ctx, sg) })
	if res == "panic" {
		s.unwind(in)
	}
	return fmt.Sprintf("iid=%d s=%d res=%s", in.iid, int(sg), res)
}

func (s *vSim) opRun(in *vInst, names []string) string {
	m := map[string]Runnable{}
	for _, nm := range names {
		m[nm] = s.runnable
	}
	var err error
	res := vGuard(func() { err = RunGroup(in.ctx, m) })
	if res == "panic" {
		s.unwind(in)
	} else if err != nil {
		res = "err"
	} else {
		s.sup.mu.Lock()
		p := s.sup.nodeByDN(in.dn)
		for _, nm := range names {
			s.tune(p.children[nm])
		}
		s.sup.mu.Unlock()
		s.waitReqs(len(names))
	}
	ns := "-"
	if len(names) > 0 {
		q := make([]string, len(names))
		for i, nm := range names {
			q[i] = nm
			if nm == "" {
				q[i] = "~"
			}
		}
		ns = strings.Join(q, ",")
	}
	return fmt.Sprintf("iid=%d names=%s res=%s", in.iid, ns, res)
}

func (s *vSim) opRet(in *vInst, kind string) string {
	e, pan := vMkErr(kind, in)
	eff := kind
	if !pan {
		eff = vKind(e)
	} else {
		eff = "other"
	}
	in.cmd <- vCmd{err: e, pan: pan}
	s.dropLive(in)
	s.waitReqs(1)
	return fmt.Sprintf("iid=%d how=%s e=%s res=ok", in.iid, kind, eff)
}

func (s *vSim) nodeByDNSafe(dn string) (n *node) {
	defer func() {
		if recover() != nil {
			n = nil
		}
	}()
	return s.sup.nodeByDN(dn)
}

func (s *vSim) close() {
	for _, in := range s.live {
		in.cmd <- vCmd{}
	}
	s.waitReqs(len(s.live))
	s.live = nil
	// cancel everything so nothing started by a stray request lingers
	s.sup.processKill()
	close(s.stop)
	<-s.stopped
}

type vGen struct {
	r   *rand.Rand
	w   *bufio.Writer
	n   int
	bad int // cases in which an expected request / goroutine never showed up
}

var vNames = []string{"a", "b", "c", "d", "e_1"}
var vRetKinds = []string{"nil", "other", "ctx", "wctx", "wwctx", "deadline", "wother", "own", "own", "panic", "subctx", "wsubctx", "wsubdl"}

func (g *vGen) pickNames(s *vSim, parent *node) []string {
	r := g.r
	k := []int{0, 1, 1, 1, 2, 2, 3}[r.Intn(7)]
	perm := r.Perm(len(vNames))
	var out []string
	for _, i := range perm {
		if len(out) >= k {
			break
		}
		nm := vNames[i]
		_, exists := parent.children[nm]
		if exists && r.Intn(12) != 0 {
			continue
		}
		out = append(out, nm)
	}
	if r.Intn(25) == 0 {
		out = append(out, []string{"", "A", "%", "Zq"}[r.Intn(4)])
	}
	sort.Strings(out)
	return out
}

// one case = one supervisor and a sequence of operations chosen among what is currently possible.
// pp: the supervisor has `propagatePanic` set.  The option tells the goroutine started by processSchedule not to recover
// a panic of the runnable - the process ends, which is outside what C18 states - so these cases contain no panic: no
// runnable is told to panic and Signal is only called in the state that admits it (never with perturbations: a
// fabricated tree makes Signal / RunGroup panic legitimately).  Everything else - every kind of return, at any time,
// under any interleaving of processor steps - is as in the other cases, and the model's answer is the same.
func (g *vGen) simCase(perturb bool, steps int, pp bool) {
	r := g.r
	g.n++
	cid := fmt.Sprintf("sim%d", g.n)
	inits := []int64{1000, 1000, 7, 333}
	maxs := []int64{6000, 6000, 100, 5000}
	pi := r.Intn(len(inits))
	s := newVSim(time.Duration(inits[pi]), time.Duration(maxs[pi]), pp)
	ppn := 0
	if pp {
		ppn = 1
	}
	fmt.Fprintf(g.w, "reset %s init=%d max=%d pert=%v pp=%d %s\n", cid, inits[pi], maxs[pi], perturb, ppn, s.dump())
	emit := func(op, body string) {
		// fromContext takes sup.mu and then calls nodeByDN: when that panics the mutex stays locked for good
		lk := 1
		if s.sup.mu.TryLock() {
			lk = 0
		}
		s.sup.mu.Unlock()
		fmt.Fprintf(g.w, "%s %s %s lk=%d %s\n", op, cid, body, lk, s.dump())
	}
	for step := 0; step < steps && s.bad == ""; step++ {
		type cand struct {
			w int
			f func()
		}
		var cs []cand
		add := func(w int, f func()) {
			if w > 0 {
				cs = append(cs, cand{w, f})
			}
		}
		seenS := map[string]bool{}
		seenD := map[string]bool{}
		for _, rq := range s.pend {
			rq := rq
			if rq.schedule != nil && !seenS[rq.schedule.dn] {
				seenS[rq.schedule.dn] = true
				add(8, func() { emit("sched", s.opSched(rq.schedule.dn)) })
			}
			if rq.died != nil {
				k := rq.died.dn + ":" + vKind(rq.died.err)
				if !seenD[k] {
					seenD[k] = true
					add(8, func() { emit("died", s.opDied(rq.died.dn, vKind(rq.died.err))) })
				}
			}
		}
		// the GC matters when something is waiting to be restarted; otherwise it is a no-op worth a rare check
		wGC := 1
		for _, m := range s.nodes() {
			if m.state == nodeStateDead || m.state == nodeStateCanceled {
				wGC = 10
			}
		}
		add(wGC, func() { emit("gc", s.opGC()) })
		for _, in := range s.live {
			in := in
			n := s.nodeByDNSafe(in.dn)
			st := nodeState(-1)
			depth := strings.Count(in.dn, ".")
			if n != nil {
				st = n.state
			}
			wH, wD, wR := 1, 1, 1
			if st == nodeStateNew {
				wH = 6
				if depth < 3 {
					wR = 8
				}
			}
			if st == nodeStateHealthy {
				wD = 4
			}
			if !perturb {
				// keep pure cases mostly on the happy path, with a few wrong-state calls
				if wH == 1 && r.Intn(6) != 0 {
					wH = 0
				}
				if wD == 1 && r.Intn(6) != 0 {
					wD = 0
				}
				if wR == 1 && r.Intn(6) != 0 {
					wR = 0
				}
			}
			if pp {
				// only calls that cannot panic
				if st != nodeStateNew {
					wH = 0
				}
				if st != nodeStateHealthy {
					wD = 0
				}
				if n == nil {
					wR = 0
				}
			}
			add(wH, func() { emit("sig", s.opSig(in, SignalHealthy)) })
			add(wD, func() { emit("sig", s.opSig(in, SignalDone)) })
			if n != nil {
				add(wR, func() { emit("run", s.opRun(in, g.pickNames(s, n))) })
			} else {
				add(wR, func() { emit("run", s.opRun(in, []string{"a"})) })
			}
			wRet := 3
			if depth == 0 {
				wRet = 1 // a root that keeps dying keeps the tree at one node
			}
			add(wRet, func() {
				kind := vRetKinds[r.Intn(len(vRetKinds))]
				for pp && kind == "panic" {
					kind = vRetKinds[r.Intn(len(vRetKinds))]
				}
				emit("ret", s.opRet(in, kind))
			})
		}
		if r.Intn(40) == 0 {
			add(3, func() { emit("kill", "res="+vGuard(func() { s.sup.processKill() })) })
		}
		if r.Intn(30) == 0 {
			ghost := []string{"root.zz", "root.a.zz", "root.a.b.zz", "root.zz.a"}[r.Intn(4)]
			if r.Intn(2) == 0 {
				add(3, func() { emit("sched", s.opSched(ghost)) })
			} else {
				add(3, func() { emit("died", s.opDied(ghost, []string{"nil", "ctx", "other"}[r.Intn(3)])) })
			}
		}
		if perturb {
			ns := s.nodes()
			n := ns[r.Intn(len(ns))]
			dn := n.dn()
			setOne := func(n *node, st nodeState) {
				n.state = st
				if st == nodeStateDead || st == nodeStateCanceled {
					n.ctxC()
				}
				emit("set", fmt.Sprintf("dn=%s st=%d res=ok", n.dn(), int(st)))
			}
			add(5, func() { setOne(n, nodeState(r.Intn(5))) })
			// a whole subtree (or the whole tree) put into mostly restartable states: GC passes that restart several
			// subtrees at once, eligible nodes below eligible nodes, live goroutines whose node disappears
			add(4, func() {
				top := dn
				if r.Intn(3) == 0 {
					top = "root"
				}
				restartable := []nodeState{nodeStateDead, nodeStateDead, nodeStateCanceled, nodeStateCanceled, nodeStateDone, nodeStateDone, nodeStateHealthy, nodeStateNew}
				// half of the time the top node itself is left alone, so that its children are restarted side by side
				keepTop := r.Intn(2) == 0
				for _, m := range ns {
					if (m.dn() == top && !keepTop) || strings.HasPrefix(m.dn(), top+".") {
						if r.Intn(5) != 0 {
							setOne(m, restartable[r.Intn(len(restartable))])
						}
					}
				}
			})
			add(2, func() { n.ctxC(); emit("cancel", "dn="+dn+" res=ok") })
			add(3, func() {
				// "the goroutine of this node has returned", expressed through the real code: a nil exit of a DONE node
				old := n.state
				n.state = nodeStateDone
				res := vGuard(func() { s.sup.processDied(&processorRequestDied{dn: dn, err: nil}) })
				n.state = old
				emit("mark", fmt.Sprintf("dn=%s res=%s", dn, res))
			})
			if r.Intn(6) == 0 {
				add(3, func() {
					kind := []string{"nil", "ctx", "other"}[r.Intn(3)]
					emit("died", s.opDied(dn, kind))
				})
			}
			if r.Intn(10) == 0 {
				add(2, func() { emit("sched", s.opSched(dn)) })
			}
		}
		tot := 0
		for _, c := range cs {
			tot += c.w
		}
		x := r.Intn(tot)
		for _, c := range cs {
			if x < c.w {
				c.f()
				break
			}
			x -= c.w
		}
	}
	if s.bad != "" {
		g.bad++
		fmt.Fprintf(g.w, "bad %s why=%s\n", cid, strings.ReplaceAll(s.bad, " ", "_"))
	}
	s.close()
	fmt.Fprintf(g.w, "end %s\n", cid)
}

func vEnvInt(k string, d int) int {
	if v, err := strconv.Atoi(os.Getenv(k)); err == nil {
		return v
	}
	return d
}

func TestVerifSupervisorSim(t *testing.T) {
	out := os.Getenv("VERIF_OUT")
	if out == "" {
		t.Skip("VERIF_OUT not set")
	}
	seed := int64(vEnvInt("VERIF_SEED", 1))
	f, err := os.Create(filepath.Join(out, "supervisor.cases"))
	if err != nil {
		t.Fatal(err)
	}
	defer f.Close()
	g := &vGen{r: rand.New(rand.NewSource(seed*7919 + 18)), w: bufio.NewWriterSize(f, 1<<20)}
	defer g.w.Flush()
	nPure, nPert, steps := 120, 160, 60
	if os.Getenv("VERIF_TIER") == "thorough" {
		nPure, nPert, steps = 1500, 2500, 90
	}
	// a supervisor that loses requests makes every case wait for its timeout: three such cases are evidence enough
	for i := 0; i < nPure && g.bad < 3; i++ {
		g.simCase(false, steps/2+g.r.Intn(steps), false)
	}
	for i := 0; i < nPert && g.bad < 3; i++ {
		g.simCase(true, steps/2+g.r.Intn(steps), false)
	}
	// the same game with `propagatePanic` set on the supervisor (what guardiand runs) and no panicking runnable; a PRNG of
	// its own, after everything else: the cases above are the same for a given seed as before.  One case in which a
	// request never shows up is evidence enough here (each costs a full timeout).
	nPP := 40
	if os.Getenv("VERIF_TIER") == "thorough" {
		nPP = 600
	}
	g.r = rand.New(rand.NewSource(seed*32452843 + 1818))
	for i, bad0 := 0, g.bad; i < nPP && g.bad == bad0; i++ {
		g.simCase(false, steps/2+g.r.Intn(steps), true)
	}
}
