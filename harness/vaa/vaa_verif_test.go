//go:build verif

package vaa

// Correspondence harness for C04 / C05 / C06 (injected into package vaa by `go test -overlay`).
// It runs the real Marshal / Unmarshal / SerializeBody / SigningMsg / VerifySignatures on generated
// inputs and writes one case per line; the Lean driver (family `vaa`) replays the model on the same
// lines and evaluates the Spec on the implementation's results.

import (
	"bufio"
	"crypto/ecdsa"
	"encoding/hex"
	"fmt"
	"math/rand"
	"os"
	"path/filepath"
	"strconv"
	"strings"
	"testing"
	"time"

	"github.com/ethereum/go-ethereum/common"
	"github.com/ethereum/go-ethereum/crypto"
)

func vhex(b []byte) string {
	if len(b) == 0 {
		return "-"
	}
	return hex.EncodeToString(b)
}

func vcanon(v *VAA) string {
	sigs := "-"
	if len(v.Signatures) > 0 {
		parts := make([]string, len(v.Signatures))
		for i, s := range v.Signatures {
			parts[i] = fmt.Sprintf("%d:%s", s.Index, hex.EncodeToString(s.Signature[:]))
		}
		sigs = strings.Join(parts, ";")
	}
	return fmt.Sprintf("%d,%d,%s,%d,%d,%d,%d,%s,%d,%d,%s", v.Version, v.GuardianSetIndex, sigs, v.Timestamp.Unix(),
		v.Nonce, uint16(v.EmitterChain), uint16(v.TargetChain), hex.EncodeToString(v.EmitterAddress[:]), v.Sequence,
		v.ConsistencyLevel, vhex(v.Payload))
}

type vgen struct {
	r    *rand.Rand
	w    *bufio.Writer
	n    int
	dist map[string]int
}

func (g *vgen) id(kind string) string {
	g.n++
	g.dist[kind]++
	return fmt.Sprintf("%s%d", kind, g.n)
}

func (g *vgen) bytesN(n int) []byte {
	b := make([]byte, n)
	g.r.Read(b)
	return b
}

var vBoundary32 = []uint32{0, 1, 255, 256, 65535, 65536, 1<<31 - 1, 1 << 31, 1<<32 - 1}
var vBoundary64 = []uint64{0, 1, 255, 256, 65535, 65536, 1<<32 - 1, 1 << 32, 1<<63 - 1, 1 << 63, 1<<64 - 1}
var vChains = []uint16{0, 1, 2, 4, 10, 17, 25, 42, 255, 256, 10001, 65535}

func (g *vgen) randVAA(nsigs, plen int) *VAA {
	r := g.r
	v := &VAA{Version: 1}
	v.GuardianSetIndex = vBoundary32[r.Intn(len(vBoundary32))]
	if r.Intn(2) == 0 {
		v.GuardianSetIndex = r.Uint32()
	}
	for i := 0; i < nsigs; i++ {
		s := &Signature{Index: uint8(r.Intn(256))}
		copy(s.Signature[:], g.bytesN(65))
		v.Signatures = append(v.Signatures, s)
	}
	sec := int64(vBoundary32[r.Intn(len(vBoundary32))])
	if r.Intn(2) == 0 {
		sec = int64(r.Uint32())
	}
	v.Timestamp = time.Unix(sec, int64(r.Intn(1000000000)))
	v.Nonce = vBoundary32[r.Intn(len(vBoundary32))]
	v.Sequence = vBoundary64[r.Intn(len(vBoundary64))]
	if r.Intn(2) == 0 {
		v.Sequence = r.Uint64()
	}
	v.ConsistencyLevel = uint8(r.Intn(256))
	v.EmitterChain = ChainID(vChains[r.Intn(len(vChains))])
	v.TargetChain = ChainID(vChains[r.Intn(len(vChains))])
	copy(v.EmitterAddress[:], g.bytesN(32))
	v.Payload = g.bytesN(plen)
	return v
}

func vsafeUnmarshal(b []byte) (v *VAA, res string) {
	defer func() {
		if e := recover(); e != nil {
			v, res = nil, "panic"
		}
	}()
	v, err := Unmarshal(b)
	if err != nil {
		if v != nil {
			return nil, "errnonnil"
		}
		return nil, "err"
	}
	return v, "ok"
}

func (g *vgen) enc(v *VAA) []byte {
	out, err := v.Marshal()
	if err != nil {
		panic(err)
	}
	d0 := v.SigningMsg()
	bv, back := vsafeUnmarshal(out)
	line := fmt.Sprintf("enc %s v=%s out=%s back=%s", g.id("enc"), vcanon(v), vhex(out), back)
	if back == "ok" {
		line += fmt.Sprintf(" bv=%s d0=%x d1=%x", vcanon(bv), d0.Bytes(), bv.SigningMsg().Bytes())
	}
	fmt.Fprintln(g.w, line)
	return out
}

func (g *vgen) dec(b []byte) {
	v, res := vsafeUnmarshal(b)
	line := fmt.Sprintf("dec %s in=%s res=%s", g.id("dec"), vhex(b), res)
	if res == "ok" {
		re, _ := v.Marshal()
		line += fmt.Sprintf(" v=%s re=%s", vcanon(v), vhex(re))
	}
	fmt.Fprintln(g.w, line)
}

// determinism (C04): bytes and digest obtained for one VAA must not change when other VAAs are serialized afterwards,
// and recomputing them gives the same result.
func (g *vgen) stable(v, other *VAA) {
	keepBody := v.SerializeBody()
	keepWire, _ := v.Marshal()
	keepDig := v.SigningMsg()
	_ = other.SerializeBody()
	_, _ = other.Marshal()
	_ = other.SigningMsg()
	fmt.Fprintf(g.w, "eq %s signing-body-not-stable %s %s\n", g.id("stb"), vhex(keepBody), vhex(v.SerializeBody()))
	w2, _ := v.Marshal()
	fmt.Fprintf(g.w, "eq %s wire-bytes-not-stable %s %s\n", g.id("stb"), vhex(keepWire), vhex(w2))
	fmt.Fprintf(g.w, "eq %s digest-not-stable %x %x\n", g.id("stb"), keepDig.Bytes(), v.SigningMsg().Bytes())
	fmt.Fprintf(g.w, "eq %s digest-not-double-keccak-of-held-body %x %x\n", g.id("stb"), keepDig.Bytes(), crypto.Keccak256(crypto.Keccak256(keepBody)))
}

// freshness (C05 / C04 / C06): a VAA value that has already been encoded, hashed or produced by Unmarshal is changed in one body
// field - in place, the same object - and encoded / hashed again: the new bytes and digest must be those of the changed value
// (an `enc` / `body` line is emitted for it, compared with the model) and must differ from the old ones.
func (g *vgen) fresh(v *VAA) {
	out, err := v.Marshal()
	if err != nil {
		return
	}
	for _, src := range []string{"used", "decoded"} {
		var x *VAA
		if src == "used" {
			x = vclone(v)
			_, _ = x.Marshal()
			_ = x.SigningMsg()
			_ = x.SerializeBody()
		} else {
			var res string
			x, res = vsafeUnmarshal(out)
			if res != "ok" {
				continue
			}
			_ = x.SigningMsg()
		}
		before, _ := x.Marshal()
		dBefore := x.SigningMsg().Bytes()
		switch g.r.Intn(5) {
		case 0:
			x.Sequence++
		case 1:
			x.Payload[g.r.Intn(len(x.Payload))] ^= 1 << uint(g.r.Intn(8)) // in place: same backing array, same length
		case 2:
			x.TargetChain ^= 1
		case 3:
			x.Nonce++
		default:
			x.Payload = append(x.Payload, 7)
		}
		after, _ := x.Marshal()
		fmt.Fprintf(g.w, "ne %s encoding-ignores-field-change-%s %s %s\n", g.id("frs"), src, vhex(before), vhex(after))
		fmt.Fprintf(g.w, "ne %s digest-ignores-field-change-%s %x %x\n", g.id("frs"), src, dBefore, x.SigningMsg().Bytes())
		g.enc(x)
		g.body(x)
	}
}

func (g *vgen) body(v *VAA) {
	b := v.SerializeBody()
	kk := crypto.Keccak256(crypto.Keccak256(b))
	fmt.Fprintf(g.w, "body %s v=%s body=%s dig=%x kk=%x\n", g.id("body"), vcanon(v), vhex(b), v.SigningMsg().Bytes(), kk)
}

func vclone(v *VAA) *VAA {
	c := *v
	c.Payload = append([]byte{}, v.Payload...)
	c.Signatures = nil
	for _, s := range v.Signatures {
		sc := *s
		c.Signatures = append(c.Signatures, &sc)
	}
	return &c
}

// C04: header / sub-second changes keep the digest, any body field change alters the signing body and digest.
func (g *vgen) digestLaws(v *VAA) {
	d := hex.EncodeToString(v.SigningMsg().Bytes())
	h := vclone(v)
	h.Version = uint8(g.r.Intn(256))
	h.GuardianSetIndex = g.r.Uint32()
	h.Signatures = append(h.Signatures, &Signature{Index: 3})
	h.Timestamp = time.Unix(v.Timestamp.Unix(), int64(g.r.Intn(1000000000)))
	fmt.Fprintf(g.w, "eq %s digest-depends-on-header-or-subsecond %s %x\n", g.id("hdr"), d, h.SigningMsg().Bytes())
	muts := []func(c *VAA){
		func(c *VAA) { c.Timestamp = time.Unix((c.Timestamp.Unix()+1+int64(g.r.Intn(1000)))%(1<<32), 0) },
		func(c *VAA) { c.Nonce ^= 1 << uint(g.r.Intn(32)) },
		func(c *VAA) { c.EmitterChain ^= 1 << uint(g.r.Intn(16)) },
		func(c *VAA) { c.TargetChain ^= 1 << uint(g.r.Intn(16)) },
		func(c *VAA) { c.EmitterAddress[g.r.Intn(32)] ^= 1 << uint(g.r.Intn(8)) },
		func(c *VAA) { c.Sequence ^= 1 << uint(g.r.Intn(64)) },
		func(c *VAA) { c.ConsistencyLevel ^= 1 << uint(g.r.Intn(8)) },
		func(c *VAA) {
			if len(c.Payload) > 0 {
				c.Payload[g.r.Intn(len(c.Payload))] ^= 1 << uint(g.r.Intn(8))
			} else {
				c.Payload = []byte{0}
			}
		},
		func(c *VAA) { c.Payload = append(c.Payload, 0) },
		// move a byte across the consistency-level / payload boundary
		func(c *VAA) { c.Payload = append([]byte{c.ConsistencyLevel}, c.Payload...); c.ConsistencyLevel ^= 0x55 },
	}
	for i, m := range muts {
		c := vclone(v)
		m(c)
		if vcanon(c) == vcanon(v) {
			continue
		}
		fmt.Fprintf(g.w, "ne %s body-field-%d-not-in-signing-body %s %s\n", g.id("fld"), i, vhex(v.SerializeBody()), vhex(c.SerializeBody()))
		fmt.Fprintf(g.w, "ne %s body-field-%d-not-in-digest %s %x\n", g.id("fld"), i, d, c.SigningMsg().Bytes())
	}
}

// ---------------------------------------------------------------- C06

type vkey struct {
	k    *ecdsa.PrivateKey
	addr common.Address
}

func vnewKey() vkey {
	k, err := crypto.GenerateKey()
	if err != nil {
		panic(err)
	}
	return vkey{k, crypto.PubkeyToAddress(k.PublicKey)}
}

func vsign(k vkey, digest []byte) [65]byte {
	s, err := crypto.Sign(digest, k.k)
	if err != nil {
		panic(err)
	}
	var out [65]byte
	copy(out[:], s)
	return out
}

func (g *vgen) ver(kind string, v *VAA, addrs []common.Address) {
	// the digest for the oracle is recomputed from the body bytes, never taken from the VAA's own SigningMsg()
	digest := crypto.Keccak256(crypto.Keccak256(v.SerializeBody()))
	res := func() (r string) {
		defer func() {
			if e := recover(); e != nil {
				r = "panic"
			}
		}()
		return strconv.FormatBool(v.VerifySignatures(addrs))
	}()
	as := "-"
	if len(addrs) > 0 {
		p := make([]string, len(addrs))
		for i, a := range addrs {
			p[i] = hex.EncodeToString(a.Bytes())
		}
		as = strings.Join(p, ",")
	}
	sigs := "-"
	rec := "-"
	if len(v.Signatures) > 0 {
		p := make([]string, len(v.Signatures))
		seen := map[string]bool{}
		var rp []string
		for i, s := range v.Signatures {
			sh := hex.EncodeToString(s.Signature[:])
			p[i] = fmt.Sprintf("%d:%s", s.Index, sh)
			if !seen[sh] {
				seen[sh] = true
				// oracle: independent call of ecrecover for (digest, signature)
				pk, err := crypto.Ecrecover(digest, s.Signature[:])
				if err != nil {
					rp = append(rp, sh+":none")
				} else {
					rp = append(rp, sh+":"+hex.EncodeToString(crypto.Keccak256(pk[1:])[12:]))
				}
			}
		}
		sigs = strings.Join(p, ";")
		rec = strings.Join(rp, ";")
	}
	fmt.Fprintf(g.w, "ver %s addrs=%s sigs=%s rec=%s res=%s\n", g.id("ver-"+kind+"-"), as, sigs, rec, res)
}

func (g *vgen) verifyFamily(keys []vkey, n int, repeats bool) {
	r := g.r
	set := make([]vkey, n)
	for i := range set {
		set[i] = keys[r.Intn(len(keys))]
		if !repeats {
			set[i] = keys[i]
		}
	}
	addrs := make([]common.Address, n)
	for i := range set {
		addrs[i] = set[i].addr
	}
	base := g.randVAA(0, 1+r.Intn(40))
	digest := base.SigningMsg().Bytes()
	// a random ascending signer subset
	var idx []int
	for i := 0; i < n; i++ {
		if r.Intn(3) != 0 {
			idx = append(idx, i)
		}
	}
	mk := func(ix []int) *VAA {
		c := vclone(base)
		for _, i := range ix {
			c.Signatures = append(c.Signatures, &Signature{Index: uint8(i), Signature: vsign(set[i], digest)})
		}
		return c
	}
	valid := mk(idx)
	g.ver("valid", valid, addrs)
	g.ver("nosigs", mk(nil), addrs)
	if len(idx) >= 2 {
		i := r.Intn(len(idx) - 1)
		c := vclone(valid)
		c.Signatures[i], c.Signatures[i+1] = c.Signatures[i+1], c.Signatures[i]
		g.ver("swap", c, addrs)
		c = vclone(valid)
		c.Signatures[i+1].Index = c.Signatures[i].Index
		g.ver("sameindex", c, addrs)
	}
	// ordering at the numeric boundaries of the index (0, 127|128 = int8 wrap, 254|255): every signature below is valid for
	// the position it claims; only the order differs.  Descending or repeated orders must fail, ascending ones succeed.
	if !repeats {
		var bs []int
		for _, b := range []int{0, 1, 2, 63, 64, 126, 127, 128, 129, 130, 191, 192, 200, 253, 254} {
			if b < n {
				bs = append(bs, b)
			}
		}
		for _, hi := range bs {
			if hi == 0 {
				continue
			}
			for _, lo := range []int{0, hi - 1, hi / 2} {
				if lo >= hi {
					continue
				}
				g.ver("order-desc", mk([]int{hi, lo}), addrs)
				g.ver("order-asc", mk([]int{lo, hi}), addrs)
				if hi+1 < n {
					g.ver("order-dip", mk([]int{lo, hi + 1, hi}), addrs)
					g.ver("order-peak", mk([]int{hi, hi + 1, lo}), addrs)
				}
			}
		}
	}
	if len(idx) >= 1 {
		i := r.Intn(len(idx))
		c := vclone(valid)
		d := *c.Signatures[i]
		c.Signatures = append(c.Signatures[:i+1], append([]*Signature{&d}, c.Signatures[i+1:]...)...)
		g.ver("dup", c, addrs)
		c = vclone(valid)
		c.Signatures = append(c.Signatures, &d)
		g.ver("dupend", c, addrs)
		c = vclone(valid)
		c.Signatures[i].Index = uint8(r.Intn(256))
		g.ver("reindex", c, addrs)
		c = vclone(valid)
		c.Signatures[i].Index = 255
		g.ver("index255", c, addrs)
		c = vclone(valid)
		c.Signatures[i].Index = uint8(n % 256)
		g.ver("indexlen", c, addrs)
		c = vclone(valid)
		c.Signatures[i].Signature = vsign(vnewKey(), digest)
		g.ver("outsider", c, addrs)
		c = vclone(valid)
		c.Signatures[i].Signature = vsign(set[(idx[i]+1)%n], digest)
		g.ver("othermember", c, addrs)
		c = vclone(valid)
		c.Signatures[i].Signature[r.Intn(64)] ^= 1 << uint(r.Intn(8))
		g.ver("sigflip", c, addrs)
		c = vclone(valid)
		c.Signatures[i].Signature[64] = byte(4 + r.Intn(252))
		g.ver("badrecid", c, addrs)
		c = vclone(valid)
		c.Signatures[i].Signature[64] ^= 1
		g.ver("fliprecid", c, addrs)
		c = vclone(valid)
		c.Signatures[i].Signature = [65]byte{}
		g.ver("zerosig", c, addrs)
		// body bit flip: signatures made for another digest
		c = vclone(valid)
		c.Payload[r.Intn(len(c.Payload))] ^= 1 << uint(r.Intn(8))
		g.ver("bodyflip", c, addrs)
		c = vclone(valid)
		c.Sequence++
		g.ver("bodyseq", c, addrs)
		// the same, on an object whose digest has been computed and whose signatures have been verified before
		c = vclone(valid)
		_ = c.SigningMsg()
		_ = c.VerifySignatures(addrs)
		c.Payload[r.Intn(len(c.Payload))] ^= 1 << uint(r.Intn(8))
		g.ver("bodyflip-after-use", c, addrs)
		c = vclone(valid)
		_ = c.SigningMsg()
		_ = c.VerifySignatures(addrs)
		c.Sequence++
		g.ver("bodyseq-after-use", c, addrs)
		// shorter / longer address list
		g.ver("shortlist", valid, addrs[:idx[len(idx)-1]])
		g.ver("emptylist", valid, nil)
		more := append(append([]common.Address{}, addrs...), vnewKey().addr)
		g.ver("longerlist", valid, more)
		// drop one signature: still valid
		c = vclone(valid)
		c.Signatures = append(c.Signatures[:i], c.Signatures[i+1:]...)
		g.ver("dropone", c, addrs)
	}
	if repeats && n >= 2 {
		// the same key at two positions, both signed (valid positionally, must be rejected as double count)
		a := r.Intn(n - 1)
		b := a + 1 + r.Intn(n-a-1)
		set2 := append([]vkey{}, set...)
		set2[b] = set2[a]
		ad2 := append([]common.Address{}, addrs...)
		ad2[b] = ad2[a]
		c := vclone(base)
		c.Signatures = []*Signature{{Index: uint8(a), Signature: vsign(set2[a], digest)}, {Index: uint8(b), Signature: vsign(set2[b], digest)}}
		g.ver("repeatedkey", c, ad2)
		c = vclone(base)
		c.Signatures = []*Signature{{Index: uint8(b), Signature: vsign(set2[b], digest)}}
		g.ver("repeatedkey-single", c, ad2)
	}
	if n >= 24 {
		// a long list in which one guardian's key appears twice, both far down (positions >= 20), preceded by twenty genuine
		// distinct signers: the second appearance must still be recognised as the same signer
		a := 20 + r.Intn(n-22)
		b := a + 1 + r.Intn(n-a-1)
		set2 := append([]vkey{}, set...)
		ad2 := append([]common.Address{}, addrs...)
		if repeats {
			for i := 0; i < 20; i++ {
				set2[i] = keys[i%len(keys)]
				ad2[i] = set2[i].addr
			}
		}
		set2[b] = set2[a]
		ad2[b] = ad2[a]
		distinct := map[common.Address]bool{}
		ok := true
		for i := 0; i < 20; i++ {
			if distinct[ad2[i]] || ad2[i] == ad2[a] {
				ok = false
			}
			distinct[ad2[i]] = true
		}
		if ok {
			c := vclone(base)
			for i := 0; i < 20; i++ {
				c.Signatures = append(c.Signatures, &Signature{Index: uint8(i), Signature: vsign(set2[i], digest)})
			}
			c.Signatures = append(c.Signatures, &Signature{Index: uint8(a), Signature: vsign(set2[a], digest)}, &Signature{Index: uint8(b), Signature: vsign(set2[b], digest)})
			g.ver("repeatedkey-late", c, ad2)
		}
	}
	// a guardian list that contains the zero address (and other degenerate addresses) together with signature bytes
	// that do not recover at all: recovery failure must never be taken for "recovers to 0x00..00"
	if n >= 1 {
		for _, fill := range []byte{0x00, 0xff} {
			i := r.Intn(n)
			ad2 := append([]common.Address{}, addrs...)
			ad2[i] = common.Address{}
			c := vclone(base)
			var bad [65]byte
			for j := range bad {
				bad[j] = fill
			}
			c.Signatures = []*Signature{{Index: uint8(i), Signature: bad}}
			g.ver("zeroaddr-unrecoverable", c, ad2)
			bad2 := vsign(set[i], digest)
			bad2[64] = 27 + byte(r.Intn(200))
			c = vclone(base)
			c.Signatures = []*Signature{{Index: uint8(i), Signature: bad2}}
			g.ver("zeroaddr-badrecid", c, ad2)
			// all guardians zero, all signatures garbage
			adz := make([]common.Address, n)
			c = vclone(base)
			for j := 0; j < n && j < 255; j++ {
				c.Signatures = append(c.Signatures, &Signature{Index: uint8(j), Signature: bad})
			}
			g.ver("allzero", c, adz)
		}
	}
	// more signatures than addresses
	if n < 255 {
		c := vclone(base)
		for i := 0; i <= n; i++ {
			c.Signatures = append(c.Signatures, &Signature{Index: uint8(i), Signature: vsign(keys[i%len(keys)], digest)})
		}
		g.ver("toomany", c, addrs)
	}
}

func TestVerifVaa(t *testing.T) {
	seed, _ := strconv.ParseInt(os.Getenv("VERIF_SEED"), 10, 64)
	thorough := os.Getenv("VERIF_TIER") == "thorough"
	f, err := os.Create(filepath.Join(os.Getenv("VERIF_OUT"), "vaa.cases"))
	if err != nil {
		t.Fatal(err)
	}
	defer f.Close()
	g := &vgen{r: rand.New(rand.NewSource(seed)), w: bufio.NewWriterSize(f, 1<<20), dist: map[string]int{}}
	defer g.w.Flush()

	part := os.Getenv("VERIF_PART")
	plens := []int{1, 2, 3, 52, 53, 100, 999, 1000, 1001, 1002, 1024, 2000, 4096}
	nsig := []int{0, 1, 2, 13, 19, 255}
	// the 16-bit boundary of the payload length (no length field on the wire: the payload is "the rest")
	plens = append(plens, 65535, 65536, 65537)
	if thorough {
		plens = append(plens, 9999, 70000, 200000)
	}
	rounds := 3
	if thorough {
		rounds = 12
	}
	if part == "c06" {
		rounds = 0
	}
	for round := 0; round < rounds; round++ {
		for _, pl := range plens {
			for _, ns := range nsig {
				if ns == 255 && pl > 1100 && !thorough {
					continue
				}
				if pl > 60000 && !thorough && (ns > 1 || round > 0) {
					continue
				}
				v := g.randVAA(ns, pl)
				out := g.enc(v)
				g.body(v)
				if round == 0 && pl <= 1002 {
					g.digestLaws(v)
				}
				if pl <= 1002 {
					g.stable(v, g.randVAA(ns, 1+g.r.Intn(200)))
					if round == 0 {
						g.fresh(v)
					}
				}
				// structured mutations of the valid encoding
				if pl <= 100 && ns <= 2 {
					for cut := 0; cut <= len(out); cut++ {
						if thorough || cut < 70 || cut%7 == 0 || cut > len(out)-3 {
							g.dec(out[:cut])
						}
					}
				}
				for k := 0; k < 6; k++ {
					m := append([]byte{}, out...)
					switch k {
					case 0:
						m[0] = byte(g.r.Intn(256))
					case 1:
						m[5] = byte(g.r.Intn(256)) // signature count
					case 2:
						m[g.r.Intn(len(m))] ^= 1 << uint(g.r.Intn(8))
					case 3:
						m = append(m, g.bytesN(1+g.r.Intn(5))...)
					case 4:
						m = m[:g.r.Intn(len(m))]
					case 5:
						m[5] = byte(ns + 1)
					}
					g.dec(m)
				}
			}
		}
		// out-of-domain encodes: empty payload, timestamps beyond 32 bits
		v := g.randVAA(g.r.Intn(3), 0)
		g.enc(v)
		g.body(v)
		v = g.randVAA(1, 5)
		v.Timestamp = time.Unix(int64(1)<<32+int64(g.r.Intn(100000)), 5)
		g.enc(v)
		g.body(v)
		if thorough {
			g.enc(g.randVAA(256, 3))
			g.enc(g.randVAA(300, 3))
		}
		// arbitrary bytes
		for k := 0; k < 60; k++ {
			b := g.bytesN(g.r.Intn(200))
			if len(b) > 0 && g.r.Intn(2) == 0 {
				b[0] = 1
			}
			if len(b) > 5 && g.r.Intn(2) == 0 {
				b[5] = byte(g.r.Intn(3))
			}
			g.dec(b)
		}
	}

	// C06
	nkeys := 255
	keys := make([]vkey, nkeys)
	for i := range keys {
		keys[i] = vnewKey()
	}
	sizes := []int{0, 1, 2, 3, 4, 7, 13, 19, 20, 64, 255}
	if thorough {
		sizes = nil
		for n := 0; n <= 255; n++ {
			sizes = append(sizes, n)
		}
	}
	if part != "c06" && part != "" {
		sizes = nil
	}
	for _, n := range sizes {
		reps := 2
		if n > 64 && !thorough {
			reps = 1
		}
		for k := 0; k < reps; k++ {
			if n == 0 {
				v := g.randVAA(0, 3)
				g.ver("emptyset", v, nil)
				v.Signatures = []*Signature{{Index: 0, Signature: vsign(keys[0], v.SigningMsg().Bytes())}}
				g.ver("emptyset-onesig", v, nil)
				continue
			}
			g.verifyFamily(keys, n, false)
			g.verifyFamily(keys, n, true)
		}
	}
	df, _ := os.Create(filepath.Join(os.Getenv("VERIF_OUT"), "vaa.dist"))
	for k, v := range g.dist {
		fmt.Fprintf(df, "%s %d\n", k, v)
	}
	df.Close()
}
