//go:build verif

package vaa

// Correspondence harness for C04 / C05 / C06 (injected into package vaa by `go test -overlay`).
// It runs the real Marshal / Unmarshal / SerializeBody / SigningMsg / VerifySignatures on generated
// inputs and writes one case per line; the Lean driver (family `vaa`) replays the model on the same
// lines and evaluates the Spec on the implementation's results.

import (
	"bufio"
	"bytes"
	"crypto/ecdsa"
	"encoding/binary"
	"encoding/hex"
	"fmt"
	"math/big"
	"math/rand"
	"os"
	"os/exec"
	"path/filepath"
	"strconv"
	"strings"
	"sync"
	"testing"
	"time"

	"github.com/ethereum/go-ethereum/common"
	"github.com/ethereum/go-ethereum/crypto"
)

func vhex(b []byte) string {
	if len(b) == 0 {
		return "-"
	}
	return hex.EncodeToString(b)
}

func vcanon(v *VAA) string {
	sigs := "-"
	if len(v.Signatures) > 0 {
		parts := make([]string, len(v.Signatures))
		for i, s := range v.Signatures {
			parts[i] = fmt.Sprintf("%d:%s", s.Index, hex.EncodeToString(s.Signature[:]))
		}
		sigs = strings.Join(parts, ";")
	}
	return fmt.Sprintf("%d,%d,%s,%d,%d,%d,%d,%s,%d,%d,%s", v.Version, v.GuardianSetIndex, sigs, v.Timestamp.Unix(),
		v.Nonce, uint16(v.EmitterChain), uint16(v.TargetChain), hex.EncodeToString(v.EmitterAddress[:]), v.Sequence,
		v.ConsistencyLevel, vhex(v.Payload))
}

type vgen struct {
	r    *rand.Rand
	w    *bufio.Writer
	n    int
	dist map[string]int
	// kinds of verification cases that also go through the wire path on the large (> 64 addresses) guardian lists
	wireKinds map[string]bool
	crafts    int // number of craftFamily calls so far
}

func (g *vgen) id(kind string) string {
	g.n++
	g.dist[kind]++
	return fmt.Sprintf("%s%d", kind, g.n)
}

func (g *vgen) bytesN(n int) []byte {
	b := make([]byte, n)
	g.r.Read(b)
	return b
}

var vBoundary32 = []uint32{0, 1, 255, 256, 65535, 65536, 1<<31 - 1, 1 << 31, 1<<32 - 1}
var vBoundary64 = []uint64{0, 1, 255, 256, 65535, 65536, 1<<32 - 1, 1 << 32, 1<<63 - 1, 1 << 63, 1<<64 - 1}
var vChains = []uint16{0, 1, 2, 4, 10, 17, 25, 42, 255, 256, 10001, 65535}

func (g *vgen) randVAA(nsigs, plen int) *VAA {
	r := g.r
	v := &VAA{Version: 1}
	v.GuardianSetIndex = vBoundary32[r.Intn(len(vBoundary32))]
	if r.Intn(2) == 0 {
		v.GuardianSetIndex = r.Uint32()
	}
	for i := 0; i < nsigs; i++ {
		s := &Signature{Index: uint8(r.Intn(256))}
		copy(s.Signature[:], g.bytesN(65))
		v.Signatures = append(v.Signatures, s)
	}
	sec := int64(vBoundary32[r.Intn(len(vBoundary32))])
	if r.Intn(2) == 0 {
		sec = int64(r.Uint32())
	}
	v.Timestamp = time.Unix(sec, int64(r.Intn(1000000000)))
	v.Nonce = vBoundary32[r.Intn(len(vBoundary32))]
	v.Sequence = vBoundary64[r.Intn(len(vBoundary64))]
	if r.Intn(2) == 0 {
		v.Sequence = r.Uint64()
	}
	v.ConsistencyLevel = uint8(r.Intn(256))
	v.EmitterChain = ChainID(vChains[r.Intn(len(vChains))])
	v.TargetChain = ChainID(vChains[r.Intn(len(vChains))])
	copy(v.EmitterAddress[:], g.bytesN(32))
	v.Payload = g.bytesN(plen)
	return v
}

func vsafeUnmarshal(b []byte) (v *VAA, res string) {
	defer func() {
		if e := recover(); e != nil {
			v, res = nil, "panic"
		}
	}()
	v, err := Unmarshal(b)
	if err != nil {
		if v != nil {
			return nil, "errnonnil"
		}
		return nil, "err"
	}
	return v, "ok"
}

// vsafeMarshal: Marshal's error (or panic) is a result of the case, never a failure of the harness.
func vsafeMarshal(v *VAA) (out []byte, res string) {
	defer func() {
		if e := recover(); e != nil {
			out, res = nil, "panic"
		}
	}()
	out, err := v.Marshal()
	if err != nil {
		return nil, "err:" + vword(err.Error())
	}
	return out, "ok"
}

func vword(s string) string {
	s = strings.Map(func(c rune) rune {
		if c == ' ' || c == '\n' || c == '\t' || c == '=' {
			return '_'
		}
		return c
	}, s)
	if len(s) > 120 {
		s = s[:120]
	}
	return s
}

// hand-written encoder of the wire layout (1+4+1 header, 66-byte records, 53-byte fixed body part, payload = the rest),
// independent of Marshal / serializeBody: used where a case needs wire bytes the implementation's encoder might refuse or reorder.
func vwireBody(v *VAA) []byte {
	b := make([]byte, 53, 53+len(v.Payload))
	binary.BigEndian.PutUint32(b[0:], uint32(v.Timestamp.Unix()))
	binary.BigEndian.PutUint32(b[4:], v.Nonce)
	binary.BigEndian.PutUint16(b[8:], uint16(v.EmitterChain))
	binary.BigEndian.PutUint16(b[10:], uint16(v.TargetChain))
	copy(b[12:44], v.EmitterAddress[:])
	binary.BigEndian.PutUint64(b[44:], v.Sequence)
	b[52] = v.ConsistencyLevel
	return append(b, v.Payload...)
}

func vwire(v *VAA) []byte {
	b := []byte{v.Version, 0, 0, 0, 0, uint8(len(v.Signatures))}
	binary.BigEndian.PutUint32(b[1:], v.GuardianSetIndex)
	for _, s := range v.Signatures {
		b = append(b, s.Index)
		b = append(b, s.Signature[:]...)
	}
	return append(b, vwireBody(v)...)
}

func (g *vgen) enc(v *VAA) []byte {
	out, mres := vsafeMarshal(v)
	if mres != "ok" {
		// no encoding at all: the driver decides whether the value was in the statement's domain
		fmt.Fprintf(g.w, "enc %s v=%s out=- back=nomarshal merr=%s\n", g.id("enc"), vcanon(v), mres)
		return nil
	}
	d0 := v.SigningMsg()
	bv, back := vsafeUnmarshal(out)
	line := fmt.Sprintf("enc %s v=%s out=%s back=%s", g.id("enc"), vcanon(v), vhex(out), back)
	if back == "ok" {
		line += fmt.Sprintf(" bv=%s d0=%x d1=%x", vcanon(bv), d0.Bytes(), bv.SigningMsg().Bytes())
	}
	fmt.Fprintln(g.w, line)
	return out
}

func (g *vgen) dec(b []byte) {
	v, res := vsafeUnmarshal(b)
	line := fmt.Sprintf("dec %s in=%s res=%s", g.id("dec"), vhex(b), res)
	if res == "ok" {
		re, mres := vsafeMarshal(v)
		line += fmt.Sprintf(" v=%s re=%s", vcanon(v), vhex(re))
		if mres != "ok" {
			line += " reerr=" + mres
		}
	}
	fmt.Fprintln(g.w, line)
}

// determinism (C04): bytes and digest obtained for one VAA must not change when other VAAs are serialized afterwards,
// and recomputing them gives the same result.
func (g *vgen) stable(v, other *VAA) {
	keepBody := v.SerializeBody()
	keepWire, _ := v.Marshal()
	keepDig := v.SigningMsg()
	_ = other.SerializeBody()
	_, _ = other.Marshal()
	_ = other.SigningMsg()
	fmt.Fprintf(g.w, "eq %s signing-body-not-stable %s %s\n", g.id("stb"), vhex(keepBody), vhex(v.SerializeBody()))
	w2, _ := v.Marshal()
	fmt.Fprintf(g.w, "eq %s wire-bytes-not-stable %s %s\n", g.id("stb"), vhex(keepWire), vhex(w2))
	fmt.Fprintf(g.w, "eq %s digest-not-stable %x %x\n", g.id("stb"), keepDig.Bytes(), v.SigningMsg().Bytes())
	fmt.Fprintf(g.w, "eq %s digest-not-double-keccak-of-held-body %x %x\n", g.id("stb"), keepDig.Bytes(), crypto.Keccak256(crypto.Keccak256(keepBody)))
}

// freshness (C05 / C04 / C06): a VAA value that has already been encoded, hashed or produced by Unmarshal is changed in one body
// field - in place, the same object - and encoded / hashed again: the new bytes and digest must be those of the changed value
// (an `enc` / `body` line is emitted for it, compared with the model) and must differ from the old ones.
func (g *vgen) fresh(v *VAA) {
	out, err := v.Marshal()
	if err != nil {
		return
	}
	for _, src := range []string{"used", "decoded"} {
		var x *VAA
		if src == "used" {
			x = vclone(v)
			_, _ = x.Marshal()
			_ = x.SigningMsg()
			_ = x.SerializeBody()
		} else {
			var res string
			x, res = vsafeUnmarshal(out)
			if res != "ok" {
				continue
			}
			_ = x.SigningMsg()
		}
		before, _ := x.Marshal()
		dBefore := x.SigningMsg().Bytes()
		switch g.r.Intn(5) {
		case 0:
			x.Sequence++
		case 1:
			x.Payload[g.r.Intn(len(x.Payload))] ^= 1 << uint(g.r.Intn(8)) // in place: same backing array, same length
		case 2:
			x.TargetChain ^= 1
		case 3:
			x.Nonce++
		default:
			x.Payload = append(x.Payload, 7)
		}
		after, _ := x.Marshal()
		fmt.Fprintf(g.w, "ne %s encoding-ignores-field-change-%s %s %s\n", g.id("frs"), src, vhex(before), vhex(after))
		fmt.Fprintf(g.w, "ne %s digest-ignores-field-change-%s %x %x\n", g.id("frs"), src, dBefore, x.SigningMsg().Bytes())
		g.enc(x)
		g.body(x)
	}
}

// decode HISTORIES (C05): "decoding the encoding of any VAA yields an equal VAA" whatever was decoded before and wherever the bytes
// sit.  dseq decodes `in` (the caller's buffer, handed to Unmarshal as it is) and records what the buffer held at the previous
// decode; `want` = the in-domain VAA whose hand-written encoding `in` is (nil for broken messages).
func (g *vgen) dseq(prev, in []byte, want *VAA) {
	v, res := vsafeUnmarshal(in)
	line := fmt.Sprintf("dseq %s prev=%s in=%s res=%s", g.id("dseq"), vhex(prev), vhex(in), res)
	if res == "ok" {
		re, mres := vsafeMarshal(v)
		line += fmt.Sprintf(" v=%s re=%s", vcanon(v), vhex(re))
		if mres != "ok" {
			line += " reerr=" + mres
		}
	}
	if want != nil {
		line += " want=" + vcanon(want)
	}
	fmt.Fprintln(g.w, line)
}

// a reader that reuses ONE read buffer for a run of messages of equal length (same signature count, same payload length): random
// VAAs, a VAA that differs from its predecessor in a single field, the same message again, and now and then a message that does
// not decode (wrong version byte, count byte one too high) in between
func (g *vgen) bufSeq(nsigs, plen int) {
	buf := make([]byte, 6+66*nsigs+53+plen)
	var prev []byte
	var last *VAA
	k := 4 + g.r.Intn(3)
	for i := 0; i < k; i++ {
		var v *VAA
		switch x := g.r.Intn(6); {
		case last != nil && x == 0:
			v = vclone(last)
			v.Sequence++
		case last != nil && x == 1:
			v = vclone(last)
			v.Payload[g.r.Intn(len(v.Payload))] ^= 1 << uint(g.r.Intn(8))
		case last != nil && x == 2 && i > 1:
			v = vclone(last) // the same message once more
		default:
			v = g.randVAA(nsigs, plen)
		}
		enc := vwire(v)
		copy(buf, enc)
		g.dseq(prev, buf, v)
		prev, last = enc, v
		if g.r.Intn(3) == 0 {
			if g.r.Intn(2) == 0 {
				buf[0] = 2
			} else {
				buf[5]++
			}
			g.dseq(prev, buf, nil)
			prev = append([]byte{}, buf...)
		}
	}
}

// two callers decode the same bytes (each from its own copy); the first edits what IT got - payload bytes in place, a signature
// byte, a guardian index, the payload wiped - and the second caller's value must still be what it was; a third decode of the same
// bytes afterwards must still give the VAA they encode
func (g *vgen) alias(v *VAA) {
	out := vwire(v)
	v1, r1 := vsafeUnmarshal(append([]byte{}, out...))
	v2, r2 := vsafeUnmarshal(append([]byte{}, out...))
	if r1 != "ok" || r2 != "ok" {
		return
	}
	c2 := vcanon(v2)
	how := []string{"payload-byte", "payload-wiped", "signature-byte", "guardian-index"}[g.r.Intn(4)]
	if len(v1.Signatures) == 0 && (how == "signature-byte" || how == "guardian-index") {
		how = "payload-byte"
	}
	switch how {
	case "payload-byte":
		v1.Payload[g.r.Intn(len(v1.Payload))] ^= 1 << uint(g.r.Intn(8))
	case "payload-wiped":
		for i := range v1.Payload {
			v1.Payload[i] = ^v1.Payload[i]
		}
	case "signature-byte":
		v1.Signatures[g.r.Intn(len(v1.Signatures))].Signature[g.r.Intn(65)] ^= 1 << uint(g.r.Intn(8))
	default:
		v1.Signatures[g.r.Intn(len(v1.Signatures))].Index ^= 1
	}
	fmt.Fprintf(g.w, "eq %s decoded-values-aliased-%s %s %s\n", g.id("als"), how, c2, vcanon(v2))
	g.dseq(out, append([]byte{}, out...), v)
}

func (g *vgen) body(v *VAA) {
	b := v.SerializeBody()
	kk := crypto.Keccak256(crypto.Keccak256(b))
	fmt.Fprintf(g.w, "body %s v=%s body=%s dig=%x kk=%x\n", g.id("body"), vcanon(v), vhex(b), v.SigningMsg().Bytes(), kk)
}

// C04, wire form: the bytes the contracts hash are everything after the 6 + 66*k byte header of the serialized VAA (k = the count
// byte at offset 5); they must be the signing body, and their double Keccak the digest the guardians sign - for every payload
// length, 0 included, and every signature count.
func (g *vgen) wire(v *VAA) {
	out, mres := vsafeMarshal(v)
	b := v.SerializeBody()
	kkw := "-"
	if mres == "ok" && len(out) >= 6 && len(out) >= 6+66*int(out[5]) {
		kkw = hex.EncodeToString(crypto.Keccak256(crypto.Keccak256(out[6+66*int(out[5]):])))
	}
	fmt.Fprintf(g.w, "wire %s v=%s res=%s out=%s body=%s dig=%x kkw=%s\n", g.id("wire"), vcanon(v), mres, vhex(out), vhex(b), v.SigningMsg().Bytes(), kkw)
}

func vclone(v *VAA) *VAA {
	c := *v
	c.Payload = append([]byte{}, v.Payload...)
	c.Signatures = nil
	for _, s := range v.Signatures {
		sc := *s
		c.Signatures = append(c.Signatures, &sc)
	}
	return &c
}

// C04: header / sub-second changes keep the digest, any body field change alters the signing body and digest.
func (g *vgen) digestLaws(v *VAA) {
	d := hex.EncodeToString(v.SigningMsg().Bytes())
	h := vclone(v)
	h.Version = uint8(g.r.Intn(256))
	h.GuardianSetIndex = g.r.Uint32()
	h.Signatures = append(h.Signatures, &Signature{Index: 3})
	h.Timestamp = time.Unix(v.Timestamp.Unix(), int64(g.r.Intn(1000000000)))
	fmt.Fprintf(g.w, "eq %s digest-depends-on-header-or-subsecond %s %x\n", g.id("hdr"), d, h.SigningMsg().Bytes())
	muts := []func(c *VAA){
		func(c *VAA) { c.Timestamp = time.Unix((c.Timestamp.Unix()+1+int64(g.r.Intn(1000)))%(1<<32), 0) },
		func(c *VAA) { c.Nonce ^= 1 << uint(g.r.Intn(32)) },
		func(c *VAA) { c.EmitterChain ^= 1 << uint(g.r.Intn(16)) },
		func(c *VAA) { c.TargetChain ^= 1 << uint(g.r.Intn(16)) },
		func(c *VAA) { c.EmitterAddress[g.r.Intn(32)] ^= 1 << uint(g.r.Intn(8)) },
		func(c *VAA) { c.Sequence ^= 1 << uint(g.r.Intn(64)) },
		func(c *VAA) { c.ConsistencyLevel ^= 1 << uint(g.r.Intn(8)) },
		func(c *VAA) {
			if len(c.Payload) > 0 {
				c.Payload[g.r.Intn(len(c.Payload))] ^= 1 << uint(g.r.Intn(8))
			} else {
				c.Payload = []byte{0}
			}
		},
		func(c *VAA) { c.Payload = append(c.Payload, 0) },
		// move a byte across the consistency-level / payload boundary
		func(c *VAA) { c.Payload = append([]byte{c.ConsistencyLevel}, c.Payload...); c.ConsistencyLevel ^= 0x55 },
	}
	for i, m := range muts {
		c := vclone(v)
		m(c)
		if vcanon(c) == vcanon(v) {
			continue
		}
		fmt.Fprintf(g.w, "ne %s body-field-%d-not-in-signing-body %s %s\n", g.id("fld"), i, vhex(v.SerializeBody()), vhex(c.SerializeBody()))
		fmt.Fprintf(g.w, "ne %s body-field-%d-not-in-digest %s %x\n", g.id("fld"), i, d, c.SigningMsg().Bytes())
		// ... and the serialized VAAs (same header, same signatures) differ as well: the contracts recompute the digest from the wire
		// form, so two messages with different bodies cannot share one
		wv, r1 := vsafeMarshal(v)
		wc, r2 := vsafeMarshal(c)
		if r1 == "ok" && r2 == "ok" {
			fmt.Fprintf(g.w, "ne %s wire-form-shared-by-different-bodies-field-%d %s %s\n", g.id("fld"), i, vhex(wv), vhex(wc))
		}
	}
}

// ---------------------------------------------------------------- C06

type vkey struct {
	k    *ecdsa.PrivateKey
	addr common.Address
}

func vnewKey() vkey {
	k, err := crypto.GenerateKey()
	if err != nil {
		panic(err)
	}
	return vkey{k, crypto.PubkeyToAddress(k.PublicKey)}
}

func vsign(k vkey, digest []byte) [65]byte {
	s, err := crypto.Sign(digest, k.k)
	if err != nil {
		panic(err)
	}
	var out [65]byte
	copy(out[:], s)
	return out
}

// ---- signature ENCODINGS (C06: "succeeds if ... every signature recovers, over the VAA's digest, to the address at the guardian index
// it claims").  Which 65-byte strings recover, and to what, is decided by the oracle (go-ethereum's crypto.Ecrecover, module cache) and
// by nothing else: crypto.Sign only ever emits one of the two encodings of a signature (the low-s one), an HSM / KMS signer or a relayer
// may hand over the other.

var vCurveN = crypto.S256().Params().N
var vHalfN = new(big.Int).Rsh(vCurveN, 1)

func vrecAddr(digest []byte, sig [65]byte) (common.Address, bool) {
	pk, err := crypto.Ecrecover(digest, sig[:])
	if err != nil {
		return common.Address{}, false
	}
	return common.BytesToAddress(crypto.Keccak256(pk[1:])[12:]), true
}

func vcraft(r, s *big.Int, v byte) (out [65]byte) {
	r.FillBytes(out[:32])
	s.FillBytes(out[32:64])
	out[64] = v
	return
}

// vnegS: s replaced by N - s, recovery id as it is (recovers to a different key, if at all).
func vnegS(sig [65]byte) [65]byte {
	s := new(big.Int).SetBytes(sig[32:64])
	return vcraft(new(big.Int).SetBytes(sig[:32]), s.Sub(vCurveN, s).Mod(s, new(big.Int).Lsh(big.NewInt(1), 256)), sig[64])
}

// vtwin: the second encoding (r, N-s, v^1) of the ECDSA signature (r, s, v).  For a signature that recovers over `digest` the twin
// must recover to the same address - checked with the oracle here, so that a case labelled "twin" is one.
func vtwin(digest []byte, sig [65]byte) [65]byte {
	tw := vnegS(sig)
	tw[64] ^= 1
	a, ok := vrecAddr(digest, sig)
	b, ok2 := vrecAddr(digest, tw)
	if ok && sig[64] < 2 && (!ok2 || a != b) {
		panic(fmt.Sprintf("harness: crypto.Ecrecover does not recover the twin of %x to the signer's address", sig))
	}
	return tw
}

func vaddrs(addrs []common.Address) string {
	if len(addrs) == 0 {
		return "-"
	}
	p := make([]string, len(addrs))
	for i, a := range addrs {
		p[i] = hex.EncodeToString(a.Bytes())
	}
	return strings.Join(p, ",")
}

// vsigsRec renders the signature list and the ecrecover oracle table (one independent crypto.Ecrecover per distinct signature
// over `digest`).
func vsigsRec(sigl []*Signature, digest []byte) (sigs, rec string) {
	sigs, rec = "-", "-"
	if len(sigl) > 0 {
		p := make([]string, len(sigl))
		seen := map[string]bool{}
		var rp []string
		for i, s := range sigl {
			sh := hex.EncodeToString(s.Signature[:])
			p[i] = fmt.Sprintf("%d:%s", s.Index, sh)
			if !seen[sh] {
				seen[sh] = true
				// oracle: independent call of ecrecover for (digest, signature)
				pk, err := crypto.Ecrecover(digest, s.Signature[:])
				if err != nil {
					rp = append(rp, sh+":none")
				} else {
					rp = append(rp, sh+":"+hex.EncodeToString(crypto.Keccak256(pk[1:])[12:]))
				}
			}
		}
		sigs = strings.Join(p, ";")
		rec = strings.Join(rp, ";")
	}
	return
}

func vsafeVerify(v *VAA, addrs []common.Address) (r string) {
	defer func() {
		if e := recover(); e != nil {
			r = "panic"
		}
	}()
	return strconv.FormatBool(v.VerifySignatures(addrs))
}

func (g *vgen) ver(kind string, v *VAA, addrs []common.Address) {
	// the digest for the oracle is recomputed from the body bytes, never taken from the VAA's own SigningMsg()
	digest := crypto.Keccak256(crypto.Keccak256(v.SerializeBody()))
	res := vsafeVerify(v, addrs)
	as := vaddrs(addrs)
	sigs, rec := vsigsRec(v.Signatures, digest)
	fmt.Fprintf(g.w, "ver %s addrs=%s sigs=%s rec=%s res=%s\n", g.id("ver-"+kind+"-"), as, sigs, rec, res)
	// the same VAA on the WIRE path every consumer of gossiped / stored VAAs takes: bytes -> Unmarshal -> VerifySignatures.  The wire
	// bytes are written by the harness' own encoder (records in exactly the order of v.Signatures); the oracle digest is the double
	// Keccak of the wire's body section.  What the wire carries (record order included) is read off the bytes by the driver.
	if len(v.Payload) == 0 || len(v.Signatures) > 255 || v.Version != 1 {
		return
	}
	if len(addrs) > 64 && !g.wireKinds[kind] {
		return
	}
	in := vwire(v)
	wd := crypto.Keccak256(crypto.Keccak256(in[6+66*len(v.Signatures):]))
	if !bytes.Equal(wd, digest) {
		_, rec = vsigsRec(v.Signatures, wd)
	}
	dv, dres := vsafeUnmarshal(in)
	wres := "-"
	if dres == "ok" {
		wres = vsafeVerify(dv, addrs)
	}
	fmt.Fprintf(g.w, "wver %s in=%s addrs=%s rec=%s dec=%s res=%s\n", g.id("wver-"+kind+"-"), vhex(in), as, rec, dres, wres)
}

func (g *vgen) verifyFamily(keys []vkey, n int, repeats bool) {
	r := g.r
	set := make([]vkey, n)
	for i := range set {
		set[i] = keys[r.Intn(len(keys))]
		if !repeats {
			set[i] = keys[i]
		}
	}
	addrs := make([]common.Address, n)
	for i := range set {
		addrs[i] = set[i].addr
	}
	base := g.randVAA(0, 1+r.Intn(40))
	digest := base.SigningMsg().Bytes()
	// a random ascending signer subset
	var idx []int
	for i := 0; i < n; i++ {
		if r.Intn(3) != 0 {
			idx = append(idx, i)
		}
	}
	mk := func(ix []int) *VAA {
		c := vclone(base)
		for _, i := range ix {
			c.Signatures = append(c.Signatures, &Signature{Index: uint8(i), Signature: vsign(set[i], digest)})
		}
		return c
	}
	valid := mk(idx)
	g.ver("valid", valid, addrs)
	g.ver("nosigs", mk(nil), addrs)
	if len(idx) >= 2 {
		i := r.Intn(len(idx) - 1)
		c := vclone(valid)
		c.Signatures[i], c.Signatures[i+1] = c.Signatures[i+1], c.Signatures[i]
		g.ver("swap", c, addrs)
		c = vclone(valid)
		c.Signatures[i+1].Index = c.Signatures[i].Index
		g.ver("sameindex", c, addrs)
	}
	if len(idx) >= 2 {
		// the whole (individually valid) list in reverse order, rotated by one, and with its two ends exchanged
		c := vclone(valid)
		for a, b := 0, len(c.Signatures)-1; a < b; a, b = a+1, b-1 {
			c.Signatures[a], c.Signatures[b] = c.Signatures[b], c.Signatures[a]
		}
		g.ver("reverse", c, addrs)
		c = vclone(valid)
		c.Signatures = append(c.Signatures[1:], c.Signatures[0])
		g.ver("rotate", c, addrs)
		c = vclone(valid)
		c.Signatures[0], c.Signatures[len(c.Signatures)-1] = c.Signatures[len(c.Signatures)-1], c.Signatures[0]
		g.ver("swapends", c, addrs)
	}
	// ordering at the numeric boundaries of the index (0, 127|128 = int8 wrap, 254|255): every signature below is valid for
	// the position it claims; only the order differs.  Descending or repeated orders must fail, ascending ones succeed.
	if !repeats {
		var bs []int
		for _, b := range []int{0, 1, 2, 63, 64, 126, 127, 128, 129, 130, 191, 192, 200, 253, 254} {
			if b < n {
				bs = append(bs, b)
			}
		}
		for _, hi := range bs {
			if hi == 0 {
				continue
			}
			for _, lo := range []int{0, hi - 1, hi / 2} {
				if lo >= hi {
					continue
				}
				g.ver("order-desc", mk([]int{hi, lo}), addrs)
				g.ver("order-asc", mk([]int{lo, hi}), addrs)
				if hi+1 < n {
					g.ver("order-dip", mk([]int{lo, hi + 1, hi}), addrs)
					g.ver("order-peak", mk([]int{hi, hi + 1, lo}), addrs)
				}
			}
		}
	}
	if len(idx) >= 1 {
		i := r.Intn(len(idx))
		c := vclone(valid)
		d := *c.Signatures[i]
		c.Signatures = append(c.Signatures[:i+1], append([]*Signature{&d}, c.Signatures[i+1:]...)...)
		g.ver("dup", c, addrs)
		c = vclone(valid)
		c.Signatures = append(c.Signatures, &d)
		g.ver("dupend", c, addrs)
		c = vclone(valid)
		c.Signatures[i].Index = uint8(r.Intn(256))
		g.ver("reindex", c, addrs)
		c = vclone(valid)
		c.Signatures[i].Index = 255
		g.ver("index255", c, addrs)
		c = vclone(valid)
		c.Signatures[i].Index = uint8(n % 256)
		g.ver("indexlen", c, addrs)
		c = vclone(valid)
		c.Signatures[i].Signature = vsign(vnewKey(), digest)
		g.ver("outsider", c, addrs)
		c = vclone(valid)
		c.Signatures[i].Signature = vsign(set[(idx[i]+1)%n], digest)
		g.ver("othermember", c, addrs)
		c = vclone(valid)
		c.Signatures[i].Signature[r.Intn(64)] ^= 1 << uint(r.Intn(8))
		g.ver("sigflip", c, addrs)
		c = vclone(valid)
		c.Signatures[i].Signature[64] = byte(4 + r.Intn(252))
		g.ver("badrecid", c, addrs)
		c = vclone(valid)
		c.Signatures[i].Signature[64] ^= 1
		g.ver("fliprecid", c, addrs)
		c = vclone(valid)
		c.Signatures[i].Signature = [65]byte{}
		g.ver("zerosig", c, addrs)
		// body bit flip: signatures made for another digest
		c = vclone(valid)
		c.Payload[r.Intn(len(c.Payload))] ^= 1 << uint(r.Intn(8))
		g.ver("bodyflip", c, addrs)
		c = vclone(valid)
		c.Sequence++
		g.ver("bodyseq", c, addrs)
		// the same, on an object whose digest has been computed and whose signatures have been verified before
		c = vclone(valid)
		_ = c.SigningMsg()
		_ = c.VerifySignatures(addrs)
		c.Payload[r.Intn(len(c.Payload))] ^= 1 << uint(r.Intn(8))
		g.ver("bodyflip-after-use", c, addrs)
		c = vclone(valid)
		_ = c.SigningMsg()
		_ = c.VerifySignatures(addrs)
		c.Sequence++
		g.ver("bodyseq-after-use", c, addrs)
		// shorter / longer address list
		g.ver("shortlist", valid, addrs[:idx[len(idx)-1]])
		g.ver("emptylist", valid, nil)
		more := append(append([]common.Address{}, addrs...), vnewKey().addr)
		g.ver("longerlist", valid, more)
		// drop one signature: still valid
		c = vclone(valid)
		c.Signatures = append(c.Signatures[:i], c.Signatures[i+1:]...)
		g.ver("dropone", c, addrs)
		// the OTHER encoding of the same signatures: (r, N-s, v^1) recovers over the same digest to the same guardian (oracle), so a
		// list in which one / the first / the last / some / all signatures come in that form is exactly as valid as the original
		twinAt := func(c *VAA, pos ...int) *VAA {
			for _, p := range pos {
				c.Signatures[p].Signature = vtwin(digest, c.Signatures[p].Signature)
			}
			return c
		}
		all := make([]int, len(idx))
		var some []int
		for p := range all {
			all[p] = p
			if r.Intn(2) == 0 {
				some = append(some, p)
			}
		}
		if len(some) == 0 || (len(some) == len(idx) && len(idx) > 1) {
			some = []int{r.Intn(len(idx))}
		}
		g.ver("twin-one", twinAt(vclone(valid), i), addrs)
		g.ver("twin-all", twinAt(vclone(valid), all...), addrs)
		g.ver("twin-mixed", twinAt(vclone(valid), some...), addrs)
		small := n <= 64 || os.Getenv("VERIF_TIER") == "thorough" // (the long lists cost ~25 ms of ecrecover per case)
		if len(idx) >= 2 && !small {
			g.ver("twin-alternate", twinAt(vclone(valid), all[len(all)/2:]...), addrs) // second half
		}
		if len(idx) >= 2 && small {
			g.ver("twin-first", twinAt(vclone(valid), 0), addrs)
			g.ver("twin-last", twinAt(vclone(valid), len(idx)-1), addrs)
			// every second signature, starting with the first / the second
			var even, odd []int
			for p := range all {
				if p%2 == 0 {
					even = append(even, p)
				} else {
					odd = append(odd, p)
				}
			}
			g.ver("twin-alternate", twinAt(vclone(valid), even...), addrs)
			g.ver("twin-alternate", twinAt(vclone(valid), odd...), addrs)
		}
		// ... and as invalid as the original under the same corruptions: a signature next to its own twin (same index, and re-indexed
		// to the next guardian), twins out of order, twins over another body, an outsider's twin, a half twin (s negated, recovery id kept)
		c = vclone(valid)
		d2 := *c.Signatures[i]
		d2.Signature = vtwin(digest, d2.Signature)
		c.Signatures = append(c.Signatures[:i+1], append([]*Signature{&d2}, c.Signatures[i+1:]...)...)
		g.ver("twin-beside-original", c, addrs)
		if small {
			c = vclone(c)
			c.Signatures[i+1].Index = uint8((idx[i] + 1) % n)
			g.ver("twin-reindexed-beside-original", c, addrs)
		}
		c = twinAt(vclone(valid), all...)
		c.Payload[r.Intn(len(c.Payload))] ^= 1 << uint(r.Intn(8))
		g.ver("twin-bodyflip", c, addrs)
		c = vclone(valid)
		c.Signatures[i].Signature = vtwin(digest, vsign(vnewKey(), digest))
		g.ver("twin-outsider", c, addrs)
		c = vclone(valid)
		c.Signatures[i].Signature = vnegS(c.Signatures[i].Signature)
		g.ver("halftwin", c, addrs)
		if len(idx) >= 2 && small {
			c = twinAt(vclone(valid), all...)
			j := r.Intn(len(idx) - 1)
			c.Signatures[j], c.Signatures[j+1] = c.Signatures[j+1], c.Signatures[j]
			g.ver("twin-swap", c, addrs)
		}
	}
	if repeats && n >= 2 {
		// the same key at two positions, both signed (valid positionally, must be rejected as double count)
		a := r.Intn(n - 1)
		b := a + 1 + r.Intn(n-a-1)
		set2 := append([]vkey{}, set...)
		set2[b] = set2[a]
		ad2 := append([]common.Address{}, addrs...)
		ad2[b] = ad2[a]
		c := vclone(base)
		c.Signatures = []*Signature{{Index: uint8(a), Signature: vsign(set2[a], digest)}, {Index: uint8(b), Signature: vsign(set2[b], digest)}}
		g.ver("repeatedkey", c, ad2)
		c = vclone(base)
		c.Signatures = []*Signature{{Index: uint8(b), Signature: vsign(set2[b], digest)}}
		g.ver("repeatedkey-single", c, ad2)
	}
	if n >= 24 {
		// a long list in which one guardian's key appears twice, both far down (positions >= 20), preceded by twenty genuine
		// distinct signers: the second appearance must still be recognised as the same signer
		a := 20 + r.Intn(n-22)
		b := a + 1 + r.Intn(n-a-1)
		set2 := append([]vkey{}, set...)
		ad2 := append([]common.Address{}, addrs...)
		if repeats {
			for i := 0; i < 20; i++ {
				set2[i] = keys[i%len(keys)]
				ad2[i] = set2[i].addr
			}
		}
		set2[b] = set2[a]
		ad2[b] = ad2[a]
		distinct := map[common.Address]bool{}
		ok := true
		for i := 0; i < 20; i++ {
			if distinct[ad2[i]] || ad2[i] == ad2[a] {
				ok = false
			}
			distinct[ad2[i]] = true
		}
		if ok {
			c := vclone(base)
			for i := 0; i < 20; i++ {
				c.Signatures = append(c.Signatures, &Signature{Index: uint8(i), Signature: vsign(set2[i], digest)})
			}
			c.Signatures = append(c.Signatures, &Signature{Index: uint8(a), Signature: vsign(set2[a], digest)}, &Signature{Index: uint8(b), Signature: vsign(set2[b], digest)})
			g.ver("repeatedkey-late", c, ad2)
		}
	}
	// a guardian list that contains the zero address (and other degenerate addresses) together with signature bytes
	// that do not recover at all: recovery failure must never be taken for "recovers to 0x00..00"
	if n >= 1 {
		for _, fill := range []byte{0x00, 0xff} {
			i := r.Intn(n)
			ad2 := append([]common.Address{}, addrs...)
			ad2[i] = common.Address{}
			c := vclone(base)
			var bad [65]byte
			for j := range bad {
				bad[j] = fill
			}
			c.Signatures = []*Signature{{Index: uint8(i), Signature: bad}}
			g.ver("zeroaddr-unrecoverable", c, ad2)
			bad2 := vsign(set[i], digest)
			bad2[64] = 27 + byte(r.Intn(200))
			c = vclone(base)
			c.Signatures = []*Signature{{Index: uint8(i), Signature: bad2}}
			g.ver("zeroaddr-badrecid", c, ad2)
			// all guardians zero, all signatures garbage
			adz := make([]common.Address, n)
			c = vclone(base)
			for j := 0; j < n && j < 255; j++ {
				c.Signatures = append(c.Signatures, &Signature{Index: uint8(j), Signature: bad})
			}
			g.ver("allzero", c, adz)
		}
	}
	// more signatures than addresses
	if n < 255 {
		c := vclone(base)
		for i := 0; i <= n; i++ {
			c.Signatures = append(c.Signatures, &Signature{Index: uint8(i), Signature: vsign(keys[i%len(keys)], digest)})
		}
		g.ver("toomany", c, addrs)
	}
}

// Guardian lists WITH a repeated address (the statement quantifies over them): the address of position a is also put at position b
// (every pair a < b for small lists; boundary and random pairs for large ones), all other addresses distinct.  A signature of that
// guardian is valid for the first position as well as for the second ("recovers ... to the address at the guardian index it
// claims"), alone and among other valid signers; claiming both counts one guardian twice; the key that used to sit at b is an outsider
// now.  Triples likewise.
func (g *vgen) repeatFamily(keys []vkey, n int) {
	r := g.r
	if n < 2 {
		return
	}
	type pair struct{ a, b int }
	var pairs []pair
	if n <= 20 {
		for a := 0; a < n; a++ {
			for b := a + 1; b < n; b++ {
				pairs = append(pairs, pair{a, b})
			}
		}
	} else {
		cand := []pair{{0, 1}, {0, n - 1}, {n - 2, n - 1}, {0, n / 2}, {n / 2, n - 1}, {1, 2}, {18, 19}, {19, 20}, {63, 64}, {126, 127}, {127, 128}, {128, 129}, {0, 128}, {127, 254}, {253, 254}}
		for _, p := range cand {
			if p.b < n && p.a < p.b {
				pairs = append(pairs, p)
			}
		}
		for k := 0; k < 6; k++ {
			a := r.Intn(n - 1)
			pairs = append(pairs, pair{a, a + 1 + r.Intn(n-a-1)})
		}
	}
	base := g.randVAA(0, 1+r.Intn(40))
	digest := crypto.Keccak256(crypto.Keccak256(vwireBody(base)))
	addrs := make([]common.Address, n)
	for i := range addrs {
		addrs[i] = keys[i].addr
	}
	sigOf := map[int][65]byte{} // signature of keys[i] over the digest, made once
	sg := func(i int) [65]byte {
		if s, ok := sigOf[i]; ok {
			return s
		}
		s := vsign(keys[i], digest)
		sigOf[i] = s
		return s
	}
	mk := func(claims [][2]int) *VAA { // (claimed index, signing key)
		c := vclone(base)
		for _, cl := range claims {
			c.Signatures = append(c.Signatures, &Signature{Index: uint8(cl[0]), Signature: sg(cl[1])})
		}
		return c
	}
	full := n <= 7
	for pi, p := range pairs {
		a, b := p.a, p.b
		ad2 := append([]common.Address{}, addrs...)
		ad2[b] = ad2[a]
		g.ver("repeat-first", mk([][2]int{{a, a}}), ad2)
		g.ver("repeat-second", mk([][2]int{{b, a}}), ad2)
		g.ver("repeat-both", mk([][2]int{{a, a}, {b, a}}), ad2)
		// the guardian's signature at one position, its other encoding (same signer by the oracle) at the other: still one guardian
		// counted twice; the other encoding alone at the second position: valid
		if full || n > 20 || pi%4 == 0 {
			c := mk([][2]int{{b, a}})
			c.Signatures[0].Signature = vtwin(digest, c.Signatures[0].Signature)
			g.ver("repeat-second-twin", c, ad2)
			c = mk([][2]int{{a, a}, {b, a}})
			c.Signatures[1].Signature = vtwin(digest, c.Signatures[1].Signature)
			g.ver("repeat-both-twin", c, ad2)
		}
		if !full && pi%9 != 0 && !(n > 20) {
			continue
		}
		g.ver("repeat-displaced", mk([][2]int{{b, b}}), ad2)
		// among other valid signers (positions other than a and b, each with its own key)
		var withA, withB [][2]int
		for i := 0; i < n; i++ {
			switch {
			case i == a:
				withA = append(withA, [2]int{a, a})
			case i == b:
				withB = append(withB, [2]int{b, a})
			case r.Intn(3) != 0 && (n <= 20 || r.Intn(n) < 12):
				withA = append(withA, [2]int{i, i})
				withB = append(withB, [2]int{i, i})
			}
		}
		g.ver("repeat-first-among", mk(withA), ad2)
		g.ver("repeat-second-among", mk(withB), ad2)
	}
	if n >= 3 {
		var triples [][3]int
		if n <= 5 {
			for a := 0; a < n; a++ {
				for b := a + 1; b < n; b++ {
					for c := b + 1; c < n; c++ {
						triples = append(triples, [3]int{a, b, c})
					}
				}
			}
		} else {
			triples = append(triples, [3]int{0, 1, 2}, [3]int{0, n / 2, n - 1}, [3]int{n - 3, n - 2, n - 1})
			for k := 0; k < 3; k++ {
				a := r.Intn(n - 2)
				b := a + 1 + r.Intn(n-a-2)
				triples = append(triples, [3]int{a, b, b + 1 + r.Intn(n-b-1)})
			}
		}
		for _, t := range triples {
			ad3 := append([]common.Address{}, addrs...)
			ad3[t[1]] = ad3[t[0]]
			ad3[t[2]] = ad3[t[0]]
			g.ver("repeat3-first", mk([][2]int{{t[0], t[0]}}), ad3)
			g.ver("repeat3-middle", mk([][2]int{{t[1], t[0]}}), ad3)
			g.ver("repeat3-last", mk([][2]int{{t[2], t[0]}}), ad3)
			g.ver("repeat3-two", mk([][2]int{{t[0], t[0]}, {t[2], t[0]}}), ad3)
			g.ver("repeat3-all", mk([][2]int{{t[0], t[0]}, {t[1], t[0]}, {t[2], t[0]}}), ad3)
		}
	}
}

// Guardian lists built FROM signatures: any 65 bytes (r, s, v) with v in {0, 1} that the oracle recovers over the digest to some
// address A are a valid signature of the guardian A - so A is put into the list at the index the signature claims ("recovers ... to
// the address at the guardian index it claims" - nothing in the statement restricts how r and s are encoded).  s takes the edge
// values of its range 1 .. N-1 (1, 2, the two values on either side of N/2, N-2, N-1, powers of two, short values), r is the r of a
// genuine signature, a short one (leading zero bytes) or one with the top bit set; strings the oracle does NOT recover (s or r = 0,
// = N, > N, r not on the curve) are used against lists that hold the zero address at that index and must be rejected without panic.
func (g *vgen) craftFamily(keys []vkey, n int) {
	r := g.r
	if n < 1 {
		return
	}
	base := g.randVAA(0, 1+r.Intn(40))
	digest := crypto.Keccak256(crypto.Keccak256(vwireBody(base)))
	addrs := make([]common.Address, n)
	for i := range addrs {
		addrs[i] = keys[i].addr
	}
	two := func(k uint) *big.Int { return new(big.Int).Lsh(big.NewInt(1), k) }
	off := func(b *big.Int, d int64) *big.Int { return new(big.Int).Add(b, big.NewInt(d)) }
	rnd := func(nbytes int) *big.Int { return new(big.Int).SetBytes(g.bytesN(nbytes)) }
	genuine := vsign(keys[r.Intn(len(keys))], digest)
	onCurve := func(x *big.Int) bool {
		if x.Sign() <= 0 || x.Cmp(vCurveN) >= 0 {
			return false
		}
		_, ok := vrecAddr(digest, vcraft(x, big.NewInt(1), 0))
		return ok
	}
	find := func(gen func(k int) *big.Int) *big.Int { // first value of the sequence the oracle takes as an r
		for k := 0; k < 64; k++ {
			if x := gen(k); onCurve(x) {
				return x
			}
		}
		return new(big.Int).SetBytes(genuine[:32])
	}
	rs := []*big.Int{
		new(big.Int).SetBytes(genuine[:32]),
		find(func(k int) *big.Int { return big.NewInt(int64(k + 1)) }),                             // 31 leading zero bytes
		find(func(int) *big.Int { return rnd(31) }),                                                // one leading zero byte
		find(func(int) *big.Int { return rnd(16) }),                                                // half length
		find(func(int) *big.Int { return new(big.Int).SetBit(rnd(32), 255, 1) }),                   // top bit set
		find(func(k int) *big.Int { return off(vCurveN, -int64(k+1)) }),                            // just below N
		find(func(int) *big.Int { x := rnd(32); x.SetBit(x, 255, 0); return x.SetBit(x, 254, 1) }), // top bit clear
	}
	ss := []*big.Int{big.NewInt(1), big.NewInt(2), big.NewInt(255), big.NewInt(256), two(128), off(two(248), -1), off(two(255), -1), two(255), off(two(255), 1),
		off(vHalfN, -1), vHalfN, off(vHalfN, 1), off(vHalfN, 2), off(vCurveN, -2), off(vCurveN, -1),
		rnd(31), new(big.Int).Mod(rnd(32), vCurveN), off(vHalfN, 1+int64(r.Intn(1<<30))), off(vHalfN, -int64(r.Intn(1<<30)))}
	type crafted struct {
		sig  [65]byte
		addr common.Address
	}
	var good []crafted
	for si, s := range ss {
		// every s with two of the r values (three for the values around N/2), both recovery ids
		for ri, rv := range rs {
			around := s.Cmp(off(vHalfN, -1)) >= 0 && s.Cmp(off(vHalfN, 2)) <= 0
			if ri != si%len(rs) && ri != (si+3)%len(rs) && !(around && ri == (si+5)%len(rs)) {
				continue
			}
			for v := byte(0); v < 2; v++ {
				sig := vcraft(rv, s, v)
				if a, ok := vrecAddr(digest, sig); ok {
					good = append(good, crafted{sig, a})
				}
			}
		}
	}
	mk := func(claims map[int][65]byte) *VAA {
		c := vclone(base)
		for i := 0; i < n; i++ {
			if sg, ok := claims[i]; ok {
				c.Signatures = append(c.Signatures, &Signature{Index: uint8(i), Signature: sg})
			}
		}
		return c
	}
	sigOf := map[int][65]byte{}
	own := func(i int) [65]byte {
		if s, ok := sigOf[i]; ok {
			return s
		}
		s := vsign(keys[i], digest)
		sigOf[i] = s
		return s
	}
	g.crafts++
	for k, cr := range good {
		// (a third of them per list size, another third at the next size)
		if (k+g.crafts)%3 != 0 {
			continue
		}
		// alone at a position of the list ...
		i := []int{0, n - 1, n / 2, r.Intn(n)}[k%4]
		ad := append([]common.Address{}, addrs...)
		ad[i] = cr.addr
		g.ver("craft-single", mk(map[int][65]byte{i: cr.sig}), ad)
		if n < 3 || k%2 != 0 {
			continue
		}
		// ... and among genuine signers of the other positions
		cl := map[int][65]byte{i: cr.sig}
		for j := 0; j < n; j++ {
			if j != i && r.Intn(3) != 0 && (n <= 20 || r.Intn(n) < 12) {
				cl[j] = own(j)
			}
		}
		g.ver("craft-among", mk(cl), ad)
	}
	// lists made of crafted signatures only (distinct recovered addresses), ascending positions
	for start, lists := 0, 0; start < len(good) && n >= 2 && lists < 5; start, lists = start+n, lists+1 {
		ad := append([]common.Address{}, addrs...)
		cl := map[int][65]byte{}
		seen := map[common.Address]bool{}
		for j := 0; j < n && start+j < len(good); j++ {
			cr := good[start+j]
			if seen[cr.addr] {
				continue
			}
			seen[cr.addr] = true
			ad[j] = cr.addr
			cl[j] = cr.sig
		}
		g.ver("craft-all", mk(cl), ad)
	}
	// strings outside the oracle's domain
	gr := new(big.Int).SetBytes(genuine[:32])
	gs := new(big.Int).SetBytes(genuine[32:64])
	max256 := off(two(256), -1)
	offCurve := find(func(int) *big.Int { return rnd(32) })
	for k := 0; k < 64; k++ {
		if x := new(big.Int).Mod(rnd(32), vCurveN); x.Sign() > 0 && !onCurve(x) {
			offCurve = x
			break
		}
	}
	bad := [][65]byte{vcraft(gr, big.NewInt(0), genuine[64]), vcraft(gr, vCurveN, genuine[64]), vcraft(gr, off(vCurveN, 1), genuine[64]), vcraft(gr, max256, genuine[64]),
		vcraft(gr, new(big.Int).Add(gs, vCurveN).And(new(big.Int).Add(gs, vCurveN), max256), genuine[64]),
		vcraft(big.NewInt(0), gs, genuine[64]), vcraft(vCurveN, gs, genuine[64]), vcraft(off(vCurveN, 1), gs, genuine[64]), vcraft(max256, gs, genuine[64]),
		vcraft(offCurve, gs, 0), vcraft(offCurve, gs, 1), vcraft(big.NewInt(0), big.NewInt(0), 0), vcraft(big.NewInt(0), big.NewInt(0), 1)}
	for k, sg := range bad {
		i := []int{0, n - 1, r.Intn(n)}[k%3]
		ad := append([]common.Address{}, addrs...)
		if a, ok := vrecAddr(digest, sg); ok {
			ad[i] = a // (the oracle takes it after all: then it is a valid signature of that address)
		} else if k%2 == 0 {
			ad[i] = common.Address{}
		}
		g.ver("craft-unrecoverable", mk(map[int][65]byte{i: sg}), ad)
	}
}

// ---------------------------------------------------------------- concurrent callers (C04, C06)
//
// "The digest ... does not depend on ... which guardian computes it": SigningMsg / SerializeBody / Marshal / VerifySignatures are called
// from several goroutines in the node (processor loop, admin RPC, inbound VAA verification).  The scenario runs in a CHILD process
// (this test binary re-executed with VERIF_CONC_OUT set) so that a fatal runtime error becomes a line of the case file instead of
// killing the harness: digest workers hash their own VAAs (bodies of 54 bytes .. 70 KB) in rounds released by a barrier while a
// marshaller and two verifiers run; every result is compared with the value the SAME call returned sequentially before the workers
// were started.  No sleeps; the amount of work is fixed.
type vconcWorker struct {
	what        string
	calls, bad  int
	panics      int
	want, got   string // first deviating call (or the last call when none deviates)
	run         func(k int) (want, got string)
	desc        func(k int) string // the VAA call number k works on
	firstK      int
	verV        *VAA
	verAddrs    []common.Address
	verFirstBad string
}

func vconcChild(t *testing.T, outPath string) {
	seed, _ := strconv.ParseInt(os.Getenv("VERIF_SEED"), 10, 64)
	f, err := os.Create(outPath)
	if err != nil {
		t.Fatal(err)
	}
	defer f.Close()
	g := &vgen{r: rand.New(rand.NewSource(seed ^ 0x5eed5eed)), w: bufio.NewWriterSize(f, 1<<16), dist: map[string]int{}}
	const nDigest = 6
	var ws []*vconcWorker
	for w := 0; w < nDigest; w++ {
		var vs []*VAA
		for _, pl := range []int{0, 1, 1 + g.r.Intn(200), 1000 + g.r.Intn(100), 20000 + g.r.Intn(50000)} {
			vs = append(vs, g.randVAA(g.r.Intn(3), pl))
		}
		if w%2 == 1 { // small bodies only: many short calls against the long ones of the neighbours
			vs = vs[:3]
		}
		seq := make([]string, len(vs))
		for i, v := range vs {
			seq[i] = hex.EncodeToString(v.SigningMsg().Bytes())
		}
		ws = append(ws, &vconcWorker{what: "digest", run: func(k int) (string, string) {
			i := k % len(vs)
			return seq[i], hex.EncodeToString(vs[i].SigningMsg().Bytes())
		}, desc: func(k int) string { return vcanon(vs[k%len(vs)]) }})
	}
	{
		var vs []*VAA
		for _, pl := range []int{0, 7, 300, 5000} {
			vs = append(vs, g.randVAA(g.r.Intn(4), pl))
		}
		seq := make([]string, len(vs))
		for i, v := range vs {
			o, r := vsafeMarshal(v)
			seq[i] = r + ":" + vhex(o)
		}
		ws = append(ws, &vconcWorker{what: "wire", run: func(k int) (string, string) {
			i := k % len(vs)
			o, r := vsafeMarshal(vs[i])
			return seq[i], r + ":" + vhex(o)
		}, desc: func(k int) string { return vcanon(vs[k%len(vs)]) }})
	}
	// two verifiers: a valid 5-of-7 list and the same with two signatures exchanged
	keys := make([]vkey, 7)
	addrs := make([]common.Address, 7)
	for i := range keys {
		keys[i] = vnewKey()
		addrs[i] = keys[i].addr
	}
	for k := 0; k < 2; k++ {
		v := g.randVAA(0, 1+g.r.Intn(300))
		d := crypto.Keccak256(crypto.Keccak256(vwireBody(v)))
		for _, i := range []int{0, 2, 3, 5, 6} {
			v.Signatures = append(v.Signatures, &Signature{Index: uint8(i), Signature: vsign(keys[i], d)})
		}
		if k == 1 {
			v.Signatures[1], v.Signatures[3] = v.Signatures[3], v.Signatures[1]
		}
		seq := vsafeVerify(v, addrs)
		w := &vconcWorker{what: "verify", verV: v, verAddrs: addrs}
		w.run = func(int) (string, string) { return seq, vsafeVerify(v, addrs) }
		ws = append(ws, w)
	}
	// A round that does not come back is a result as well (a shared hashing state can be left in a condition in which a call never
	// returns): the watchdog below only ever fires on such a hang - the work of a round is a few milliseconds - and turns it into a
	// case line; it is no pacing device.
	rounds, per := 24, 40
	const watchdog = 15 * time.Second
	var mu sync.Mutex // guards the counters of all workers
	badKinds := map[string]bool{}
	badCh := make(chan struct{}) // closed at the first deviating call
	hung := -1
	for round := 0; round < rounds && len(badKinds) < 3 && hung < 0; round++ {
		start := make(chan struct{})
		var wg sync.WaitGroup
		for _, w := range ws {
			w := w
			wg.Add(1)
			go func() {
				defer wg.Done()
				<-start
				n := per
				if w.what == "verify" {
					n = per / 8
				}
				for k := 0; k < n; k++ {
					want, got := func() (want, got string) {
						defer func() {
							if e := recover(); e != nil {
								want, got = "completes", "panic:"+vword(fmt.Sprint(e))
							}
						}()
						return w.run(round*per + k)
					}()
					mu.Lock()
					w.calls++
					if w.calls == 1 || (want != got && w.bad == 0) {
						w.want, w.got, w.firstK = want, got, round*per+k
					}
					if want != got {
						w.bad++
						if strings.HasPrefix(got, "panic:") {
							w.panics++
						}
						if len(badKinds) == 0 {
							close(badCh)
						}
						badKinds[w.what] = true
					}
					mu.Unlock()
				}
			}()
		}
		close(start)
		fin := make(chan struct{})
		go func() { wg.Wait(); close(fin) }()
		timer := time.NewTimer(watchdog)
		select {
		case <-fin:
		case <-timer.C:
			hung = round
		case <-badCh:
			// a deviation is on record already; the stuck round adds the fact that it is stuck, no need to wait for long
			short := time.NewTimer(watchdog / 5)
			select {
			case <-fin:
			case <-short.C:
				hung = round
			}
			short.Stop()
		}
		timer.Stop()
	}
	mu.Lock() // (held to the end when a worker hangs: the others cannot move the counters any more)
	if hung >= 0 {
		fmt.Fprintf(g.w, "conc conc-hang-0 what=process calls=0 bad=1 panics=0 want=completes got=hang:round-%d-of-concurrent-calls-did-not-return-within-%s\n", hung, watchdog)
	}
	for i, w := range ws {
		short := func(s string) string {
			if len(s) > 200 {
				return s[:200] + "..."
			}
			return s
		}
		if w.what == "verify" {
			// a full `ver` line: the Spec (Valid) is evaluated on the result obtained under concurrency
			digest := crypto.Keccak256(crypto.Keccak256(vwireBody(w.verV)))
			sigs, rec := vsigsRec(w.verV.Signatures, digest)
			fmt.Fprintf(g.w, "ver ver-concurrent-%d addrs=%s sigs=%s rec=%s res=%s\n", i, vaddrs(w.verAddrs), sigs, rec, strings.SplitN(w.got, ":", 2)[0])
			continue
		}
		on := "-"
		if w.bad > 0 && w.desc != nil {
			on = w.desc(w.firstK)
			if len(on) > 3000 {
				on = on[:3000] + "..."
			}
		}
		fmt.Fprintf(g.w, "conc conc-%s-%d what=%s calls=%d bad=%d panics=%d want=%s got=%s v=%s\n", w.what, i, w.what, w.calls, w.bad, w.panics, short(w.want), short(w.got), on)
	}
	fmt.Fprintln(g.w, "# done")
	g.w.Flush()
	if hung >= 0 {
		f.Close()
		os.Exit(0) // goroutines stuck inside the package would keep the test binary alive
	}
}

// vconc runs the child and copies its lines; a child that died (fatal runtime error, unrecovered panic in a goroutine the runtime
// started, os.Exit) is itself a case line.
func (g *vgen) vconc(t *testing.T) {
	outPath := filepath.Join(os.Getenv("VERIF_OUT"), "vaa.conc")
	os.Remove(outPath)
	cmd := exec.Command(os.Args[0], "-test.run=^TestVerifVaa$", "-test.count=1")
	cmd.Env = append(os.Environ(), "VERIF_CONC_OUT="+outPath)
	var stderr bytes.Buffer
	cmd.Stdout = &stderr
	cmd.Stderr = &stderr
	if err := cmd.Start(); err != nil {
		t.Fatalf("cannot start the child process for the concurrency scenario: %v", err)
	}
	// second line of defence behind the child's own watchdog: a child that neither finishes nor reports is killed
	kill := time.AfterFunc(90*time.Second, func() { cmd.Process.Kill() })
	werr := cmd.Wait()
	kill.Stop()
	data, _ := os.ReadFile(outPath)
	os.Remove(outPath)
	done := false
	for _, ln := range strings.Split(string(data), "\n") {
		if ln == "# done" {
			done = true
		} else if ln != "" {
			fmt.Fprintln(g.w, ln)
			g.dist[strings.TrimRight(strings.SplitN(ln, " ", 3)[1], "0123456789")]++
		}
	}
	if !done || werr != nil {
		info := "no-output"
		for _, ln := range strings.Split(stderr.String(), "\n") {
			if strings.HasPrefix(ln, "fatal error:") || strings.HasPrefix(ln, "panic:") || strings.Contains(ln, "SIGSEGV") {
				info = vword(ln)
				break
			}
		}
		fmt.Fprintf(g.w, "conc %s what=process calls=0 bad=1 panics=0 want=completes got=crash:%s\n", g.id("conc-crash-"), info)
	}
}

func TestVerifVaa(t *testing.T) {
	if p := os.Getenv("VERIF_CONC_OUT"); p != "" {
		vconcChild(t, p)
		return
	}
	seed, _ := strconv.ParseInt(os.Getenv("VERIF_SEED"), 10, 64)
	thorough := os.Getenv("VERIF_TIER") == "thorough"
	f, err := os.Create(filepath.Join(os.Getenv("VERIF_OUT"), "vaa.cases"))
	if err != nil {
		t.Fatal(err)
	}
	defer f.Close()
	g := &vgen{r: rand.New(rand.NewSource(seed)), w: bufio.NewWriterSize(f, 1<<20), dist: map[string]int{}}
	defer g.w.Flush()
	g.wireKinds = map[string]bool{"valid": true, "swap": true, "reverse": true, "rotate": true, "swapends": true, "order-desc": true, "dup": true,
		"outsider": true, "bodyflip": true, "dropone": true, "repeatedkey": true, "repeat-first": true, "repeat-second": true, "repeat-both": true,
		"twin-one": true, "twin-all": true, "twin-mixed": true, "twin-first": true, "twin-last": true, "twin-alternate": true, "twin-beside-original": true,
		"repeat-second-twin": true, "repeat-both-twin": true, "craft-single": true, "craft-among": true, "craft-all": true, "craft-unrecoverable": true}

	part := os.Getenv("VERIF_PART")
	plens := []int{1, 2, 3, 52, 53, 100, 999, 1000, 1001, 1002, 1024, 2000, 4096}
	nsig := []int{0, 1, 2, 13, 19, 255}
	// the 16-bit boundary of the payload length (no length field on the wire: the payload is "the rest")
	plens = append(plens, 65535, 65536, 65537)
	if thorough {
		plens = append(plens, 9999, 70000, 200000)
	}
	rounds := 3
	if thorough {
		rounds = 12
	}
	if part == "c06" {
		rounds = 0
	}
	for round := 0; round < rounds; round++ {
		for _, pl := range plens {
			for _, ns := range nsig {
				if ns == 255 && pl > 1100 && !thorough {
					continue
				}
				if pl > 60000 && !thorough && (ns > 1 || round > 0) {
					continue
				}
				v := g.randVAA(ns, pl)
				out := g.enc(v)
				if out == nil {
					out = vwire(v) // Marshal refused: the mutations below start from the hand-written encoding
				}
				g.body(v)
				g.wire(v)
				if round == 0 && pl <= 1002 {
					g.digestLaws(v)
				}
				if pl <= 1002 {
					g.stable(v, g.randVAA(ns, 1+g.r.Intn(200)))
					if round == 0 {
						g.fresh(v)
					}
				}
				// structured mutations of the valid encoding
				if pl <= 100 && ns <= 2 {
					for cut := 0; cut <= len(out); cut++ {
						if thorough || cut < 70 || cut%7 == 0 || cut > len(out)-3 {
							g.dec(out[:cut])
						}
					}
				}
				for k := 0; k < 6; k++ {
					m := append([]byte{}, out...)
					switch k {
					case 0:
						m[0] = byte(g.r.Intn(256))
					case 1:
						m[5] = byte(g.r.Intn(256)) // signature count
					case 2:
						m[g.r.Intn(len(m))] ^= 1 << uint(g.r.Intn(8))
					case 3:
						m = append(m, g.bytesN(1+g.r.Intn(5))...)
					case 4:
						m = m[:g.r.Intn(len(m))]
					case 5:
						m[5] = byte(ns + 1)
					}
					g.dec(m)
				}
			}
		}
		// signature counts around the int8 / uint8 boundaries of the one-byte count ("at most 255 signatures"): encode, decode, and the
		// mutations of the count byte; Marshal's refusal is a result of the case
		for _, ns := range []int{126, 127, 128, 129, 192, 254, 255} {
			v := g.randVAA(ns, []int{1, 60, 1000}[(round+ns)%3])
			out := g.enc(v)
			if out == nil {
				out = vwire(v)
			}
			g.wire(v)
			g.dec(out)
			for _, d := range []int{-1, 1} {
				m := append([]byte{}, out...)
				m[5] = byte(ns + d)
				g.dec(m)
			}
			g.dec(out[:len(out)-1-g.r.Intn(50)])
		}
		// decode histories: reused read buffers, and results edited by one of two callers
		for _, sp := range [][2]int{{0, 1}, {1, 40}, {2, 100}, {3, 7}, {13, 1000}, {19, 1001}, {g.r.Intn(5), 1 + g.r.Intn(300)}} {
			g.bufSeq(sp[0], sp[1])
			g.alias(g.randVAA(sp[0], sp[1]))
			g.alias(g.randVAA(1+sp[0]%4, 1+g.r.Intn(60)))
		}
		// out-of-domain encodes: empty payload, timestamps beyond 32 bits
		v := g.randVAA(g.r.Intn(3), 0)
		g.enc(v)
		g.body(v)
		g.wire(v)
		g.digestLaws(v)
		for _, ns := range []int{0, 1, 19, 255} {
			// C04 is about every payload length, 0 included, and every signature count
			e := g.randVAA(ns, 0)
			if round%2 == 1 {
				e.Payload = nil
			}
			g.body(e)
			g.wire(e)
		}
		v = g.randVAA(1, 5)
		v.Timestamp = time.Unix(int64(1)<<32+int64(g.r.Intn(100000)), 5)
		g.enc(v)
		g.body(v)
		g.wire(v)
		if thorough {
			g.enc(g.randVAA(256, 3))
			g.enc(g.randVAA(300, 3))
		}
		// arbitrary bytes
		for k := 0; k < 60; k++ {
			b := g.bytesN(g.r.Intn(200))
			if len(b) > 0 && g.r.Intn(2) == 0 {
				b[0] = 1
			}
			if len(b) > 5 && g.r.Intn(2) == 0 {
				b[5] = byte(g.r.Intn(3))
			}
			g.dec(b)
		}
	}

	// C06
	nkeys := 255
	keys := make([]vkey, nkeys)
	for i := range keys {
		keys[i] = vnewKey()
	}
	sizes := []int{0, 1, 2, 3, 4, 7, 13, 19, 20, 64, 255}
	if thorough {
		sizes = nil
		for n := 0; n <= 255; n++ {
			sizes = append(sizes, n)
		}
	}
	if part != "c06" && part != "" {
		sizes = nil
	}
	for _, n := range sizes {
		reps := 2
		if n > 64 && !thorough {
			reps = 1
		}
		for k := 0; k < reps; k++ {
			if n == 0 {
				v := g.randVAA(0, 3)
				g.ver("emptyset", v, nil)
				v.Signatures = []*Signature{{Index: 0, Signature: vsign(keys[0], v.SigningMsg().Bytes())}}
				g.ver("emptyset-onesig", v, nil)
				continue
			}
			g.verifyFamily(keys, n, false)
			g.verifyFamily(keys, n, true)
			if k == 0 && (!thorough || n <= 20 || n%16 == 0 || (n >= 126 && n <= 130) || n >= 254) {
				g.repeatFamily(keys, n)
			}
			if k == 0 && (!thorough || n <= 20 || n%16 == 0 || n >= 254) {
				g.craftFamily(keys, n)
			}
		}
	}
	if part == "" || part == "c04" || part == "c06" {
		g.vconc(t)
	}
	df, _ := os.Create(filepath.Join(os.Getenv("VERIF_OUT"), "vaa.dist"))
	for k, v := range g.dist {
		fmt.Fprintf(df, "%s %d\n", k, v)
	}
	df.Close()
}
