//go:build verif

package p2p

// Correspondence harness for C03 (family `gossip`), injected into package p2p by `go test -overlay` (p2p.go is the
// working tree's file with only the body of Run stubbed).  It calls the REAL processSignedHeartbeat /
// processSignedObservationRequest with disableVerify=false (a few sessions with true, for the tie only) on valid
// messages and on every single mutation of them, against a real GuardianSetState, and records
//   * the oracle answers the Lean model needs, computed here independently of the verifiers: the signer address
//     recovered from (Keccak(pre-image), signature) for the three candidate pre-images (heartbeat prefix ++ body,
//     request prefix ++ body, body alone) and the protobuf decoding of the body,
//   * the full observable result: return value / error kind, GuardianSetState.GetAll() after the call, what was pushed
//     on the update channel, and whether the per-node metrics changed.
//
// Case lines (one session = one case id; the table is printed in full after every operation):
//   reset   <cid> upd=<0|1>
//   hb      <cid> dv=<0|1> gs=<addr,..|-> from=<peerhex> body=<hex|-> sig=<hex|-> addr=<hex|-> rhb=<addr|none> rreq=.. rraw=..
//                 dec=<canonhex@ts|err> res=<ok|e:kind|panic> ret=<canonhex@ts|-> upd=<canonhex@ts,..|-> met=<0|1> tbl=<table>
//   req     <cid> gs=.. body=.. sig=.. addr=.. rhb=.. rreq=.. rraw=.. dec=<chain:txhex|err> res=.. ret=<chain:txhex|-> tbl=<table>
//   sethb   <cid> addr=<hex> from=<peerhex> hb=<canonhex@ts> res=<ok|e:toomany|panic> upd=.. tbl=..
//   cleanup <cid> now=<ns> tbl=..
//   end     <cid>
// `hb` lines also carry named=<hex of the guardian_addr STRING inside the body|-> (for the verdict text); `hb` / `req` lines
// may carry rep=<n>: the same call was made n times in a row and every one was rejected alike, leaving table, update channel
// and metrics alone (written by floodHb / floodReq, which fall back to one line per call otherwise).
// table = `-` or `addr:peer=canon@ts,peer=canon@ts;addr:-;...` sorted by address, then by peer.

import (
	"bufio"
	"crypto/ecdsa"
	"encoding/hex"
	"fmt"
	"math/rand"
	"os"
	"path/filepath"
	"reflect"
	"sort"
	"strconv"
	"strings"
	"testing"
	"time"

	node_common "github.com/alephium/wormhole-fork/node/pkg/common"
	gossipv1 "github.com/alephium/wormhole-fork/node/pkg/proto/gossip/v1"
	ethcommon "github.com/ethereum/go-ethereum/common"
	ethcrypto "github.com/ethereum/go-ethereum/crypto"
	"github.com/libp2p/go-libp2p/core/peer"
	"github.com/prometheus/client_golang/prometheus"
	"google.golang.org/protobuf/proto"
)

// The protocol's domain prefixes as every guardian uses them when SIGNING (the harness never reads the verifier's own
// variables: a verifier that hashes something else disagrees with these signatures and with the oracle answers).
var c03HbPrefix = []byte("heartbeat|")
var c03ReqPrefix = []byte("signed_observation_request|")

func c03hex(b []byte) string {
	if len(b) == 0 {
		return "-"
	}
	return hex.EncodeToString(b)
}

func c03cat(a, b []byte) []byte {
	out := make([]byte, 0, len(a)+len(b))
	out = append(out, a...)
	return append(out, b...)
}

// c03Recover: signer address of `sig` over Keccak(pre), or "none".
func c03Recover(pre, sig []byte) (res string) {
	defer func() {
		if e := recover(); e != nil {
			res = "none"
		}
	}()
	pub, err := ethcrypto.Ecrecover(ethcrypto.Keccak256(pre), sig)
	if err != nil || len(pub) != 65 {
		return "none"
	}
	return hex.EncodeToString(ethcrypto.Keccak256(pub[1:])[12:])
}

func c03CanonHb(h *gossipv1.Heartbeat) string {
	b, err := proto.MarshalOptions{Deterministic: true}.Marshal(h)
	if err != nil {
		return "marshalerr@0"
	}
	return fmt.Sprintf("%s@%d", c03hex(b), h.Timestamp)
}

func c03CanonReq(r *gossipv1.ObservationRequest) string {
	return fmt.Sprintf("%d:%s", r.ChainId, c03hex(r.TxHash))
}

func c03ErrKind(err error) string {
	s := err.Error()
	switch {
	case strings.Contains(s, "not in guardian set"):
		return "e:notinset"
	case strings.Contains(s, "too short"):
		return "e:short"
	case strings.Contains(s, "failed to recover public key"):
		return "e:recover"
	case strings.Contains(s, "invalid signer"):
		return "e:signer"
	case strings.Contains(s, "failed to unmarshal"):
		return "e:unmarshal"
	case strings.Contains(s, "too many nodes"), strings.Contains(s, "failed to store"):
		return "e:toomany"
	}
	return "e:other"
}

func c03Table(gst *node_common.GuardianSetState) string {
	all := gst.GetAll()
	addrs := make([]string, 0, len(all))
	byAddr := map[string]map[peer.ID]*gossipv1.Heartbeat{}
	for a, v := range all {
		h := hex.EncodeToString(a.Bytes())
		addrs = append(addrs, h)
		byAddr[h] = v
	}
	sort.Strings(addrs)
	var parts []string
	for _, a := range addrs {
		v := byAddr[a]
		var ps []string
		for p, hb := range v {
			ps = append(ps, fmt.Sprintf("%s=%s", c03hex([]byte(p)), c03CanonHb(hb)))
		}
		sort.Strings(ps)
		inner := "-"
		if len(ps) > 0 {
			inner = strings.Join(ps, ",")
		}
		parts = append(parts, a+":"+inner)
	}
	if len(parts) == 0 {
		return "-"
	}
	return strings.Join(parts, ";")
}

// c03Metrics: a fingerprint of the three per-node gauge vectors fed by collectNodeMetrics.
func c03Metrics() string {
	var lines []string
	for _, vec := range []*prometheus.GaugeVec{wormholeNetworkNodeHeight, wormholeNetworkNodeErrors, wormholeNetworkVersion} {
		ch := make(chan prometheus.Metric, 4096)
		go func() { vec.Collect(ch); close(ch) }()
		for m := range ch {
			// m.Write(*dto.Metric) through reflection: importing client_model by name would make `go test -mod=mod`
			// rewrite /repo/node/go.mod (it is an indirect dependency there)
			w := reflect.ValueOf(m).MethodByName("Write")
			d := reflect.New(w.Type().In(0).Elem())
			if out := w.Call([]reflect.Value{d}); len(out) == 1 && out[0].IsNil() {
				lines = append(lines, fmt.Sprint(d.Interface()))
			}
		}
	}
	sort.Strings(lines)
	return strings.Join(lines, "\n")
}

// ---------------------------------------------------------------- session

type c03Sess struct {
	g    *c03Gen
	cid  string
	gst  *node_common.GuardianSetState
	updC chan *gossipv1.Heartbeat
}

func (g *c03Gen) start(kind string, withUpd bool) *c03Sess {
	g.n++
	g.names = nil
	g.dist[kind]++
	s := &c03Sess{g: g, cid: fmt.Sprintf("%s%d", kind, g.n)}
	if withUpd {
		s.updC = make(chan *gossipv1.Heartbeat, 64)
	}
	s.gst = node_common.NewGuardianSetState(s.updC)
	wormholeNetworkNodeHeight.Reset()
	wormholeNetworkNodeErrors.Reset()
	wormholeNetworkVersion.Reset()
	u := 0
	if withUpd {
		u = 1
	}
	fmt.Fprintf(g.w, "reset %s upd=%d\n", s.cid, u)
	return s
}

func (s *c03Sess) end() { fmt.Fprintf(s.g.w, "end %s\n", s.cid) }

func (s *c03Sess) drainUpd() string {
	var ps []string
	for s.updC != nil && len(s.updC) > 0 {
		ps = append(ps, c03CanonHb(<-s.updC))
	}
	if len(ps) == 0 {
		return "-"
	}
	return strings.Join(ps, ",")
}

func c03Addrs(gs []ethcommon.Address) string {
	if len(gs) == 0 {
		return "-"
	}
	p := make([]string, len(gs))
	for i, a := range gs {
		p[i] = hex.EncodeToString(a.Bytes())
	}
	return strings.Join(p, ",")
}

func (s *c03Sess) oracle(body, sig []byte) string {
	return fmt.Sprintf("rhb=%s rreq=%s rraw=%s", c03Recover(c03cat(c03HbPrefix, body), sig),
		c03Recover(c03cat(c03ReqPrefix, body), sig), c03Recover(body, sig))
}

func (s *c03Sess) hb(dv bool, gs []ethcommon.Address, from peer.ID, body, sig, addr []byte) string {
	line, res := s.hbCall(dv, gs, from, body, sig, addr)
	fmt.Fprintf(s.g.w, "%s\n", line)
	return res
}

// hbCall makes the call and returns the case line (without newline) and the result
func (s *c03Sess) hbCall(dv bool, gs []ethcommon.Address, from peer.ID, body, sig, addr []byte) (string, string) {
	dec, named := "err", "-"
	var h gossipv1.Heartbeat
	if err := proto.Unmarshal(body, &h); err == nil {
		dec = c03CanonHb(&h)
		named = c03hex([]byte(h.GuardianAddr))
	}
	m := &gossipv1.SignedHeartbeat{Heartbeat: body, Signature: sig, GuardianAddr: addr}
	metBefore := c03Metrics()
	res, ret := "ok", "-"
	func() {
		defer func() {
			if e := recover(); e != nil {
				res, ret = "panic", "-"
			}
		}()
		out, err := processSignedHeartbeat(from, m, &node_common.GuardianSet{Keys: gs, Index: 1}, s.gst, dv)
		if err != nil {
			res = c03ErrKind(err)
			if out != nil {
				ret = c03CanonHb(out)
			}
			return
		}
		if out == nil {
			res = "e:nilresult"
			return
		}
		ret = c03CanonHb(out)
	}()
	met := 0
	if c03Metrics() != metBefore {
		met = 1
	}
	d := 0
	if dv {
		d = 1
	}
	return fmt.Sprintf("hb %s dv=%d gs=%s from=%s body=%s sig=%s addr=%s %s dec=%s named=%s res=%s ret=%s upd=%s met=%d tbl=%s",
		s.cid, d, c03Addrs(gs), c03hex([]byte(from)), c03hex(body), c03hex(sig), c03hex(addr), s.oracle(body, sig),
		dec, named, res, ret, s.drainUpd(), met, c03Table(s.gst)), res
}

// floodHb / floodReq: the SAME message n times in a row.  When every call is rejected with the same result and leaves
// everything alone (identical line), ONE line with rep=n is written; otherwise one line per call.
func (s *c03Sess) floodHb(n int, gs []ethcommon.Address, from peer.ID, body, sig, addr []byte) {
	lines := make([]string, n)
	same := true
	for i := range lines {
		var res string
		lines[i], res = s.hbCall(false, gs, from, body, sig, addr)
		same = same && lines[i] == lines[0] && res != "ok" && res != "panic" && strings.Contains(lines[i], " upd=- met=0 ")
	}
	s.writeFlood(lines, same)
}

func (s *c03Sess) floodReq(n int, gs []ethcommon.Address, body, sig, addr []byte) {
	lines := make([]string, n)
	same := true
	for i := range lines {
		var res string
		lines[i], res = s.reqCall(gs, body, sig, addr)
		same = same && lines[i] == lines[0] && res != "ok" && res != "panic"
	}
	s.writeFlood(lines, same)
}

func (s *c03Sess) writeFlood(lines []string, same bool) {
	if same && len(lines) > 1 {
		fmt.Fprintf(s.g.w, "%s rep=%d\n", lines[0], len(lines))
		return
	}
	for _, l := range lines {
		fmt.Fprintf(s.g.w, "%s\n", l)
	}
}

func (s *c03Sess) req(gs []ethcommon.Address, body, sig, addr []byte) string {
	line, res := s.reqCall(gs, body, sig, addr)
	fmt.Fprintf(s.g.w, "%s\n", line)
	return res
}

func (s *c03Sess) reqCall(gs []ethcommon.Address, body, sig, addr []byte) (string, string) {
	dec := "err"
	var r gossipv1.ObservationRequest
	if err := proto.Unmarshal(body, &r); err == nil {
		dec = c03CanonReq(&r)
	}
	m := &gossipv1.SignedObservationRequest{ObservationRequest: body, Signature: sig, GuardianAddr: addr}
	res, ret := "ok", "-"
	func() {
		defer func() {
			if e := recover(); e != nil {
				res, ret = "panic", "-"
			}
		}()
		out, err := processSignedObservationRequest(m, &node_common.GuardianSet{Keys: gs, Index: 1})
		if err != nil {
			res = c03ErrKind(err)
			if out != nil {
				ret = c03CanonReq(out)
			}
			return
		}
		if out == nil {
			res = "e:nilresult"
			return
		}
		ret = c03CanonReq(out)
	}()
	return fmt.Sprintf("req %s gs=%s body=%s sig=%s addr=%s %s dec=%s res=%s ret=%s tbl=%s",
		s.cid, c03Addrs(gs), c03hex(body), c03hex(sig), c03hex(addr), s.oracle(body, sig), dec, res, ret, c03Table(s.gst)), res
}

func (s *c03Sess) sethb(a ethcommon.Address, from peer.ID, h *gossipv1.Heartbeat) {
	res := "ok"
	func() {
		defer func() {
			if e := recover(); e != nil {
				res = "panic"
			}
		}()
		if err := s.gst.SetHeartbeat(a, from, h); err != nil {
			res = c03ErrKind(err)
		}
	}()
	fmt.Fprintf(s.g.w, "sethb %s addr=%s from=%s hb=%s res=%s upd=%s tbl=%s\n", s.cid, hex.EncodeToString(a.Bytes()),
		c03hex([]byte(from)), c03CanonHb(h), res, s.drainUpd(), c03Table(s.gst))
}

func (s *c03Sess) cleanup() {
	now := time.Now().UnixNano()
	s.gst.Cleanup()
	fmt.Fprintf(s.g.w, "cleanup %s now=%d tbl=%s\n", s.cid, now, c03Table(s.gst))
}

// ---------------------------------------------------------------- generators

type c03Key struct {
	k *ecdsa.PrivateKey
	a ethcommon.Address
}

type c03Gen struct {
	r     *rand.Rand
	w     *bufio.Writer
	n     int
	dist  map[string]int
	zeroK c03Key // a key whose address starts with a zero byte (19-byte envelope addresses pad back to it)
	names []ethcommon.Address // addresses heartbeat bodies of the current session may name (see nameString)
}

func (g *c03Gen) bytesN(n int) []byte {
	b := make([]byte, n)
	g.r.Read(b)
	return b
}

func (g *c03Gen) key() c03Key {
	for {
		k, err := ethcrypto.ToECDSA(g.bytesN(32))
		if err == nil {
			return c03Key{k, ethcrypto.PubkeyToAddress(k.PublicKey)}
		}
	}
}

func (g *c03Gen) keys(n int) []c03Key {
	ks := make([]c03Key, n)
	for i := range ks {
		ks[i] = g.key()
	}
	return ks
}

func c03Set(ks []c03Key) []ethcommon.Address {
	out := make([]ethcommon.Address, len(ks))
	for i, k := range ks {
		out[i] = k.a
	}
	return out
}

func c03Sign(k c03Key, pre []byte) []byte {
	sig, err := ethcrypto.Sign(ethcrypto.Keccak256(pre), k.k)
	if err != nil {
		panic(err)
	}
	return sig
}

func c03SignDigest(k c03Key, digest []byte) []byte {
	sig, err := ethcrypto.Sign(digest, k.k)
	if err != nil {
		panic(err)
	}
	return sig
}

func (g *c03Gen) peer() peer.ID { return peer.ID(fmt.Sprintf("12D3KooW%x", g.bytesN(4))) }

// expired / fresh timestamps are at least a minute away from the Cleanup boundary (now - MaxStateAge), so the
// outcome of Cleanup does not depend on when exactly it runs.
func (g *c03Gen) tsFresh() int64 {
	return time.Now().Add(time.Duration(1+g.r.Intn(120)) * time.Minute).UnixNano()
}
func (g *c03Gen) tsExpired() int64 {
	switch g.r.Intn(4) {
	case 0:
		return 0
	case 1:
		return -1 << 63
	}
	return time.Now().Add(-time.Duration(3+g.r.Intn(120)) * time.Minute).UnixNano()
}

// the guardian_addr STRING inside a heartbeat body is free text as far as the verifier is concerned (an honest node writes its
// own address there).  g.names = the addresses the current session's bodies may name (its members and outsiders), set by the
// session; hbBody draws from: a short junk string, empty, one of g.names in one of four spellings, a 20-byte junk address.
func (g *c03Gen) nameString() string {
	r := g.r
	x := r.Intn(10)
	switch {
	case x < 2 || (len(g.names) == 0 && x < 8):
		return "0x" + hex.EncodeToString(g.bytesN(3))
	case x < 3:
		return ""
	case x < 8:
		return c03Spell(g.names[r.Intn(len(g.names))], r.Intn(4))
	}
	return "0x" + hex.EncodeToString(g.bytesN(20))
}

func c03Spell(a ethcommon.Address, how int) string {
	switch how {
	case 0:
		return a.Hex() // checksummed, as node.go writes it
	case 1:
		return "0x" + hex.EncodeToString(a.Bytes())
	case 2:
		return hex.EncodeToString(a.Bytes()) // no 0x
	}
	return "0X" + strings.ToUpper(hex.EncodeToString(a.Bytes()))
}

func (g *c03Gen) hbBody(fresh bool, networks int) []byte {
	return g.hbBodyNaming(fresh, networks, g.nameString())
}

func (g *c03Gen) hbBodyNaming(fresh bool, networks int, name string) []byte {
	h := &gossipv1.Heartbeat{NodeName: fmt.Sprintf("guardian-%d", g.r.Intn(1000)), Counter: int64(g.r.Intn(100000)),
		Version: "v2.1.0", GuardianAddr: name, BootTimestamp: int64(g.r.Intn(1 << 30))}
	if fresh {
		h.Timestamp = g.tsFresh()
	} else {
		h.Timestamp = g.tsExpired()
	}
	for i := 0; i < networks; i++ {
		h.Networks = append(h.Networks, &gossipv1.Heartbeat_Network{Id: uint32([]int{2, 4, 255, 6}[g.r.Intn(4)]),
			Height: int64(g.r.Intn(1 << 20)), ContractAddress: "0x00", ErrorCount: uint64(g.r.Intn(3))})
	}
	b, err := proto.Marshal(h)
	if err != nil {
		panic(err)
	}
	return b
}

// a heartbeat body of exactly n bytes that decodes (field 1 NodeName, n >= 2, n-2 < 128)
func c03HbBodyOfLen(n int) []byte {
	if n == 0 {
		return nil
	}
	if n == 1 {
		return []byte{0x10} // truncated varint field: does not decode
	}
	if n == 2 {
		return []byte{0x10, 0x01} // Counter = 1
	}
	b, _ := proto.Marshal(&gossipv1.Heartbeat{NodeName: strings.Repeat("n", n-2)})
	return b
}

// an observation request body of exactly n bytes that decodes (n >= 2): chain id (2 bytes) + tx hash
func c03ReqBodyOfLen(n int) []byte {
	switch {
	case n == 0:
		return nil
	case n == 1:
		return []byte{0x08}
	case n == 2:
		return []byte{0x08, 0x02}
	case n == 3:
		return []byte{0x08, 0x82, 0x01}
	case n == 4:
		return []byte{0x08, 0x82, 0x80, 0x01}
	}
	b, _ := proto.Marshal(&gossipv1.ObservationRequest{ChainId: 2, TxHash: make([]byte, n-4)})
	return b
}

func (g *c03Gen) reqBody() []byte {
	b, _ := proto.Marshal(&gossipv1.ObservationRequest{ChainId: uint32([]int{2, 4, 255, 6, 65538}[g.r.Intn(5)]), TxHash: g.bytesN(32)})
	return b
}

func c03Flip(b []byte, i int, mask byte) []byte {
	out := append([]byte{}, b...)
	if len(out) > 0 {
		out[((i%len(out))+len(out))%len(out)] ^= mask
	}
	return out
}

type c03Msg struct{ body, sig, addr []byte }

// every single mutation of a valid message `body` signed by gs[si] under `prefix` (other = the other type's prefix)
func (g *c03Gen) mutations(ks []c03Key, outs []c03Key, si int, prefix, other []byte, body []byte) []c03Msg {
	k := ks[si]
	sig := c03Sign(k, c03cat(prefix, body))
	addr := k.a.Bytes()
	oth := ks[(si+1)%len(ks)]
	x := outs[g.r.Intn(len(outs))]
	r := g.r
	ms := []c03Msg{{body, sig, addr}} // 0: valid
	// payload: byte flips, truncation, extension
	ms = append(ms, c03Msg{c03Flip(body, 0, 0x01), sig, addr}, c03Msg{c03Flip(body, -1, 0x80), sig, addr},
		c03Msg{c03Flip(body, r.Intn(len(body)+1), byte(1<<uint(r.Intn(8)))), sig, addr},
		c03Msg{body[:len(body)-1], sig, addr}, c03Msg{c03cat(body, []byte{0}), sig, addr}, c03Msg{nil, sig, addr})
	// signature: r, s, v flips; wrong v encodings; wrong lengths
	v27 := append([]byte{}, sig...)
	v27[64] += 27
	ms = append(ms, c03Msg{body, c03Flip(sig, r.Intn(32), 0x04), addr}, c03Msg{body, c03Flip(sig, 32+r.Intn(32), 0x20), addr},
		c03Msg{body, c03Flip(sig, 64, 0x01), addr}, c03Msg{body, c03Flip(sig, 64, 0x02), addr}, c03Msg{body, v27, addr},
		c03Msg{body, sig[:64], addr}, c03Msg{body, c03cat(sig, []byte{0}), addr}, c03Msg{body, nil, addr},
		c03Msg{body, make([]byte, 65), addr}, c03Msg{body, g.bytesN(65), addr})
	// address: flips, other lengths (BytesToAddress keeps the LAST 20 bytes and left-pads short input)
	ms = append(ms, c03Msg{body, sig, c03Flip(addr, 0, 0x01)}, c03Msg{body, sig, c03Flip(addr, 19, 0x80)},
		c03Msg{body, sig, c03Flip(addr, r.Intn(20), byte(1<<uint(r.Intn(8))))},
		c03Msg{body, sig, c03cat(g.bytesN(12), addr)}, // 32 bytes, last 20 = the address: same address
		c03Msg{body, sig, c03cat(addr, []byte{0})},    // 21 bytes: shifted
		c03Msg{body, sig, addr[1:]},                   // 19 bytes: left-padded with 0 (same address only if it starts with 0)
		c03Msg{body, sig, c03cat([]byte{0}, addr[1:])}, c03Msg{body, sig, nil}, c03Msg{body, sig, make([]byte, 20)})
	// outsider signer: claiming its own address, claiming a member's address
	xs := c03Sign(x, c03cat(prefix, body))
	ms = append(ms, c03Msg{body, xs, x.a.Bytes()}, c03Msg{body, xs, addr})
	// a member signing with another member's address, and another member's signature under this member's address
	ms = append(ms, c03Msg{body, sig, oth.a.Bytes()}, c03Msg{body, c03Sign(oth, c03cat(prefix, body)), addr})
	// wrong or missing domain prefix
	ms = append(ms, c03Msg{body, c03Sign(k, body), addr}, c03Msg{body, c03Sign(k, c03cat(other, body)), addr},
		c03Msg{body, c03Sign(k, c03cat(prefix[:len(prefix)-1], body)), addr},
		c03Msg{body, c03Sign(k, c03cat(c03Flip(prefix, 0, 0x20), body)), addr},
		c03Msg{c03cat(prefix, body), sig, addr},                  // prefix inside the body, signature over prefix++body
		c03Msg{body, c03SignDigest(k, ethcrypto.Keccak256(ethcrypto.Keccak256(body))), addr}) // signed like a VAA body (double hash)
	return ms
}

func (g *c03Gen) runMsgs(s *c03Sess, isHb bool, gs []ethcommon.Address, ms []c03Msg) {
	for _, m := range ms {
		if isHb {
			s.hb(false, gs, g.peer(), m.body, m.sig, m.addr)
		} else {
			s.req(gs, m.body, m.sig, m.addr)
		}
	}
}

// mutation sessions: set of n guardians, every mutation of a valid heartbeat and of a valid request for some signers
func (g *c03Gen) mutationSession(n int) {
	ks := g.keys(n)
	if n > 2 {
		ks[g.r.Intn(n)] = g.zeroK
	}
	outs := g.keys(2)
	gs := c03Set(ks)
	s := g.start("mut", g.r.Intn(2) == 0)
	g.names = append(c03Set(ks), c03Set(outs)...)
	for _, si := range []int{0, n - 1, g.r.Intn(n)} {
		g.runMsgs(s, true, gs, g.mutations(ks, outs, si, c03HbPrefix, c03ReqPrefix, g.hbBody(true, g.r.Intn(3))))
		g.runMsgs(s, false, gs, g.mutations(ks, outs, si, c03ReqPrefix, c03HbPrefix, g.reqBody()))
		if n == 1 {
			break
		}
	}
	s.end()
}

// every single byte of payload, signature and envelope address flipped (one random bit each), for both message types
func (g *c03Gen) flipSession() {
	ks := g.keys(3)
	gs := c03Set(ks)
	s := g.start("flip", true)
	k := ks[1]
	hbB := g.hbBody(true, 1)
	hbSig := c03Sign(k, c03cat(c03HbPrefix, hbB))
	rqB := g.reqBody()
	rqSig := c03Sign(k, c03cat(c03ReqPrefix, rqB))
	a := k.a.Bytes()
	bit := func() byte { return byte(1 << uint(g.r.Intn(8))) }
	p := g.peer()
	s.hb(false, gs, p, hbB, hbSig, a)
	for i := range hbB {
		s.hb(false, gs, p, c03Flip(hbB, i, bit()), hbSig, a)
	}
	for i := range hbSig {
		s.hb(false, gs, p, hbB, c03Flip(hbSig, i, bit()), a)
	}
	for i := range a {
		s.hb(false, gs, p, hbB, hbSig, c03Flip(a, i, bit()))
	}
	for i := range rqB {
		s.req(gs, c03Flip(rqB, i, bit()), rqSig, a)
	}
	for i := range rqSig {
		s.req(gs, rqB, c03Flip(rqSig, i, bit()), a)
	}
	for i := range a {
		s.req(gs, rqB, rqSig, c03Flip(a, i, bit()))
	}
	// every truncation of the payload with the original signature, and re-signed (the floor and the decoder)
	for n := 0; n < len(hbB); n += 1 + g.r.Intn(3) {
		s.hb(false, gs, p, hbB[:n], hbSig, a)
		s.hb(false, gs, p, hbB[:n], c03Sign(k, c03cat(c03HbPrefix, hbB[:n])), a)
	}
	for n := 0; n < len(rqB); n += 1 + g.r.Intn(3) {
		s.req(gs, rqB[:n], rqSig, a)
		s.req(gs, rqB[:n], c03Sign(k, c03cat(c03ReqPrefix, rqB[:n])), a)
	}
	s.end()
}

// the length floor: validly signed, decodable bodies whose pre-image has every length around 32 and 34
func (g *c03Gen) floorSession() {
	ks := g.keys(3)
	gs := c03Set(ks)
	s := g.start("floor", true)
	for total := 28; total <= 37; total++ {
		k := ks[g.r.Intn(3)]
		if n := total - len(c03HbPrefix); n >= 0 {
			b := c03HbBodyOfLen(n)
			s.hb(false, gs, g.peer(), b, c03Sign(k, c03cat(c03HbPrefix, b)), k.a.Bytes())
		}
		if n := total - len(c03ReqPrefix); n >= 0 {
			b := c03ReqBodyOfLen(n)
			s.req(gs, b, c03Sign(k, c03cat(c03ReqPrefix, b)), k.a.Bytes())
		}
	}
	// bodies of 0..3 bytes and random bodies of every length up to 40
	for n := 0; n <= 40; n++ {
		k := ks[g.r.Intn(3)]
		b := g.bytesN(n)
		s.hb(false, gs, g.peer(), b, c03Sign(k, c03cat(c03HbPrefix, b)), k.a.Bytes())
		s.req(gs, b, c03Sign(k, c03cat(c03ReqPrefix, b)), k.a.Bytes())
	}
	s.end()
}

// cross-type replay: a signature a guardian really made for one purpose, presented for another
func (g *c03Gen) crossSession() {
	ks := g.keys(3)
	gs := c03Set(ks)
	s := g.start("cross", true)
	for i := 0; i < 3; i++ {
		k := ks[i]
		a := k.a.Bytes()
		// (1) a VAA signature: ECDSA over digest = Keccak(inner), inner = Keccak(vaa body) — the 32-byte pre-image
		inner := ethcrypto.Keccak256(g.bytesN(60))
		vaaSig := c03SignDigest(k, ethcrypto.Keccak256(inner))
		s.hb(false, gs, g.peer(), inner, vaaSig, a)      // body = the 32-byte pre-image itself (rraw = member)
		s.req(gs, inner, vaaSig, a)
		s.hb(false, gs, g.peer(), inner[10:], vaaSig, a) // what is left if the pre-image started with the prefix
		s.req(gs, inner[27:], vaaSig, a)
		// a 32-byte pre-image that really starts with the prefix: only the floor separates it from a VAA pre-image
		pre := c03cat(c03HbPrefix, c03HbBodyOfLen(22))
		s.hb(false, gs, g.peer(), pre[10:], c03SignDigest(k, ethcrypto.Keccak256(pre)), a)
		pre2 := c03cat(c03ReqPrefix, c03ReqBodyOfLen(5))
		s.req(gs, pre2[27:], c03SignDigest(k, ethcrypto.Keccak256(pre2)), a)
		// (2) a heartbeat signature presented as an observation request, and the other way round
		hbB := g.hbBody(true, 0)
		hbSig := c03Sign(k, c03cat(c03HbPrefix, hbB))
		s.req(gs, hbB, hbSig, a)
		s.req(gs, c03cat(c03HbPrefix, hbB), hbSig, a)
		rqB := g.reqBody()
		rqSig := c03Sign(k, c03cat(c03ReqPrefix, rqB))
		s.hb(false, gs, g.peer(), rqB, rqSig, a)
		s.hb(false, gs, g.peer(), c03cat(c03ReqPrefix, rqB), rqSig, a)
		// a body that decodes as both types, signed for one, presented as the other
		both := c03ReqBodyOfLen(30)
		s.hb(false, gs, g.peer(), both, c03Sign(k, c03cat(c03ReqPrefix, both)), a)
		s.req(gs, both, c03Sign(k, c03cat(c03HbPrefix, both)), a)
		// and the genuine ones
		s.hb(false, gs, g.peer(), hbB, hbSig, a)
		s.req(gs, rqB, rqSig, a)
	}
	s.end()
}

// guardian-set change: messages of a removed guardian stop counting, its stored entries stay; a new guardian counts
func (g *c03Gen) setChangeSession() {
	ks := g.keys(4)
	nk := g.key()
	s := g.start("setchg", g.r.Intn(2) == 0)
	setA := c03Set(ks)
	g.names = append(c03Set(ks), nk.a)
	setB := append(c03Set(ks[1:]), nk.a)
	type sm struct {
		k    c03Key
		b, s []byte
	}
	var hbs, rqs []sm
	for _, k := range append(append([]c03Key{}, ks...), nk) {
		b := g.hbBody(true, 0)
		hbs = append(hbs, sm{k, b, c03Sign(k, c03cat(c03HbPrefix, b))})
		rb := g.reqBody()
		rqs = append(rqs, sm{k, rb, c03Sign(k, c03cat(c03ReqPrefix, rb))})
	}
	p := g.peer()
	for _, set := range [][]ethcommon.Address{setA, setB, setA, nil, {}, setB} {
		for i := range hbs {
			s.hb(false, set, p, hbs[i].b, hbs[i].s, hbs[i].k.a.Bytes())
			s.req(set, rqs[i].b, rqs[i].s, rqs[i].k.a.Bytes())
		}
		// the removed guardian signs, the envelope names a current member; and the reverse
		s.hb(false, set, g.peer(), hbs[0].b, hbs[0].s, ks[1].a.Bytes())
		s.hb(false, set, g.peer(), hbs[1].b, hbs[1].s, ks[0].a.Bytes())
		s.req(set, rqs[0].b, rqs[0].s, ks[1].a.Bytes())
	}
	// duplicate keys in a set
	dup := []ethcommon.Address{ks[0].a, ks[1].a, ks[0].a}
	s.hb(false, dup, g.peer(), hbs[0].b, hbs[0].s, ks[0].a.Bytes())
	s.req(dup, rqs[0].b, rqs[0].s, ks[0].a.Bytes())
	s.end()
}

// the per-guardian cap: fill one guardian's table to around the cap through the real verifier, then updates, Cleanup
func (g *c03Gen) capSession(capN int) {
	ks := g.keys(2)
	gs := c03Set(ks)
	s := g.start("cap", g.r.Intn(2) == 0)
	g.names = gs
	k := ks[0]
	send := func(k c03Key, p peer.ID, fresh bool) {
		b := g.hbBody(fresh, 1)
		s.hb(false, gs, p, b, c03Sign(k, c03cat(c03HbPrefix, b)), k.a.Bytes())
	}
	var peers []peer.ID
	for i := 0; i < capN+3; i++ {
		p := g.peer()
		peers = append(peers, p)
		send(k, p, i%3 != 0) // every third entry carries an expired timestamp
		if i == capN-2 || i == capN-1 || i == capN {
			send(k, peers[0], true)      // update from a known peer around the cap
			send(ks[1], peers[0], false) // the other guardian is independent
		}
	}
	s.sethb(k.a, g.peer(), &gossipv1.Heartbeat{NodeName: "own", Timestamp: g.tsFresh()}) // the node's own path: same cap
	s.cleanup()
	send(k, g.peer(), true)
	send(k, peers[1], true)
	for i := 0; i < capN; i++ {
		send(k, g.peer(), true)
	}
	s.cleanup()
	// a forged heartbeat while the table is full must not evict or alter anything either
	b := g.hbBody(true, 0)
	s.hb(false, gs, g.peer(), b, c03Flip(c03Sign(k, c03cat(c03HbPrefix, b)), 3, 1), k.a.Bytes())
	s.end()
}

// what the heartbeat BODY says about its sender is free text: whichever address it names — the signer's own in every spelling,
// another member's, an outsider's, the zero address, nothing, something short or long — the entry belongs to the signer
func (g *c03Gen) namingSession() {
	ks := g.keys(4)
	outs := g.keys(2)
	gs := c03Set(ks)
	s := g.start("name", g.r.Intn(2) == 0)
	g.names = append(c03Set(ks), c03Set(outs)...)
	peers := []peer.ID{g.peer(), g.peer(), g.peer()}
	send := func(k c03Key, env []byte, name string) {
		b := g.hbBodyNaming(true, g.r.Intn(2), name)
		s.hb(false, gs, peers[g.r.Intn(len(peers))], b, c03Sign(k, c03cat(c03HbPrefix, b)), env)
	}
	y, z := ks[1], outs[0]
	for how := 0; how < 4; how++ {
		x := ks[[]int{0, 2, 3}[g.r.Intn(3)]]
		send(x, x.a.Bytes(), c03Spell(x.a, how))
		send(x, x.a.Bytes(), c03Spell(y.a, how))
		send(x, x.a.Bytes(), c03Spell(z.a, how))
	}
	x := ks[0]
	for _, nm := range []string{"", "0x", "0x1234", "0x" + hex.EncodeToString(y.a.Bytes()[:19]), "0x" + hex.EncodeToString(y.a.Bytes()) + "00",
		"guardian-1", c03Spell(ethcommon.Address{}, 1), strings.Repeat("f", 40), " " + y.a.Hex(), y.a.Hex() + "\n"} {
		send(x, x.a.Bytes(), nm)
	}
	// an outsider naming a member in the body: in the member's name (rejected), in its own (rejected)
	send(z, y.a.Bytes(), y.a.Hex())
	send(z, z.a.Bytes(), y.a.Hex())
	// the named member's own heartbeats are unaffected by all of this
	send(y, y.a.Bytes(), y.a.Hex())
	send(y, y.a.Bytes(), x.a.Hex())
	s.cleanup()
	send(y, y.a.Bytes(), y.a.Hex())
	s.end()
}

// one member X sends heartbeats from cap+2 peer ids whose bodies all name `victim` (another member, or an outsider): they fill
// X's own slots, nobody else's; the other member's own heartbeats (from two peers) are stored afterwards
func (g *c03Gen) hijackSession(capN int, outsider bool) {
	ks := g.keys(3)
	outs := g.keys(1)
	gs := c03Set(ks)
	s := g.start("hijack", g.r.Intn(2) == 0)
	g.names = append(c03Set(ks), c03Set(outs)...)
	x, y := ks[0], ks[1]
	victim := y.a
	if outsider {
		victim = outs[0].a
	}
	send := func(k c03Key, p peer.ID, name string) {
		b := g.hbBodyNaming(true, 0, name)
		s.hb(false, gs, p, b, c03Sign(k, c03cat(c03HbPrefix, b)), k.a.Bytes())
	}
	for i := 0; i < capN+2; i++ {
		send(x, g.peer(), c03Spell(victim, i%4))
	}
	send(y, g.peer(), y.a.Hex())
	send(y, g.peer(), y.a.Hex())
	s.cleanup()
	send(y, g.peer(), y.a.Hex())
	s.end()
}

// "dropped without side effects", at scale: guardian Y's genuine heartbeat and request are delivered three times, then the
// node receives n messages it must drop, all NAMING Y, then the same genuine messages again (and a genuine request it has not
// seen before).  kind 0: one outsider-signed message n times; 1: the genuine message with one signature bit flipped, n
// times; 2: n different forged messages (outsider-signed fresh bodies, random signature flips, another member's signature);
// 3: another member's validly signed message under Y's envelope address, n times.
func (g *c03Gen) floodSession(n, kind int) {
	ks := g.keys(3)
	outs := g.keys(2)
	gs := c03Set(ks)
	s := g.start("flood", g.r.Intn(2) == 0)
	g.names = append(c03Set(ks), c03Set(outs)...)
	y, w, x := ks[1], ks[2], outs[0]
	a := y.a.Bytes()
	p := g.peer()
	hbB := g.hbBodyNaming(true, 1, y.a.Hex())
	hbSig := c03Sign(y, c03cat(c03HbPrefix, hbB))
	rqB := g.reqBody()
	rqSig := c03Sign(y, c03cat(c03ReqPrefix, rqB))
	genuine := func() {
		s.hb(false, gs, p, hbB, hbSig, a)
		s.req(gs, rqB, rqSig, a)
	}
	genuine()
	genuine()
	genuine()
	forger := x
	if kind == 3 {
		forger = w
	}
	switch kind {
	case 0, 3:
		fb := g.reqBody()
		s.floodReq(n, gs, fb, c03Sign(forger, c03cat(c03ReqPrefix, fb)), a)
		fh := g.hbBodyNaming(true, 0, y.a.Hex())
		s.floodHb(n, gs, p, fh, c03Sign(forger, c03cat(c03HbPrefix, fh)), a)
	case 1:
		s.floodReq(n, gs, rqB, c03Flip(rqSig, g.r.Intn(64), 0x10), a)
		s.floodHb(n, gs, p, hbB, c03Flip(hbSig, g.r.Intn(64), 0x10), a)
	default:
		for i := 0; i < n; i++ {
			switch i % 3 {
			case 0:
				fb := g.reqBody()
				s.req(gs, fb, c03Sign(x, c03cat(c03ReqPrefix, fb)), a)
				fh := g.hbBodyNaming(true, 0, y.a.Hex())
				s.hb(false, gs, g.peer(), fh, c03Sign(x, c03cat(c03HbPrefix, fh)), a)
			case 1:
				s.req(gs, rqB, c03Flip(rqSig, g.r.Intn(64), byte(1<<uint(g.r.Intn(8)))), a)
				s.hb(false, gs, p, hbB, c03Flip(hbSig, g.r.Intn(64), byte(1<<uint(g.r.Intn(8)))), a)
			default:
				fb := g.reqBody()
				s.req(gs, fb, c03Sign(w, c03cat(c03ReqPrefix, fb)), a)
				s.hb(false, gs, g.peer(), c03Flip(hbB, g.r.Intn(len(hbB)), 0x01), hbSig, a)
			}
		}
	}
	genuine()
	b2 := g.reqBody()
	s.req(gs, b2, c03Sign(y, c03cat(c03ReqPrefix, b2)), a)
	h2 := g.hbBodyNaming(true, 0, y.a.Hex())
	s.hb(false, gs, p, h2, c03Sign(y, c03cat(c03HbPrefix, h2)), a)
	s.end()
}

// disableVerify = true: the code stores under the recovered signer without looking at the set (tie only)
func (g *c03Gen) dvSession() {
	ks := g.keys(2)
	outs := g.keys(2)
	gs := c03Set(ks)
	s := g.start("dv", true)
	ms := g.mutations(ks, outs, 0, c03HbPrefix, c03ReqPrefix, g.hbBody(true, 1))
	for _, m := range ms {
		s.hb(true, gs, g.peer(), m.body, m.sig, m.addr)
	}
	b := c03HbBodyOfLen(23)
	s.hb(true, gs, g.peer(), b, c03Sign(outs[0], c03cat(c03HbPrefix, b)), nil)
	s.end()
}

func (g *c03Gen) randomSession(nops int) {
	r := g.r
	n := 1 + r.Intn(5)
	ks := g.keys(n)
	outs := g.keys(2)
	cur := c03Set(ks)
	s := g.start("rnd", r.Intn(2) == 0)
	g.names = append(c03Set(ks), c03Set(outs)...)
	peers := []peer.ID{g.peer(), g.peer(), g.peer()}
	for i := 0; i < nops; i++ {
		si := r.Intn(len(ks))
		switch x := r.Intn(100); {
		case x < 40:
			ms := g.mutations(ks, outs, si, c03HbPrefix, c03ReqPrefix, g.hbBody(r.Intn(3) != 0, r.Intn(2)))
			m := ms[0]
			if r.Intn(2) == 0 {
				m = ms[r.Intn(len(ms))]
			}
			s.hb(false, cur, peers[r.Intn(len(peers))], m.body, m.sig, m.addr)
		case x < 70:
			ms := g.mutations(ks, outs, si, c03ReqPrefix, c03HbPrefix, g.reqBody())
			m := ms[0]
			if r.Intn(2) == 0 {
				m = ms[r.Intn(len(ms))]
			}
			s.req(cur, m.body, m.sig, m.addr)
		case x < 76:
			s.cleanup()
		case x < 80: // the same (mostly invalid) message many times in a row
			if r.Intn(2) == 0 {
				ms := g.mutations(ks, outs, si, c03HbPrefix, c03ReqPrefix, g.hbBody(true, 0))
				m := ms[1+r.Intn(len(ms)-1)]
				s.floodHb(2+r.Intn(40), cur, peers[r.Intn(len(peers))], m.body, m.sig, m.addr)
			} else {
				ms := g.mutations(ks, outs, si, c03ReqPrefix, c03HbPrefix, g.reqBody())
				m := ms[1+r.Intn(len(ms)-1)]
				s.floodReq(2+r.Intn(40), cur, m.body, m.sig, m.addr)
			}
		case x < 90: // guardian-set change: drop one, add one, or shuffle
			switch r.Intn(3) {
			case 0:
				if len(cur) > 0 {
					cur = append([]ethcommon.Address{}, cur[1:]...)
				}
			case 1:
				nk := g.key()
				ks = append(ks, nk)
				cur = append(append([]ethcommon.Address{}, cur...), nk.a)
			default:
				cur = c03Set(ks)
			}
		default:
			peers = append(peers, g.peer())
			s.sethb(ks[si].a, peers[len(peers)-1], &gossipv1.Heartbeat{NodeName: "own", Timestamp: g.tsFresh()})
		}
	}
	s.end()
}

func TestVerifC03Gossip(t *testing.T) {
	seed, _ := strconv.ParseInt(os.Getenv("VERIF_SEED"), 10, 64)
	tier := os.Getenv("VERIF_TIER")
	out := os.Getenv("VERIF_OUT")
	if out == "" {
		t.Skip("VERIF_OUT not set")
	}
	capN := node_common.MaxNodesPerGuardian
	f, err := os.Create(filepath.Join(out, "gossip.cases"))
	if err != nil {
		t.Fatal(err)
	}
	defer f.Close()
	w := bufio.NewWriterSize(f, 1<<20)
	defer w.Flush()
	g := &c03Gen{r: rand.New(rand.NewSource(seed)), w: w, dist: map[string]int{}}
	for {
		k := g.key()
		if k.a[0] == 0 {
			g.zeroK = k
			break
		}
	}
	nmut, nrnd, nops := []int{1, 2, 3, 19}, 120, 40
	if tier == "thorough" {
		nmut, nrnd, nops = []int{1, 2, 3, 4, 7, 13, 19, 19, 19, 32}, 600, 80
	}
	for _, n := range nmut {
		g.mutationSession(n)
	}
	g.flipSession()
	g.floorSession()
	g.crossSession()
	g.setChangeSession()
	g.setChangeSession()
	if capN >= 1 && capN <= 64 {
		g.capSession(capN)
		g.capSession(capN)
		g.hijackSession(capN, false)
		g.hijackSession(capN, true)
	}
	g.namingSession()
	g.namingSession()
	floods := [][2]int{{400, 0}, {150, 1}, {130, 2}, {300, 3}}
	if tier == "thorough" {
		floods = append(floods, [2]int{3000, 0}, [2]int{1500, 1}, [2]int{1000, 2}, [2]int{20000, 3})
	}
	for _, f := range floods {
		g.floodSession(f[0], f[1])
	}
	g.dvSession()
	for i := 0; i < nrnd; i++ {
		g.randomSession(5 + g.r.Intn(nops))
	}
	var ks []string
	for k, v := range g.dist {
		ks = append(ks, fmt.Sprintf("%s=%d", k, v))
	}
	sort.Strings(ks)
	t.Logf("c03 sessions: %s", strings.Join(ks, " "))
}
