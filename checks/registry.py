"""Per-property MANIFEST entries (level, text, trusted base, technique)."""
CHECKS = {
    "C07": {
        "families": ("processor", "evm", "explorer"),
        "level": "proof",
        "technique": "Lean 4 theorems (omega, all n : Nat) over formulas re-translated from Go/Solidity/Ralph source on every run",
        "text": ("The three quorum formulas are translated from /repo's current sources into Lean definitions on every run and the "
                 "theorems (each equals 2n/3+1, exceeds 2n/3, at most n, two quorums intersect in more than n/3) are re-checked by "
                 "the Lean kernel for every natural n. The translator is validated against the compiled Go function on n=0..255. "
                 "'Complete for the node => accepted on chain' is a theorem about the contract model and, on the real Processor, the Spec "
                 "clause complete-vaa-rejected-on-chain judged on every VAA it publishes or stores."),
        "note": ("Trusted: Lean kernel; tools/exprtrans.py and the locating regexes; Solidity/Ralph unsigned truncating division; "
                 "contracts are not executed (no solc/VM offline). Go int overflow out of scope (n < 2^59)."),
    },
}
CHECKS.update({
    "C04": {
        "families": ("vaa", "processor"),
        "level": "proof",
        "technique": "Lean 4 theorems (layout, injectivity, header independence) over a hand model of serializeBody/Marshal tied by differential run, plus contract offsets re-extracted from Solidity/Ralph source",
        "text": ("serializeBody's big-endian layout, its injectivity on in-range bodies (two messages differing in any field never share a "
                 "signing body), independence of the digest from header and sub-second time, and equality of the bytes the contracts hash "
                 "with the Go signing body are Lean theorems for every VAA value; the contract offset tables are regenerated from "
                 "Messages.sol / governance.ral on every run and compared by decide; the Go serializer is tied to the model by a "
                 "differential run on generated VAAs and single-field mutations."),
        "note": ("Trusted: Lean kernel; Keccak-256 as an oracle (no collision-resistance assumption is used: theorems stop at the signing  The concurrency child process has a 15 s watchdog that fires only on a call that never returns. "
                 "body); checks/c04gen.py extraction; contracts not executed; differential run samples inputs."),
    },
    "C05": {
        "families": ("vaa",),
        "level": "proof",
        "technique": "Lean 4 round-trip theorems (decode∘encode, encode∘decode) over a hand model of Marshal/Unmarshal, tied by differential execution of the real codec",
        "text": ("unmarshal (marshal v) = some v for every in-domain VAA of any payload length, and unmarshal bs = some v -> marshal v = bs "
                 "(nothing accepted is truncated or altered) are proved in Lean; the model is compared with the real Marshal/Unmarshal on "
                 "generated VAAs, every truncation point of small encodings, structured mutations and random bytes on each run, and the "
                 "round-trip Spec is also evaluated directly on the implementation's outputs (that is what finds a failing input)."),
        "note": ("Trusted: Lean kernel; harness + driver comparison; totality (no panic/over-read) of the Go decoder is observed on generated "
                 "inputs, not proved; bytes.Reader/encoding/binary are exercised, not modelled."),
    },
    "C06": {
        "families": ("vaa", "processor", "explorer"),
        "level": "proof",
        "technique": "Lean 4 iff-theorem (verifySignatures = true <-> Valid) for lists of any length with ecrecover as an abstract oracle, tied by differential execution of VerifySignatures",
        "text": ("verify_iff proves, for guardian and signature lists of any length and any recover oracle, that the model of VerifySignatures "
                 "accepts exactly lists whose signatures recover positionally, lie in range, strictly ascend and count no address twice; "
                 "corollaries cover swap, duplicate, re-index, outsider, other digest. The model is compared with the real function on "
                 "list sizes 0..255 with 20+ corruption classes each run, with an independent ecrecover oracle."),
        "note": "Trusted: Lean kernel; secp256k1/Keccak as oracles supplied per case; harness + driver; differential run samples inputs.",
    },
})
CHECKS.update({
    "C13": {
        "families": ("processor",),
        "level": "proof",
        "technique": "Lean 4 invariant proof (induction over all event sequences) that the processor model never reaches a panic site; model tied by differential execution incl. panic outcomes",
        "text": ("The aggregation state machine (handleMessage/Injection/Observation/InboundSignedVAA/Cleanup + set updates) is an executable "
                 "Lean model in which every Go panic site is an explicit result; no_panic proves by induction over arbitrary event lists, with "
                 "an explicit invariant, that no sequence of inputs reaches one. The model is replayed against the real handlers (real badger, "
                 "real signer) on generated scenarios each run; the harness recovers panics, so the model must predict them exactly, and a "
                 "panic of the real code is reported with the scenario as replay."),
        "note": ("Trusted: Lean kernel; assumptions stated in the theorem (signer does not fail; ecrecover succeeds only on 65-byte signatures); "
                 "harness + driver; Go runtime (channels, maps), badger, protobuf; the Run loop's select itself is not modelled (handlers are "
                 "called as Run dispatches them)."),
    },
})
CHECKS.update({
    "C01": {
        "families": ("processor", "db"),
        "level": "proof",
        "technique": "Lean 4 invariant proof over all event interleavings (every broadcast/stored VAA is quorum-signed and verifiable for a learned set), model tied by differential execution of the real processor",
        "text": ("broadcast_good / store_good prove, by induction over arbitrary event sequences with an explicit invariant and an abstract "
                 "crypto oracle, that every SignedVAAWithQuorum the processor model broadcasts and every store entry is the encoding of a VAA "
                 "whose signatures verify (C06.Valid: positional recovery over its own digest, strictly ascending, distinct) for at least the "
                 "quorum of a guardian set delivered by a set update; assembled VAAs use the snapshot set taken at observation time and name "
                 "it; inbound VAAs are checked against the current set and never overwrite. The model is replayed against the real handlers "
                 "on generated scenarios each run and the same Spec is evaluated directly on the bytes the real node published/stored."),
        "note": ("Trusted: Lean kernel; hypotheses visible in the theorems (sets from chain have distinct keys, <= 256; injected VAAs are "
                 "governance VAAs); crypto oracle abstract; harness + driver; differential run samples scenarios; badger read-your-writes."),
    },
})
CHECKS.update({
    "C02": {
        "families": ("processor",),
        "level": "proof",
        "technique": "Lean 4 theorems on the processor model (publish soundness/completeness, at-most-once, invalid-traffic no-op, governance never signed), tied by differential execution incl. all causally valid permutations of small event multisets",
        "text": ("publish_sound (a publish step is the handling of an observation for a locally observed digest, with the own body, not yet "
                 "submitted, >= quorum assembled signatures), publish_complete (an accepted observation that brings the snapshot set's count to "
                 "quorum publishes in that very step, exactly once), submitted_never_republished + reobserve_keeps_submitted, "
                 "invalid_observation_noop, governance_message_never_signed, before_first_set_dropped are proved for every state and input. "
                 "Order-independence is a theorem too (Whv/Lemmas/Confluence.lean): for one message window under a fixed set, published iff some "
                 "accepted observation after a message event completes the quorum of distinct accepted signers (published_iff_quorum), at most "
                 "once, with the own body and a Valid signature list, and any two orders and multiplicities of the same events publish alike "
                 "(c02_confluence, c02_confluence_same_events); the frame theorem (run_frame, c02_other_traffic) extends this to any interleaving "
                 "with traffic about other messages. Across set updates the per-step theorems apply; the harness replays permutation, "
                 "subset and rotation families against fresh processors and the driver evaluates a history-based Spec on the implementation's "
                 "own traces."),
        "note": ("Trusted: Lean kernel; crypto oracle abstract; harness + driver. The confluence theorems are for one aggregation window "
                 "without a set update or deleting cleanup inside it; set updates in between are covered by the unbounded per-step theorems "
                 "and by the rotation families of the tie (labelled as tests)."),
    },
    "C14": {
        "families": ("processor",),
        "level": "proof",
        "technique": "Lean 4 case-analysis theorems on the model of one cleanup iteration (no early discard, retry when due / not before, two-tick expiry, decreasing retry budget), tied by differential execution with simulated elapsed time",
        "text": ("For every entry state, time, store content and queue fill: a pending entry (signed, no quorum, VAA not stored, budget left) "
                 "is never deleted; it is retried exactly when settled, >= 5 min old and >= 5 min since the last retry (re-broadcast + "
                 "re-observation request for the emitter chain and tx), never earlier; entries never observed locally are gone at most two "
                 "ticks after 5 min, submitted ones two ticks after 1 h; the retry budget strictly decreases on every due tick and a spent "
                 "budget deletes. The real handleCleanup is replayed with time simulated by shifting recorded instants across every "
                 "threshold, and the schedule Spec is evaluated on the implementation's own before/after summaries."),
        "note": ("Trusted: Lean kernel; integer-nanosecond time (delta.Hours()/Minutes() float comparisons are exact at the thresholds);  The 10 050-observation flood of the scale family is one `flood` line which the driver expands and replays through the model; intermediate states are not compared, the state after the last observation is. "
                 "liveness is relative to ticks continuing; harness time shifting; Go map iteration order abstracted (outputs compared as "
                 "multisets, request-queue slots checked as subset + count)."),
    },
})
CHECKS.update({
    "C15": {
        "families": ("gov",),
        "level": "proof",
        "technique": "Lean 4 theorems (per-kind layout / lossless / injective, spec soundness, no-panic, purity) over a hand model of adminserver.go+payloads.go+governance.go and of the Ralph governance parsers parameterised by offsets re-extracted from the .ral sources; tied by differential execution of the real InjectGovernanceVAA",
        "text": ("For each of the nine governance kinds: accepted => payload = module(32)||action||fields with every field at the slice the Ralph "
                 "parser reads and total length = the parser's size equation (constants of Whv.Gen.C15, regenerated from the contracts each run), "
                 "and the parser recovers every requested value un-wrapped (hence same-payload requests asked for the same values); no "
                 "request/config/history makes the handler panic; the result is a function of config+request (same digests across operators, any "
                 "hash); every injected VAA comes from the configured emitter with an in-range body. The executable Spec proved of the model "
                 "(c15_spec_sound) is evaluated on the implementation's own VAAs for generated requests across and beyond wire ranges, then model "
                 "and implementation are compared on status code, message and VAAs."),
        "note": ("Trusted: Lean kernel; checks/c15.py regex extraction (contracts never executed; Whv.Gov.Ral is a hand model around the extracted "
                 "constants); harness+driver; p2p stub; Keccak oracle; requests proto-round-tripped, gRPC server not started. Non-atomic "
                 "multi-message injection modelled as is."),
    },
    "C11": {
        "families": ("alphutil", "alphwatch"),
        "level": "proof",
        "technique": "Lean 4 theorems (exact iff-characterisations of every converter, inversion of ToWormholeMessage, round trips incl. a proved base58 codec) over a hand model of alephium/utils.go tied by differential execution; contract layout re-extracted from the .ral sources and compared by decide",
        "text": ("For every field list: ToWormholeMessage accepts iff there are six fields of the declared types whose numerals/hex denote a 32-byte "
                 "sender, target<2^16, sequence<2^64, 4-byte nonce, level<2^8, and then returns exactly those values (c11_accepted_exact, "
                 "c11_fit_decoded, c11_unfit_rejected; never wrapped: the equality is between integers); the publication carries chain id 255 and "
                 "the block timestamp to the millisecond for every int64; hex<->Byte32, contract id<->address (base58 round trip proved for the "
                 "modelled codec) and the attestation payload against the Ralph encoder's layout are mutually inverse. The Go functions are run on "
                 "boundary sweeps at every field position plus a seeded stream and compared with the model; the Spec is evaluated on the "
                 "implementation's own results."),
        "note": ("Trusted: Lean kernel; harness+driver; regex extraction of the .ral/Go facts; math/big, encoding/hex, time, go-ethereum HexToHash, "
                 "btcutil base58 are modelled and compared, not verified; contracts not executed. ToContractId does not check the 0x03 prefix "
                 "(noted, not flagged: no production caller)."),
    },
})
CHECKS.update({
    "C03": {
        "families": ("gossip", "processor"),
        "level": "proof",
        "technique": "Lean 4 accept-iff / no-op / stored-under-signer / cap-invariant (induction over histories) / pre-image-level domain-separation theorems over a statement-by-statement model of the two p2p verifiers and SetHeartbeat/Cleanup with digest, ecrecover and protobuf as abstract oracles, plus the observation-gate no-op theorem on the processor model; constants re-extracted from source each run; tied by differential execution of the real verifiers and of handleObservation on every single mutation",
        "text": ("For every guardian set, table, message and oracle: a heartbeat / observation request is accepted iff the envelope address (last 20 "
                 "bytes) is in the set, prefix+body passes the 34-byte floor, the signature over H(prefix++body) recovers to that address, the body "
                 "decodes and (heartbeats) the guardian has room; otherwise table and forwarded list are unchanged; entries are stored under the "
                 "recovered signer; every history of heartbeats, own heartbeats and Cleanups keeps <=15 entries per guardian; only set members ever "
                 "get an entry; the three signed pre-image sets (32-byte VAA pre-images, 'heartbeat|'++b >=34, 'signed_observation_request|'++b >=34) "
                 "are pairwise disjoint; a gossiped observation that does not recover to its claimed address or whose signer is outside the "
                 "applicable set leaves the processor state unchanged (observation_gate_noop). Prefixes, floor tests and cap are extracted from "
                 "p2p.go/guardianset.go each run and pinned to the protocol values; the real processSignedHeartbeat / "
                 "processSignedObservationRequest / SetHeartbeat / Cleanup / handleObservation are compared with the models and the Spec is "
                 "evaluated on their own results."),
        "note": ("Trusted: Lean kernel; Keccak/secp256k1/protobuf as per-case oracles computed independently by the harness (no theorem assumes "
                 "anything about them); harness + driver; p2p stub (Run body removed) - the call sites inside p2p.Run and the "
                 "disableHeartbeatVerify default are checked textually only; differential run samples inputs."),
    },
    "C12": {
        "families": ("db",),
        "level": "proof",
        "technique": "Lean 4 theorems over all store histories (key injectivity, lookup = last stored, prefix <-> stream, gap scan = spec, governance batch = spec, RPC wrappers) on a hand model of db.go, the structs.go key functions, publicrpcserver.go and FindMissingMessages, tied by differential execution on a real badger store through all three layers",
        "text": ("key_injective, get_exact, prefix_iff_stream, gap_spec, gov_batch_spec, rpc_*_exact and fmm_spec are proved for every history of "
                 "stored VAAs. The model is replayed against the real db, PublicrpcServer and admin service on stores built from chain ids whose "
                 "decimal renderings are prefixes of one another, with overlaps, overwrites and raw malformed keys; every answer is also judged "
                 "against lastStored / specGap / specGov of the implementation's own history."),
        "note": ("Trusted: Lean kernel; badger ordered prefix iteration (Seek + ValidForPrefix modelled as sort + filter, assumed); C05's "
                 "decode_encode; harness and driver; p2p stub for cmd/guardiand. first = 0 and the empty-stream answer are taken from the repo "
                 "test. Streams holding empty-payload VAAs and sequence 2^64-1 are outside the gap Spec's domain; enum numbers outside 0..65535 "
                 "are diff-only."),
    },
    "C16": {
        "families": ("crash", "db"),
        "level": "fault_enumeration",
        "technique": "SIGKILL / reopen enumeration on the real badger store from a re-executed test binary, judged by a Lean acceptance function proved sound and meaningful for a crash-contract model (theorems over all put/ack/crash/reopen sequences)",
        "text": ("A child process runs db.Open and StoreSignedVAA and acknowledges each success; the parent kills it at PRNG-chosen points over many "
                 "cycles on the same directory; a second child reopens and reads back every identifier. Each answer is judged by acceptKey: an "
                 "acked id is found with bytes not older than the newest acked store, found bytes equal a store under that id, the store "
                 "reopens. Lean proves acked_survive(_forever), lookup_exact, accept_sound and accept_*_meaning for every sequence of the "
                 "contract model. Machine-checked proof applies to the contract and the judge only: why badger honours the contract lives in "
                 "its WAL and the OS, which no model here exhibits - hence fault enumeration, not proof."),
        "note": ("Process kill only (SyncWrites off: power loss out of scope). Kill points are sampled. Trusted: harness bookkeeping (acked iff a "
                 "complete ack line was received), driver, Lean kernel; badger WAL/mmap and the page cache are not modelled."),
    },
    "C17": {
        "families": ("reobserve", "processor"),
        "level": "proof",
        "technique": "Lean 4 theorems over all histories (induction with a window invariant) for a model of the dispatcher cache/purge and the non-blocking queues, window and ticker extracted from source; tied by running the real handleReobservationRequests loop under a harness-owned clock/ticker channel and the real PostObservationRequest",
        "text": ("For every window, cache, history and queue state: a request goes only to the watcher of chain_id mod 2^16, exactly when its "
                 "(chain, tx) is not remembered and that queue has room; unknown chain / full queue / duplicate leave the cache unchanged; a "
                 "remembered key is never forwarded again before a purge tick later than forward+window, and on monotone histories two forwards "
                 "of one key are more than the window apart; after such a tick the next request with room is forwarded; every send happens only "
                 "into a queue with room (no blocking transition) and PostObservationRequest fails iff the queue is full without touching it. "
                 "Window (11 min) and ticker (7 min) are extracted each run and pinned; the real loop is compared with the model on every queue "
                 "length and drained item across window-boundary (+-1 ns), fill-level, unknown-chain and random sessions, with the Spec evaluated "
                 "on its own behaviour."),
        "note": ("Trusted: Lean kernel; harness clock/ticker substitution (period cross-checked with the value the loop passes to clock.Ticker),  One verdict is decided by a measured duration: cleanup-stalled-on-full-request-queue (the shorter of two successive full-queue ticks with four retransmissions due must stay below 1.5 s; pinned code 0 ms). "
                 "barrier synchronisation, driver ghost state; Go select/default semantics exercised not modelled; non-blocking of the Go code is "
                 "observed via 10 s timeouts; p2p stub needed to compile cmd/guardiand."),
    },
    "C19": {
        "families": ("explorer",),
        "level": "proof",
        "technique": "Lean 4 invariant and refinement theorems over a hand model of verifyVAA / Push / GuardianSets (atomic and fine-grained interleaving, all schedules), tied by differential execution of the real packages against a fake chain plus the Go race detector for the atomicity assumption",
        "text": ("queued => verified against the set the VAA names (quorum + C06.Valid); the index invariant list[i].index = i is preserved by every "
                 "caller-shaped update; lookup returns the named set and never panics; the dedup key is stored iff the message was queued, so a "
                 "retry after a full queue is ingested; interleaving safety for all schedules of arbitrarily many goroutines when reads are under "
                 "the lock, with the unrepaired code's violation as a proved witness. The real updateGuardianSets / GetGuardianSet / Push / "
                 "verifyVAA run against a fake JSON-RPC chain and are compared with the model; concurrent readers/writers run under -race and a "
                 "race report or a wrong/panicking lookup is a Spec violation."),
        "note": ("Trusted: Lean kernel; harness and driver; ecrecover and Keccak as oracles; scheduling is modelled as interleaving, data-race  Reordered guardian-set answers are produced by a fake node that waits 150 ms for further requests before answering held ones (decides whether a concurrent client is seen, never a verdict on the unchanged tree). "
                 "freedom is observed with -race, not proved; the explorer links the module-cache node version v0.0.0-20240818215257-cb0667c4f6c1 "
                 "(that is the code the harness runs), not /repo/node."),
    },
    "C20": {
        "families": ("spy",),
        "level": "proof",
        "technique": "Lean 4 theorems over a hand model of Publish's fan-out and a blocking-semantics transition system (mutex, 1-slot channels, stalling or leaving readers), incl. a proved reachable-deadlock witness; tied by differential execution with fake gRPC streams and deadline-observed completion",
        "text": ("Delivery half (proved, c20_delivery_set_partial + log exactness in every history): for every set of subscriptions, filters and map "
                 "iteration order a decodable VAA is sent to exactly the matching subscriptions (one copy per matching filter), and progress holds "
                 "whenever subscribers read. Isolation half: FALSE of the pinned code - c20_deadlock_witness / c20_isolation_fails prove a "
                 "reachable state in which a stalled subscriber blocks Publish, registration and removal; the harness reproduces it against the "
                 "real spy server and it is recorded as a known finding (no small safe repair: with bounded queues the publisher must block or "
                 "drop). Every other violation of C20 is still reported."),
        "note": ("Partial: isolation is a known finding, clause publish-blocked-by-stalled-subscriber. Scheduling is modelled; 'blocked' is "
                 "observed as a 4 s (quick) / 12 s (thorough) deadline; vaa.Unmarshal is the decode oracle; p2p.Run is stubbed for the build."),
    },
})
CHECKS.update({
    "C08": {
        "families": ("alphwatch",),
        "level": "proof",
        "technique": "Lean 4 theorems over an executable model of isEventConfirmed/process/handleConfirmed/handleUnconfirmed/reobserve with the node's answers as oracle parameters (all pending sets, oracles, op sequences), tied by differential execution of the real watcher goroutines against a fake Alephium REST node",
        "text": ("forwarded => (event index 0, emitted by the configured contract, sender = token bridge, block canonical in this call, "
                 "height + cl <= current height, mainnet transfer waited max(cl,205) block intervals, attestation = reported token info) is proved "
                 "for the polling path and the re-observation path; orphaned confirmed events are dropped and no fetched event is forwarded twice "
                 "over any sequence of batches and height ticks (partition equality + counting invariant). Each run drives the real handleEvents / "
                 "fetchEvents / handleObsvRequest against a scripted fake node (reorg flags flipping, stalls, API errors at any call, foreign "
                 "contracts in the same tx, second-block events, boundary heights, young blocks) and compares full results and request logs with "
                 "the model; the Spec is also evaluated on the implementation's own output."),
        "note": ("Trusted: Lean kernel; fake node + generators + driver; ToWormholeMessage is an oracle here (C11); heights/timestamps assumed in "
                 "the non-wrapping range (InRange); theorems are relative to the node's answers at that moment; wall clock handled by >=10 min "
                 "margins, exact boundaries via isEventConfirmed directly; differential run samples inputs."),
    },
    "C09": {
        "families": ("alphwatch",),
        "level": "proof",
        "technique": "Lean 4 theorems (induction on fuel / ticks, invariants) over the model of the count-then-pages loop, handleUnconfirmed, process and handleConfirmed with a consistent append-only node as hypothesis, tied by differential execution of the real fetchEvents+handleEvents pipeline against the fake node",
        "text": ("pages partition [fromIndex, nextStart) exactly once for every page size and log growth, with at most count-fromIndex requests per "
                 "tick (and the unrepaired exit test is proved to spin); an event is let through iff well-formed, and a malformed / foreign / "
                 "bad-attestation event changes neither what its neighbours deliver nor what is forwarded, nor ends the watcher; a held "
                 "token-bridge event survives every not-yet-final tick and is forwarded at the first tick at which its block is canonical and "
                 "finality holds, exactly once with C08.at_most_once. Each run exercises GetTokenInfo on every answer shape, page conversion with "
                 "32 kinds of damage, and the whole pipeline with page sizes 1..100, growth between count and page requests, 404/500 answers, "
                 "reorg flags and drain ticks on which liveness is judged; request logs detect spinning."),
        "note": ("Liveness is relative to ticks continuing and to the node answering consistently; the height poller's 'always resend' is checked "
                 "on the implementation only. Trusted as C08."),
    },
    "C10": {
        "families": ("evm",),
        "level": "proof",
        "technique": "Lean 4 theorems over event sequences (induction; heads are arbitrary naturals) on a hand model of the per-head loop, re-observation path and block poller; tied by differential execution of the real Watcher.Run against a scripted JSON-RPC node with barrier synchronisation, plus direct calls",
        "text": ("forwarded => pending log delivered under the contract/topic subscription, receipt status 1 and same block hash at that head, "
                 "height+conf <= head (conf = cl iff waitForConfirmations and not safe); orphaned/failed/re-mined are dropped; a message whose "
                 "receipt stays good is forwarded exactly once at the first processed head >= height+conf for every head increment and never "
                 "again; removal by timeout only at head >= height+conf+60 after every ready head's lookup failed transiently; re-observation "
                 "forwards only contract/topic/status-1/depth-checked logs. Negation witnesses for the unrepaired order are in the Props file."),
        "note": ("Trusted: Lean kernel; go-ethereum rpc/ethclient/abi (clientView observed, not proved); harness+driver; node honours the "
                 "subscription filter (filter checked); NoOverflow hypothesis; liveness relative to node answers and heads being polled; safe "
                 "heads / ErrNoResult not reachable through Run in the tie; scope note: MessageEventsForTransaction panics on a topic-less "
                 "core-contract log / nil receipt / nil block number (modelled, agreed, unreachable with a standard node)."),
    },
    "C18": {
        "families": ("supervisor",),
        "level": "proof",
        "technique": "Lean 4 invariant proof by induction over all interleavings of processor steps and runnable actions (token invariant: one running-or-announced goroutine per dn), tied by a deterministic differential run of the real processor functions plus model acceptance and direct Spec evaluation of traces of the real supervisor under -race",
        "text": ("For every tree, failure kind/time and exit latency: no dn ever has two live instances (c18_mutex, unconditional on the repaired "
                 "code; c18_mutex_partial + c18_mutex_witness show the unrepaired code needs exactly 'a Done runnable has returned before an "
                 "ancestor is rescheduled'); a dead/cancelled node with live parent context and ready subtree is restarted by the next GC with "
                 "bounded back-off; unexpected exits cancel the node, its subtree and its group; Done nodes are left alone; after the kill no "
                 "processor step is enabled and nothing starts again. The model is compared with the real functions after every operation of "
                 "generated sequences, and traces of scripted services under the real supervisor must be accepted by the model while seven Spec "
                 "clauses are evaluated on the traces themselves."),
        "note": ("PARTIAL: Go scheduling, the 1 ms ticker, back-off sleepers and channel hand-offs are modelled as interleaving nondeterminism, "
                 "not verified; data races observed with -race only; panic capture assumed on; trusted: Lean kernel, harness + driver, "
                 "cenkalti/backoff randomisation."),
    },
})
NOT_BUILT = {}
