"""Per-property MANIFEST entries (level, text, trusted base, technique)."""
CHECKS = {
    "C07": {
        "level": "proof",
        "technique": "Lean 4 theorems (omega, all n : Nat) over formulas re-translated from Go/Solidity/Ralph source on every run",
        "text": ("The three quorum formulas are translated from /repo's current sources into Lean definitions on every run and the "
                 "theorems (each equals 2n/3+1, exceeds 2n/3, at most n, two quorums intersect in more than n/3) are re-checked by "
                 "the Lean kernel for every natural n. The translator is validated against the compiled Go function on n=0..255."),
        "note": ("Trusted: Lean kernel; tools/exprtrans.py and the locating regexes; Solidity/Ralph unsigned truncating division; "
                 "contracts are not executed (no solc/VM offline). Go int overflow out of scope (n < 2^59)."),
    },
}
CHECKS.update({
    "C04": {
        "families": ("vaa",),
        "level": "proof",
        "technique": "Lean 4 theorems (layout, injectivity, header independence) over a hand model of serializeBody/Marshal tied by differential run, plus contract offsets re-extracted from Solidity/Ralph source",
        "text": ("serializeBody's big-endian layout, its injectivity on in-range bodies (two messages differing in any field never share a "
                 "signing body), independence of the digest from header and sub-second time, and equality of the bytes the contracts hash "
                 "with the Go signing body are Lean theorems for every VAA value; the contract offset tables are regenerated from "
                 "Messages.sol / governance.ral on every run and compared by decide; the Go serializer is tied to the model by a "
                 "differential run on generated VAAs and single-field mutations."),
        "note": ("Trusted: Lean kernel; Keccak-256 as an oracle (no collision-resistance assumption is used: theorems stop at the signing "
                 "body); checks/c04gen.py extraction; contracts not executed; differential run samples inputs."),
    },
    "C05": {
        "families": ("vaa",),
        "level": "proof",
        "technique": "Lean 4 round-trip theorems (decode∘encode, encode∘decode) over a hand model of Marshal/Unmarshal, tied by differential execution of the real codec",
        "text": ("unmarshal (marshal v) = some v for every in-domain VAA of any payload length, and unmarshal bs = some v -> marshal v = bs "
                 "(nothing accepted is truncated or altered) are proved in Lean; the model is compared with the real Marshal/Unmarshal on "
                 "generated VAAs, every truncation point of small encodings, structured mutations and random bytes on each run, and the "
                 "round-trip Spec is also evaluated directly on the implementation's outputs (that is what finds a failing input)."),
        "note": ("Trusted: Lean kernel; harness + driver comparison; totality (no panic/over-read) of the Go decoder is observed on generated "
                 "inputs, not proved; bytes.Reader/encoding/binary are exercised, not modelled."),
    },
    "C06": {
        "families": ("vaa",),
        "level": "proof",
        "technique": "Lean 4 iff-theorem (verifySignatures = true <-> Valid) for lists of any length with ecrecover as an abstract oracle, tied by differential execution of VerifySignatures",
        "text": ("verify_iff proves, for guardian and signature lists of any length and any recover oracle, that the model of VerifySignatures "
                 "accepts exactly lists whose signatures recover positionally, lie in range, strictly ascend and count no address twice; "
                 "corollaries cover swap, duplicate, re-index, outsider, other digest. The model is compared with the real function on "
                 "list sizes 0..255 with 20+ corruption classes each run, with an independent ecrecover oracle."),
        "note": "Trusted: Lean kernel; secp256k1/Keccak as oracles supplied per case; harness + driver; differential run samples inputs.",
    },
})
CHECKS.update({
    "C13": {
        "families": ("processor",),
        "level": "proof",
        "technique": "Lean 4 invariant proof (induction over all event sequences) that the processor model never reaches a panic site; model tied by differential execution incl. panic outcomes",
        "text": ("The aggregation state machine (handleMessage/Injection/Observation/InboundSignedVAA/Cleanup + set updates) is an executable "
                 "Lean model in which every Go panic site is an explicit result; no_panic proves by induction over arbitrary event lists, with "
                 "an explicit invariant, that no sequence of inputs reaches one. The model is replayed against the real handlers (real badger, "
                 "real signer) on generated scenarios each run; the harness recovers panics, so the model must predict them exactly, and a "
                 "panic of the real code is reported with the scenario as replay."),
        "note": ("Trusted: Lean kernel; assumptions stated in the theorem (signer does not fail; ecrecover succeeds only on 65-byte signatures); "
                 "harness + driver; Go runtime (channels, maps), badger, protobuf; the Run loop's select itself is not modelled (handlers are "
                 "called as Run dispatches them)."),
    },
})
CHECKS.update({
    "C01": {
        "families": ("processor",),
        "level": "proof",
        "technique": "Lean 4 invariant proof over all event interleavings (every broadcast/stored VAA is quorum-signed and verifiable for a learned set), model tied by differential execution of the real processor",
        "text": ("broadcast_good / store_good prove, by induction over arbitrary event sequences with an explicit invariant and an abstract "
                 "crypto oracle, that every SignedVAAWithQuorum the processor model broadcasts and every store entry is the encoding of a VAA "
                 "whose signatures verify (C06.Valid: positional recovery over its own digest, strictly ascending, distinct) for at least the "
                 "quorum of a guardian set delivered by a set update; assembled VAAs use the snapshot set taken at observation time and name "
                 "it; inbound VAAs are checked against the current set and never overwrite. The model is replayed against the real handlers "
                 "on generated scenarios each run and the same Spec is evaluated directly on the bytes the real node published/stored."),
        "note": ("Trusted: Lean kernel; hypotheses visible in the theorems (sets from chain have distinct keys, <= 256; injected VAAs are "
                 "governance VAAs); crypto oracle abstract; harness + driver; differential run samples scenarios; badger read-your-writes."),
    },
})
CHECKS.update({
    "C02": {
        "families": ("processor",),
        "level": "proof",
        "technique": "Lean 4 theorems on the processor model (publish soundness/completeness, at-most-once, invalid-traffic no-op, governance never signed), tied by differential execution incl. all causally valid permutations of small event multisets",
        "text": ("publish_sound (a publish step is the handling of an observation for a locally observed digest, with the own body, not yet "
                 "submitted, >= quorum assembled signatures), publish_complete (an accepted observation that brings the snapshot set's count to "
                 "quorum publishes in that very step, exactly once), submitted_never_republished + reobserve_keeps_submitted, "
                 "invalid_observation_noop, governance_message_never_signed, before_first_set_dropped are proved for every state and input. "
                 "Order-independence across permutations is shown by the tie, not yet as a Lean theorem: the harness replays every causally "
                 "valid permutation of small multisets against fresh processors and the driver evaluates a history-based Spec (published iff "
                 "observed and quorum of accepted distinct members) on the implementation's own traces."),
        "note": ("Trusted: Lean kernel; crypto oracle abstract; harness + driver; the confluence statement over permutations is carried by "
                 "exhaustive small permutation families + random interleavings (labelled as tests), the per-step theorems are unbounded."),
    },
    "C14": {
        "families": ("processor",),
        "level": "proof",
        "technique": "Lean 4 case-analysis theorems on the model of one cleanup iteration (no early discard, retry when due / not before, two-tick expiry, decreasing retry budget), tied by differential execution with simulated elapsed time",
        "text": ("For every entry state, time, store content and queue fill: a pending entry (signed, no quorum, VAA not stored, budget left) "
                 "is never deleted; it is retried exactly when settled, >= 5 min old and >= 5 min since the last retry (re-broadcast + "
                 "re-observation request for the emitter chain and tx), never earlier; entries never observed locally are gone at most two "
                 "ticks after 5 min, submitted ones two ticks after 1 h; the retry budget strictly decreases on every due tick and a spent "
                 "budget deletes. The real handleCleanup is replayed with time simulated by shifting recorded instants across every "
                 "threshold, and the schedule Spec is evaluated on the implementation's own before/after summaries."),
        "note": ("Trusted: Lean kernel; integer-nanosecond time (delta.Hours()/Minutes() float comparisons are exact at the thresholds); "
                 "liveness is relative to ticks continuing; harness time shifting; Go map iteration order abstracted (outputs compared as "
                 "multisets, request-queue slots checked as subset + count)."),
    },
})
CHECKS.update({
    "C15": {
        "families": ("gov",),
        "level": "proof",
        "technique": "Lean 4 theorems (per-kind layout / lossless / injective, spec soundness, no-panic, purity) over a hand model of adminserver.go+payloads.go+governance.go and of the Ralph governance parsers parameterised by offsets re-extracted from the .ral sources; tied by differential execution of the real InjectGovernanceVAA",
        "text": ("For each of the nine governance kinds: accepted => payload = module(32)||action||fields with every field at the slice the Ralph "
                 "parser reads and total length = the parser's size equation (constants of Whv.Gen.C15, regenerated from the contracts each run), "
                 "and the parser recovers every requested value un-wrapped (hence same-payload requests asked for the same values); no "
                 "request/config/history makes the handler panic; the result is a function of config+request (same digests across operators, any "
                 "hash); every injected VAA comes from the configured emitter with an in-range body. The executable Spec proved of the model "
                 "(c15_spec_sound) is evaluated on the implementation's own VAAs for generated requests across and beyond wire ranges, then model "
                 "and implementation are compared on status code, message and VAAs."),
        "note": ("Trusted: Lean kernel; checks/c15.py regex extraction (contracts never executed; Whv.Gov.Ral is a hand model around the extracted "
                 "constants); harness+driver; p2p stub; Keccak oracle; requests proto-round-tripped, gRPC server not started. Non-atomic "
                 "multi-message injection modelled as is."),
    },
    "C11": {
        "families": ("alphutil",),
        "level": "proof",
        "technique": "Lean 4 theorems (exact iff-characterisations of every converter, inversion of ToWormholeMessage, round trips incl. a proved base58 codec) over a hand model of alephium/utils.go tied by differential execution; contract layout re-extracted from the .ral sources and compared by decide",
        "text": ("For every field list: ToWormholeMessage accepts iff there are six fields of the declared types whose numerals/hex denote a 32-byte "
                 "sender, target<2^16, sequence<2^64, 4-byte nonce, level<2^8, and then returns exactly those values (c11_accepted_exact, "
                 "c11_fit_decoded, c11_unfit_rejected; never wrapped: the equality is between integers); the publication carries chain id 255 and "
                 "the block timestamp to the millisecond for every int64; hex<->Byte32, contract id<->address (base58 round trip proved for the "
                 "modelled codec) and the attestation payload against the Ralph encoder's layout are mutually inverse. The Go functions are run on "
                 "boundary sweeps at every field position plus a seeded stream and compared with the model; the Spec is evaluated on the "
                 "implementation's own results."),
        "note": ("Trusted: Lean kernel; harness+driver; regex extraction of the .ral/Go facts; math/big, encoding/hex, time, go-ethereum HexToHash, "
                 "btcutil base58 are modelled and compared, not verified; contracts not executed. ToContractId does not check the 0x03 prefix "
                 "(noted, not flagged: no production caller)."),
    },
})
NOT_BUILT = {}
