"""Per-property MANIFEST entries (level, text, trusted base, technique)."""
CHECKS = {
    "C07": {
        "level": "proof",
        "technique": "Lean 4 theorems (omega, all n : Nat) over formulas re-translated from Go/Solidity/Ralph source on every run",
        "text": ("The three quorum formulas are translated from /repo's current sources into Lean definitions on every run and the "
                 "theorems (each equals 2n/3+1, exceeds 2n/3, at most n, two quorums intersect in more than n/3) are re-checked by "
                 "the Lean kernel for every natural n. The translator is validated against the compiled Go function on n=0..255."),
        "note": ("Trusted: Lean kernel; tools/exprtrans.py and the locating regexes; Solidity/Ralph unsigned truncating division; "
                 "contracts are not executed (no solc/VM offline). Go int overflow out of scope (n < 2^59)."),
    },
}
NOT_BUILT = {}
