"""C09 - every final Alephium token-bridge message is eventually observed."""
from checks import alphwatchcommon


def run(ctx):
    alphwatchcommon.private_work(ctx)
    # the watcher selects token-bridge messages by the index of `event WormholeMessage` among the governance contract's event
    # declarations: a source fact shared with C11 (Whv/Gen/C11.lean, theorem c11_event_index); a contract in which the event has
    # another index makes the watcher reject every message (clause wormhole-message-event-index-mismatch)
    from checks import c11
    c11.contract_deviations(ctx, c11.gen(ctx), pid="C09")
    ctx.prove(families=("alphwatch",))
    alphwatchcommon.run_alphwatch(ctx, "c09")
    ctx.cov["rule"] = (
        "tinfo: GetTokenInfo against every metadata answer shape (API error, 0/1/2/4 results, failed / undecodable / empty / double "
        "returns in each position, wrong types, bad hex, 255/256); hunconf: handleUnconfirmedEvents on pages mixing well-formed, "
        "malformed (32 kinds of damage), foreign-sender and attestation-shaped events; pipe: real fetchEvents + real handleEvents "
        "against the fake node with page sizes 1..100, log growth between the count request and any page request, history before start, "
        "404 on the first count, API errors (every 4th case), reorg flags, then drain ticks on which liveness is judged; plus event-loop "
        "and re-observation cases. distinct_nontrivial = cases where model and implementation agree on every observable (delivered "
        "events, forwarded messages, request log, exit / poller flags) and the Spec holds on the implementation's result. Heights in pipe cases "
        "come from the real fetchHeight (gated chain-info requests); liveness is judged per event (ground truth = the fake node's log and "
        "what the fetch loop delivered), including several messages of one transaction in one block, and on drain ticks that are skipped "
        "because the poller is disabled"
        "; meta: metadata histories - for each of the 28 failing answer shapes of the token contract (HTTP 500/400/404, wrong number "
        "of results, failed / undecodable / empty / double returns per position, wrong types, bad hex, 256) a foreign sender's "
        "attestation-shaped event names token X while X answers like that (met by the polling path, by a re-observation request, "
        "or both; now and then the watcher is restarted in between); then X answers (`wti`), and the token bridge's genuine "
        "attestation of X must be delivered, forwarded by the polling path and by a re-observation request served by the same "
        "Watcher and Client (wellformed-event-dropped, final-message-not-forwarded, reobs-wellformed-event-dropped); rst: restart "
        "scenarios, see C08 - after the last restart everything delivered and final is owed again"
        "; pgf: page-failure histories - one request of a 2..4-page round (page sizes 1, 2; every page position in turn, or the count "
        "poll) fails once, then the node is healthy; a watcher that ends is restarted like the supervisor does, one that carries on stays "
        "bound: every event the node served in a page answer of that round is owed at the drain (final-message-not-forwarded), its next "
        "round may start where the failed one started or stopped; the fake node executes metadata calls per group (a call naming another "
        "group than the last byte of the contract id finds no contract), 40% of the tokens live in groups 0..3; paths / shipped "
        "configurations: see C08"
        "; cdip: count histories that move backwards - a count poll answers lower than an earlier one (by 1, by 2-4, by everything: 0), once, "
        "two or three polls in a row, or again after a healthy poll, the page requests of such a tick reaching the lagging backend too (it has "
        "nothing at or past its own count: no events, nextStart = start, as a full node answers) or the healthy one, events appended meanwhile "
        "or not, the events fetched before already forwarded or still pending; then the count is right again; every log position is owed "
        "exactly once (page-gap-or-overlap, poll-forwarded-twice, final-message-not-forwarded)"
        "; mchg: metadata-change histories (see C08) - after a token contract that was looked up successfully has begun to answer "
        "differently, the token bridge's attestation of what it reports NOW is owed by the polling path and by re-observation requests "
        "of the same Watcher / Client (wellformed-event-dropped, final-message-not-forwarded, reobs-wellformed-event-dropped)")
