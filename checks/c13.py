"""C13 - see DESIGN.md §7 C13; processor family. Whv/Gen/Proc.lean (Run's select arms, cleanup thresholds) is regenerated here."""
from checks import proccommon, procgen


def gen(ctx):
    return procgen.gen(ctx)


def run(ctx):
    facts = gen(ctx)
    ctx.cov["gen_facts"] = facts
    if facts is not None:
        ctx.prove(families=("processor",))
    proccommon.run_processor(ctx, "C13", "")
