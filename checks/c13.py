"""C13 - see DESIGN.md §7 C13; processor family. Whv/Gen/Proc.lean (Run's select arms, cleanup thresholds) is regenerated here."""
from checks import proccommon, procgen


def gen(ctx):
    return procgen.gen(ctx)


def run(ctx):
    facts = gen(ctx)
    ctx.cov["gen_facts"] = facts
    if facts is not None:
        ctx.prove(families=("processor",))
    proccommon.run_processor(ctx, "C13", "")
    shared_set(ctx)


def shared_set(ctx):
    """The guardian-set object is shared between the processor's Run loop and the readers of GuardianSetState (p2p, admin): the real
    NewProcessor + Run against concurrent readers of gst.Get(), under the race detector. A race report, a wrong lookup or a runtime
    fatal error (concurrent map access kills the whole process) is a verdict; see harness/processor/sharedset_verif_test.go."""
    import re
    mapping = dict(proccommon.OVERLAY)
    mapping["node/pkg/processor/zz_verif_shared_test.go"] = "processor/sharedset_verif_test.go"
    ov = ctx.overlay(mapping)
    rc, out = ctx.go_test("node", "./pkg/processor", "^TestVerifSharedSet$", ov, race=True, timeout=900)
    ctx.cov["evaluations"] += 1
    if rc == 0:
        ctx.cov["distinct_nontrivial"] += 1
        return
    race = "WARNING: DATA RACE" in out
    fatal = re.search(r"fatal error: [^\n]*", out)
    wrong = re.search(r"KeyIndex[^\n]*on the shared set|KeyIndex found an address[^\n]*", out)
    if race or fatal or wrong:
        first = out[out.find("WARNING: DATA RACE"):][:2500] if race else (fatal.group(0) if fatal else wrong.group(0))
        funcs = sorted(set(re.findall(r"^\s+(github\.com/alephium/wormhole-fork/node/pkg/[\w/\.\(\)\*]+)\(\)", out, re.M)))[:12]
        ctx.spec_violations.append({
            "key": "shared-guardian-set-not-read-only",
            "what": ("the guardian-set object shared by the processor's Run loop and the readers of GuardianSetState is written while it is "
                     "read: %s" % ("race detector report" if race else first)),
            "replay": {"test": "TestVerifSharedSet (go test -race, real NewProcessor + Run, 3 concurrent readers of gst.Get())",
                       "report": first, "functions": funcs,
                       "how_to_rerun": "./check C13 (the schedule is not replayable; the race detector reports the two accesses)"}})
    else:
        ctx.broken.append(("tie", "go-harness:shared-set", out[-800:]))


def warm(ctx):
    """setup: compile package processor + harness with the race detector once (the quick tier then links from the build cache)"""
    mapping = dict(proccommon.OVERLAY)
    mapping["node/pkg/processor/zz_verif_shared_test.go"] = "processor/sharedset_verif_test.go"
    ov = ctx.overlay(mapping)
    if ov:
        ctx.go_test("node", "./pkg/processor", "^$", ov, race=True)
