"""C13 - see DESIGN.md §7 C13; processor family."""
from checks import proccommon


def run(ctx):
    ctx.prove(families=("processor",))
    proccommon.run_processor(ctx, "C13", "")
