"""Shared runner for the processor family (C01, C02, C13, C14 and the observation gate of C03)."""
import os
import vlib

OVERLAY = {"node/pkg/processor/zz_verif_proc_test.go": "processor/proc_verif_test.go",
           "node/pkg/notify/discord/zz_verif_export.go": "discord/verif_export.go",
           "node/pkg/db/zz_verif_export.go": "db/verif_export.go"}

CLAUSES = {
    "C13": ("panic-",),
    "C01": ("published-vaa-", "stored-", "published-names-other-set"),   # incl. stored-vaa-not-served
    "C04": ("signed-digest-differs-from-message",),
    "C07": ("complete-vaa-rejected-on-chain",),
    "C06": ("stored-vaa-not-quorum-verifiable",),
    "C02": ("signed-digest-differs-from-message", "signed-under-foreign-address", "published-without-local-observation", "published-twice", "not-published-at-quorum",
            "published-vaa-not-quorum-verifiable", "own-observation-not-looped-back", "local-observation-not-signed", "published-vaa-not-stored", "rerun-lost-aggregation-state",
            "governance-emitter-signed", "signed-without-guardian-set"),
    "C14": ("pending-entry-discarded-early", "no-retry-when-due", "retry-too-early", "unobserved-entry-not-expired",
            "completed-entry-not-expired", "unexpected-reobservation-request", "retry-budget-exceeded",
            "no-reobservation-request-when-due", "cleanup-blocked-on-full-request-queue", "retry-budget-refilled", "rerun-lost-aggregation-state"),
    "C17": ("cleanup-blocked-on-full-request-queue", "cleanup-stalled-on-full-request-queue"),
    "C03": ("invalid-observation-changed-state",),
}


def run_processor(ctx, pid, note):
    ov = ctx.overlay(OVERLAY)
    # scale families (thousands of messages / entries) run only for the properties whose statements they bear on
    rc, out = ctx.go_test("node", "./pkg/processor", "^TestVerifProcessor$", ov,
                          env={"VERIF_PROC_SCALE": pid if pid in ("C02", "C14") else ""})
    cases = os.path.join(ctx.work, "processor.cases")
    if rc != 0 or not os.path.exists(cases):
        ctx.broken.append(("tie", "go-harness", out[-800:]))
        return
    mine = CLAUSES[pid]
    before = len(ctx.spec_violations)
    n_ok, stats = ctx.judge("processor", cases, classify=lambda clause, case, verdict: clause)
    # a Spec clause that belongs to another property is that property's business (its own check reports it)
    kept, foreign = [], 0
    for v in ctx.spec_violations[before:]:
        if any(v["key"].startswith(p) for p in mine):
            kept.append(v)
        else:
            foreign += 1
    ctx.spec_violations[before:] = kept
    if foreign:
        ctx.notes.append("%d Spec verdicts for clauses of other properties were left to their own checks" % foreign)
    dist = {}
    dp = os.path.join(ctx.work, "processor.dist")
    if os.path.exists(dp):
        for ln in open(dp):
            k, v = ln.split()
            dist[k] = int(v)
    nlines = sum(dist.values())
    ctx.cov["evaluations"] += nlines
    ctx.cov["distinct_nontrivial"] += n_ok
    ctx.cov["generator_distribution"] = dist
    samples = []
    with open(cases) as f:
        for i, ln in enumerate(f):
            if i in (1, 2, 3, 12, 40):
                samples.append(ln.strip()[:500])
    ctx.cov["samples"] += samples
    ctx.cov["rule"] = ("random scenarios on a real Processor (real badger store, real ECDSA signer): guardian sets of 1..19 keys, own key inside or "
                       "outside the set, local observations (payloads 0..1500 bytes, boundary timestamps), valid observations in any order, "
                       "observations parked before the local one, delayed own loopback, 11 kinds of invalid observations, inbound signed VAAs "
                       "(valid, under-signed, previous set, wrong order, corrupted, truncated), set updates, injections, governance-emitter "
                       "messages, re-observations, cleanup ticks with simulated elapsed time around every threshold, plus all causally valid "
                       "permutations of small event multisets; one line per handler call; distinct_nontrivial = lines on which model and "
                       "implementation agreed on outputs, aggregation summary and store dump and every Spec clause held. " + note)
    ctx.cov["trusted_base"] += [
        "harness/processor/proc_verif_test.go (scenario generator, time shifting, canonical summaries) and Whv/Driver/Processor.lean (comparison + Spec evaluation)",
        "oracles supplied per line, computed by the harness with go-ethereum: Keccak digest of the VAA body, the node's own signature (deterministic RFC6979), ecrecover per (digest, signature)",
        "badger: read-your-writes for a single key; Go channels/maps semantics; protobuf marshalling of gossip messages",
    ]
    if not os.environ.get("VERIF_KEEP"):
        os.remove(cases)
