"""C11 - Alephium event fields map faithfully to the attested message.

Proof: Whv/Props/C11.lean over the hand model Whv/Model/AlphUtil.lean (utils.go branch by branch).
Gen:   the WormholeMessage event declaration / emit order (governance.ral), the attestation payload encoder
       (token_bridge.ral attestToken), the handler's parse offsets (attest_token_handler.ral) and the Go constants
       are re-extracted into Whv/Gen/C11.lean on every run and compared with the model's layout by `decide`.
Tie:   harness/alephium/c11_verif_test.go runs the real converters on boundary sweeps + a seeded stream; the Lean
       driver (family alphutil) replays the model and evaluates the Spec on the implementation's own results.
"""
import os, re
import vlib

GOV = "alephium/contracts/governance.ral"
TB = "alephium/contracts/token_bridge/token_bridge.ral"
TBC = "alephium/contracts/token_bridge/token_bridge_constants.ral"
ATH = "alephium/contracts/token_bridge/attest_token_handler.ral"
GO = "node/pkg/alephium/utils.go"
VAAGO = "node/pkg/vaa/structs.go"

OVERLAY = {"node/pkg/alephium/zz_c11_verif_test.go": "alephium/c11_verif_test.go"}


def _bytes(s):
    return "[" + ", ".join(str(b) for b in s.encode()) + "]"


def extract(ctx):
    f = {}
    gov = vlib.read_contract(GOV)
    m = re.search(r"event\s+WormholeMessage\s*\(([^)]*)\)", gov)
    if not m:
        ctx.gen_fail("C11", "event WormholeMessage(...) not found in " + GOV); return None
    ev = []
    for part in m.group(1).split(","):
        mm = re.match(r"\s*(\w+)\s*:\s*(\w+)\s*$", part)
        if not mm:
            ctx.gen_fail("C11", "unparsable event field %r" % part); return None
        ev.append((mm.group(1), mm.group(2)))
    f["event"] = ev
    # the watcher selects the event by its index among the contract's event declarations
    decl = re.findall(r"^\s*event\s+(\w+)\s*\(", gov, re.M)
    import glob
    croot = os.path.join(vlib.REPO, "alephium", "contracts")
    f["publishers"] = sorted(os.path.relpath(q, croot) for q in glob.glob(os.path.join(croot, "**", "*.ral"), recursive=True)
                             if os.path.relpath(q, croot) != "governance.ral" and not os.path.relpath(q, croot).startswith("tests")
                             and re.search(r"\bpublishWormholeMessage\s*(\{[^}]*\})?\s*\(", re.sub(r"//[^\n]*", "", vlib.read(q))))
    f["eventOrder"] = decl
    f["eventIndex"] = decl.index("WormholeMessage") if "WormholeMessage" in decl else len(decl)
    m = re.search(r"emit\s+WormholeMessage\s*\(([^\n]*)\)\s*\n", gov)
    if not m:
        ctx.gen_fail("C11", "emit WormholeMessage(...) not found in " + GOV); return None
    args = [a.strip() for a in m.group(1).split(",")]
    # the emitted arguments are the function's parameters in the event's field order (sender = callerContractId!())
    f["emitInOrder"] = (len(args) == len(ev) and args[0] == "callerContractId!()" and args[1:] == [n for n, _ in ev[1:]])
    m = re.search(r"pub fn publishWormholeMessage\s*\(([^)]*)\)", gov)
    params = dict(re.findall(r"(\w+)\s*:\s*(\w+)", m.group(1))) if m else {}
    f["emitTyped"] = bool(m) and all(params.get(n) == t for n, t in ev[1:])

    tb = vlib.read_contract(TB)
    m = re.search(r"pub fn attestToken\s*\((.*?)\)\s*->\s*\(\)\s*\{(.*?)\n    \}", tb, re.S)
    if not m:
        ctx.gen_fail("C11", "attestToken not found in " + TB); return None
    body = m.group(2)
    mp = re.search(r"let payload\s*=\s*(.*?)\n\s*\n", body, re.S)
    if not mp:
        ctx.gen_fail("C11", "`let payload = ...` not found in attestToken"); return None
    comps = [c.strip() for c in mp.group(1).replace("\n", " ").split("++")]
    # a component that is itself a local `let x = a ++ b ...` (one line) is expanded, so that building a part of the payload in a
    # helper variable first reads the same
    env = {mm.group(1): mm.group(2) for mm in re.finditer(r"let\s+(\w+)\s*=\s*([^\n]*?\+\+[^\n]*?)\s*\n", body) if not mm.group(2).rstrip().endswith("++") and mm.group(1) != "payload"}
    for _ in range(4):
        comps = [x.strip() for c in comps for x in (env[c].split("++") if c in env else [c])]
    tbc = vlib.read_contract(TBC)
    enc = []
    for c in comps:
        mm = re.match(r"u256To(\d+)Byte!\((\w+)\)$", c)
        if mm:
            enc.append((mm.group(2), int(mm.group(1)), "u256")); continue
        mm = re.match(r"PayloadId\.(\w+)$", c)
        if mm:
            mc = re.search(r"enum PayloadId\s*\{(.*?)\}", tbc, re.S)
            mv = re.search(r"\b%s\s*=\s*#([0-9a-fA-F]+)" % mm.group(1), mc.group(1)) if mc else None
            if not mv:
                ctx.gen_fail("C11", "PayloadId.%s not found in %s" % (mm.group(1), TBC)); return None
            f["attestPayloadId"] = int(mv.group(1), 16)
            enc.append(("payloadId", len(mv.group(1)) // 2, "const")); continue
        mm = re.match(r"(\w+)$", c)
        if mm:
            ms = re.search(r"assert!\(size!\(%s\)\s*==\s*(\d+)\s*," % mm.group(1), body)
            if not ms:
                ctx.gen_fail("C11", "no size assertion for payload component %s in attestToken" % c); return None
            enc.append((mm.group(1), int(ms.group(1)), "bytes")); continue
        ctx.gen_fail("C11", "unknown payload component %r in attestToken" % c); return None
    f["attestEncoder"] = enc
    f["attestTargetZero"] = bool(re.search(r"governance\.publishWormholeMessage\{[^}]*\}\(payer,\s*0,\s*nextSendSequence\(\),\s*nonce,\s*payload,\s*consistencyLevel\)", body))
    # transferToken: the consistency level is bounded below only
    mt = re.search(r"pub fn transferToken\s*\((.*?)\)\s*->\s*\(\)\s*\{(.*?)\n    \}", tb, re.S)
    f["clLowerBoundOnly"] = bool(mt) and bool(re.search(r"assert!\(consistencyLevel\s*>=\s*minimalConsistencyLevel", mt.group(2))) and \
        not re.search(r"consistencyLevel\s*<=?\s*\d", mt.group(2))

    ath = vlib.read_contract(ATH)
    m = re.search(r"fn parseAttestToken\(.*?\n  \}", ath, re.S)
    if not m:
        ctx.gen_fail("C11", "parseAttestToken not found in " + ATH); return None
    fn = m.group(0)
    sl = []
    for name in ("tokenId", "tokenChainId", "decimals", "symbol", "name"):
        mm = re.search(r"let %s\s*=\s*(?:u256From\dByte!\()?byteVecSlice!\(payload,\s*(\d+),\s*(\d+)\)" % name, fn)
        if not mm:
            ctx.gen_fail("C11", "slice for %s not found in the handler's parseAttestToken" % name); return None
        sl.append((name, int(mm.group(1)), int(mm.group(2))))
    f["handlerSlices"] = sl
    mm = re.search(r"assert!\(size!\(payload\)\s*==\s*(\d+)", fn)
    if not mm:
        ctx.gen_fail("C11", "payload size assertion not found in the handler's parseAttestToken"); return None
    f["handlerSize"] = int(mm.group(1))

    go = vlib.read(os.path.join(vlib.REPO, GO))
    for name in ("WormholeMessageFieldSize", "TransferTokenPayloadId", "AttestTokenPayloadId", "AttestTokenPayloadLength", "HashLength", "WormholeMessageEventIndex"):
        mm = re.search(r"^const %s\s*=\s*(\d+)\s*$" % name, go, re.M)
        if not mm:
            ctx.gen_fail("C11", "const %s not found in %s" % (name, GO)); return None
        f["go" + name] = int(mm.group(1))
    goslices = re.findall(r"payload\[(\d+):(\d+)\]", go)
    godec = re.search(r"decimals\s*:=\s*payload\[(\d+)\]", go)
    if len(goslices) != 4 or not godec:
        ctx.gen_fail("C11", "parseAttestToken slices not found in " + GO); return None
    f["goSlices"] = [(int(a), int(b)) for a, b in goslices] + [(int(godec.group(1)), int(godec.group(1)) + 1)]
    vg = vlib.read(os.path.join(vlib.REPO, VAAGO))
    mm = re.search(r"ChainIDAlephium\s+ChainID\s*=\s*(\d+)", vg)
    if not mm:
        ctx.gen_fail("C11", "ChainIDAlephium not found in " + VAAGO); return None
    f["goChainIDAlephium"] = int(mm.group(1))
    return f


def gen(ctx):
    f = extract(ctx)
    if f is None:
        return None
    b = lambda x: "true" if x else "false"
    src = "namespace Whv.Gen.C11\n\n"
    src += "/-- governance.ral `event WormholeMessage(...)`: field names -/\ndef eventFieldNames : List String := [%s]\n" % ", ".join('"%s"' % n for n, _ in f["event"])
    src += "/-- ... and field types, as the ASCII bytes of the type name the node reports in `type` -/\ndef eventFieldTypes : List (List UInt8) := [%s]\n" % ", ".join(_bytes(t) for _, t in f["event"])
    src += "/-- `emit WormholeMessage(callerContractId!(), <parameters in the event's order>)`, parameter types equal the event's -/\n"
    src += "def emitInOrder : Bool := %s\ndef emitTyped : Bool := %s\n\n" % (b(f["emitInOrder"]), b(f["emitTyped"]))
    src += "/-- token_bridge.ral attestToken: `let payload = c1 ++ c2 ++ ...` as (component, width in bytes) -/\n"
    src += "def attestEncoder : List (String × Nat) := [%s]\n" % ", ".join('("%s", %d)' % (n, w) for n, w, _ in f["attestEncoder"])
    src += "def attestPayloadId : Nat := %d\n" % f["attestPayloadId"]
    src += "/-- attestations are published with target chain 0 -/\ndef attestTargetZero : Bool := %s\n" % b(f["attestTargetZero"])
    src += "/-- transferToken only requires `consistencyLevel >= minimalConsistencyLevel` (no upper bound: 255 is legitimate) -/\ndef clLowerBoundOnly : Bool := %s\n\n" % b(f["clLowerBoundOnly"])
    src += "/-- attest_token_handler.ral parseAttestToken: (field, from, to) -/\n"
    src += "def handlerSlices : List (String × Nat × Nat) := [%s]\n" % ", ".join('("%s", %d, %d)' % x for x in f["handlerSlices"])
    src += "def handlerSize : Nat := %d\n\n" % f["handlerSize"]
    src += "/-- utils.go constants and parseAttestToken slices (tokenId, chain, symbol, name, decimals) -/\n"
    for name in ("WormholeMessageFieldSize", "TransferTokenPayloadId", "AttestTokenPayloadId", "AttestTokenPayloadLength", "HashLength", "WormholeMessageEventIndex"):
        src += "def go%s : Nat := %d\n" % (name, f["go" + name])
    src += "/-- contract sources (other than governance.ral itself) that call governance.publishWormholeMessage: the event's sender is the caller -/\ndef wormholePublishers : List String := [%s]\n" % ", ".join('"%s"' % x for x in f["publishers"])
    src += "/-- position of `event WormholeMessage` among the event declarations of governance.ral (= the event index a node reports) -/\ndef eventIndex : Nat := %d\n" % f["eventIndex"]
    src += "def goSlices : List (Nat × Nat) := [%s]\n" % ", ".join("(%d, %d)" % x for x in f["goSlices"])
    src += "def goChainIDAlephium : Nat := %d\n" % f["goChainIDAlephium"]
    src += "\nend Whv.Gen.C11\n"
    ctx.gen("C11", src)
    return f


def classify(clause, case, verdict):
    return clause


def contract_deviations(ctx, f, pid="C11"):
    """When the contract sources deviate from what the node decodes, name the deviation as the failing input (the Gen-based theorems
    break as well). Used by C11 and - for the event index - by C09."""
    if f is None:
        return
    if f["eventIndex"] != f["goWormholeMessageEventIndex"]:
        ctx.spec_violations.append({
            "key": "wormhole-message-event-index-mismatch",
            "what": ("governance.ral declares its events in the order %s: WormholeMessage has event index %d, the watcher selects index %d "
                     "(WormholeMessageEventIndex): every token-bridge message is rejected on both paths" % (f["eventOrder"], f["eventIndex"], f["goWormholeMessageEventIndex"])),
            "replay": {"eventOrder": f["eventOrder"], "contractIndex": f["eventIndex"], "goIndex": f["goWormholeMessageEventIndex"],
                       "failing_input": "any message published through governance.publishWormholeMessage after this contract version is deployed"}})
    # the sender recorded in the event is callerContractId!(): the contract that calls governance.publishWormholeMessage. The watcher
    # accepts events whose sender is the TokenBridge contract, so the only caller may be token_bridge.ral
    callers = f["publishers"]
    if callers != ["token_bridge/token_bridge.ral"]:
        ctx.spec_violations.append({
            "key": "wormhole-message-published-by-other-contract",
            "what": ("governance.publishWormholeMessage records callerContractId!() as the sender; it is called from %s, the watcher accepts only "
                     "events whose sender is the TokenBridge contract (token_bridge/token_bridge.ral): messages published from the other "
                     "contract(s) are dropped as foreign" % callers),
            "replay": {"callers": callers, "expected": ["token_bridge/token_bridge.ral"],
                       "failing_input": "any message published through a caller other than the TokenBridge contract (e.g. a transferToken after the change)"}})
    if pid != "C11":
        return
    names = [n for n, _, _ in f["attestEncoder"]]
    want = ["payloadId", "localTokenId", "localChainId", "decimals", "symbol", "name"]
    if names != want and sorted(names) == sorted(want):
        ctx.spec_violations.append({
            "key": "contract-attestation-field-order",
            "what": "token_bridge.ral attestToken builds its payload as %s, the node (and attest_token_handler.ral) decode %s: a token whose fields differ comes out with them exchanged" % (names, want),
            "replay": {"contractOrder": names, "decodedOrder": want,
                       "failing_input": "attestToken for a token whose symbol differs from its name (e.g. symbol 'USDT', name 'Tether USD')"}})


def run(ctx):
    contract_deviations(ctx, gen(ctx))
    ctx.prove(families=("alphutil", "alphwatch"))
    ov = ctx.overlay(OVERLAY, p2p_stub=True)
    if ov is None:
        return
    rc, out = ctx.go_test("node", "./pkg/alephium", "^TestVerifAlphUtil$", ov)
    src = os.path.join(ctx.work, "alphutil.cases")
    if rc != 0 or not os.path.exists(src):
        ctx.broken.append(("tie", "go-harness", out[-800:]))
        return
    kinds = {}
    samples = []
    total = 0
    with open(src) as fh:
        for ln in fh:
            parts = ln.split(" ", 2)
            if len(parts) < 2:
                continue
            total += 1
            k = parts[1].rstrip("0123456789")
            kinds[k] = kinds.get(k, 0) + 1
            if kinds[k] == 1 and len(samples) < 10 and k in ("cv-u8-", "msg-cl-", "msg-good-", "msg-json-", "pub-", "att-rt-", "hex-tob32-", "cid-toid-", "cid-odd-", "b58-enc-"):
                samples.append(ln.strip()[:400])
    n_ok, stats = ctx.judge("alphutil", src, classify)
    ctx.cov["evaluations"] += total
    ctx.cov["distinct_nontrivial"] += n_ok
    ctx.cov["samples"] += samples
    ctx.cov["generator_distribution"] = kinds
    ctx.cov["rule"] = (
        "cv: every boundary integer (2^k-2..2^k+2 for k in 0,7,8,15,16,31,32,63,64,65,128,255,256, their negatives, 10^100) and ~75 "
        "non-canonical numerals ('', '+5', '-0', ' 5', '0x10', '1e3', '1_0', '007', Arabic-Indic / full-width digits, NUL, invalid UTF-8 ...) "
        "through toUint8/16/64, toU256, toI256 with right / wrong type tags and nil or foreign variants; hex strings of every interesting "
        "length / case / bad-character position through toByteVec, toByte32; msg: the same sweeps at every one of the six positions of an "
        "otherwise valid event, tags and variants at every position, field counts 0..9, drops, duplicates, all 15 transpositions, events "
        "decoded from JSON by the SDK, plus a seeded stream of valid events (1/3 with one or two mutations), each accepted message "
        "pushed through toMessagePublication with boundary / negative / random header timestamps, IsAttestTokenVAA, IsTransferTokenVAA, "
        "GetID; pub: directly constructed messages with odd tx ids; att: payloads built per the contract layout with left/right/middle "
        "NUL padding, every token chain boundary, every single-byte change of a valid payload, lengths around 100, random bytes; hex / cid / "
        "b58: round trips both ways, damaged addresses, other prefix bytes and lengths, non-ASCII (base58 panic path). "
        "distinct_nontrivial = cases on which model and implementation agreed and the Spec held on the implementation's result")
    ctx.cov["trusted_base"] += [
        "harness/alephium/c11_verif_test.go (generator, error-kind classification, canonical rendering) and Whv/Driver/AlphUtil.lean (comparison)",
        "checks/c11.py extraction of the event declaration, attestToken payload expression, handler slices and Go constants (regexes)",
        "Go runtime / libraries exercised, not verified: math/big SetString, encoding/hex, time.Unix, go-ethereum HexToHash, btcutil base58 "
        "(each has a Lean model that is compared on every run)",
        "Ralph semantics assumed: `++` concatenates, u256ToNByte! is N-byte big-endian and aborts on overflow, the node renders U256 in "
        "canonical decimal and ByteVec in hex; contracts are not executed",
    ]
    ctx.assumptions += [
        "base58: c11_contract_id_roundtrip takes any codec with dec (enc b) = b; for the Lean model of btcutil's base58 that is proved "
        "(c11_base58_roundtrip); that the library behaves like its model is observed by the tie (b58 / cid cases), not proved",
        "toMessagePublication is called with a non-nil header (its callers dereference the header before)",
    ]
    os.remove(src)
    # the watcher's two delivery paths hand over exactly the message the event converts to: the real handleEvents /
    # handleObsvRequest / handleConfirmedEvents against the fake node (family alphwatch); C11 reports the clauses
    # forwarded-altered, poll-forwarded-altered, reobs-forwarded-altered (alphwatchcommon.EXTRA_OWNERS) and any
    # model/implementation difference in what was forwarded, everything else there belongs to C08 / C09
    from checks import alphwatchcommon
    keep = {k: ctx.cov.get(k) for k in ("rule", "generator_distribution")}
    work = ctx.work
    alphwatchcommon.run_alphwatch(ctx, "c08")
    ctx.cov["rule"] = keep["rule"] + (" | delivery paths: the C08 generators (poll / pipe / reobs / paths, hconf batches of several blocks handed over out of "
                                      "sequence order with foreign senders in between) - every forwarded message compared field by field with the event it was "
                                      "made from and with its own block's header (clauses forwarded-altered, poll-forwarded-altered, reobs-forwarded-altered, "
                                      "shared with C04); every pending event is made by the watcher's own toUnconfirmedEvent (fetch loop, handleUnconfirmedEvents "
                                      "for handed-in batches, hconf), under isMainnet either way and the shipped configurations, and compared with the served "
                                      "event's own fields (clause delivered-altered)")
    ctx.cov["generator_distribution"] = {"alphutil": keep["generator_distribution"], "alphwatch": ctx.cov.get("generator_distribution")}
