"""C20 - spy subscribers receive exactly the VAAs matching their filters, independently."""
import os

OVERLAY = {"node/cmd/spy/zz_verif_spy_test.go": "spy/spy_verif_test.go"}


def classify(clause, case, verdict):
    # the key a KNOWN_FINDINGS.json entry must carry; every other clause of C20 keeps being reported
    return clause


def run(ctx):
    ctx.prove(families=("spy",))
    ov = ctx.overlay(OVERLAY, p2p_stub=True)
    if ov is None:
        return
    rc, out = ctx.go_test("node", "./cmd/spy", "^TestVerifSpy$", ov, timeout=300 if ctx.tier == "quick" else 3000)
    cases = os.path.join(ctx.work, "spy.cases")
    if rc != 0 or not os.path.exists(cases):
        ctx.broken.append(("tie", "go-harness", out[-800:]))
        return
    kinds = {}
    samples = []
    with open(cases) as f:
        for ln in f:
            op = ln.split(" ", 1)[0]
            kinds[op] = kinds.get(op, 0) + 1
            if kinds[op] <= 2 and len(samples) < 10:
                samples.append(ln.strip()[:400])
    n_ok, stats = ctx.judge("spy", cases, classify)
    ctx.cov["evaluations"] += sum(kinds.values())
    ctx.cov["distinct_nontrivial"] += n_ok
    ctx.cov["samples"] += samples
    ctx.cov["generator_distribution"] = kinds
    ctx.cov["rule"] = (
        "delivery sequences (quick 60, thorough 1500) on the real spyServer with fake gRPC server streams: 0-4 initial subscriptions then 6-13 "
        "steps of publish / subscribe / leave; filters: none, one, 2-4 distinct, the same twice, right address on another chain + right chain "
        "with another address, upper-case hex, not hex, 31/33/0 bytes, an entry of unknown type, a bad address after a good one; VAAs: emitters "
        "from a pool of 4 (two sharing the chain, two sharing the address), an emitter nobody filters for, undecodable bytes (wrong version, "
        "truncated, empty), a signed VAA with an EMPTY payload (Marshal output that Unmarshal rejects; 1 in 8); one scale sequence per run "
        "that starts with 520-719 live subscriptions and three publishes; VAAs with 19/20/21/40/255 signatures (1 in 5); a message published "
        "before published again (identical bytes, or the same body with another signature list / the next set index; 1 in 8); the same filter "
        "two to four times in one request; for VAAs the harness built itself the emitter it was built with (em=) decides the Spec even when the "
        "decoder rejects the bytes; leaving by context cancellation and by Send error; after every Publish a sentinel is pushed through every live "
        "subscription so the per-subscriber counts are exact. isolation scenarios (3, run side by side, each on its own server): subscriber A's "
        "client stops reading after the first VAA (unfiltered / filtered A) or stops reading and later disconnects, while up to 6 VAAs are "
        "published one after the other; as soon as a Publish has not returned after 300 ms a new registration (C), the removal of another "
        "subscriber (D) and delivery of that VAA to a reading subscriber (B) are watched too, all against one deadline (quick 4 s, thorough "
        "12 s; on an implementation with isolation everything completes in microseconds); the number of publishes that went through before "
        "one blocked ties the model's channel capacity (spycap). slow-subscriber scenarios (one per two delivery sequences): A's first Send "
        "waits on a gate while 2-6 further VAAs of the SAME encoded length (distinct payloads, partly from an emitter A does not filter for) "
        "are published - one of them sitting in A's channel - then the gate opens; the exact byte strings A and B received are compared "
        "with the published ones (clauses delivered-bytes-altered / non-matching-subscriber-served / matching-subscriber-not-served). "
        "departing-subscriber scenarios (2): a subscriber that has read everything disconnects; the fake stream holds its handler at the "
        "Context() call after it woke on ctx.Done(), one matching VAA is published in that window, then the handler is let go "
        "(clause departing-subscriber-blocks-publish: nobody is stalled there). "
        "every stall scenario also records whether, once the stalled client reads again or has disconnected, the held-up Publish and all handlers "
        "finish within the deadline (clause not-recovered-after-subscriber-resumes - weaker than the statement, met by the pinned code). "
        "distinct_nontrivial = lines on which the implementation agreed with the model and satisfied the Spec")
    ctx.cov["trusted_base"] += [
        "harness/spy/spy_verif_test.go (fake grpc.ServerStream, sentinel barrier, deadlines) and Whv/Driver/Spy.lean (comparison, Spec evaluation)",
        "vaa.Unmarshal is the oracle for 'decodable' and for the emitter of a VAA (C05 is about the decoder)",
        "Go scheduling / channel / mutex semantics are modelled as a transition system with blocking = not enabled (Whv.Spy.step); 'blocked' in the "
        "real code is observed as 'not completed within the deadline'",
        "p2p.Run's body is stubbed for the build (quic-go); the spy's Publish/SubscribeSignedVAA do not depend on it",
    ]
    ctx.assumptions += [
        "filter chain ids are within uint16 (vaa.ChainID(...) truncates the request's int32 enum: 65537 would match chain 1)",
        "delivery 'exactly once' is relative to distinct filters: the code sends one copy per matching filter (c20_copies_le_one)",
        "for subscribers WITH filters the Spec speaks only when vaa.Unmarshal yields an emitter; for subscribers without filters the clause "
        "unfiltered-subscriber-not-served is claimed for every Marshal output (here: empty-payload VAAs, which Unmarshal rejects), not for arbitrary garbage",
    ]
