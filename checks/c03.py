"""C03 - gossip not signed by a current guardian cannot change node state (p2p verifiers, heartbeat table, domain separation).

gen:  the two domain prefixes, the two length-floor tests, MaxNodesPerGuardian and MaxStateAge are extracted from
      node/pkg/p2p/p2p.go and node/pkg/common/guardianset.go into lean/Whv/Gen/C03.lean on every run; the call sites in
      p2p.Run (whose body the p2p stub removes, so it cannot be executed here) are checked textually: a gossiped request is
      handed to the dispatcher only in the no-error branch, heartbeats are verified against gst.Get() with the node's
      disableHeartbeatVerify flag, whose default is false.
prove: Whv.Props.C03 + drv_gossip.
tie:  (1) the REAL processSignedHeartbeat / processSignedObservationRequest on valid messages and every single mutation,
      against a real GuardianSetState (package p2p under the stub overlay), (2) the REAL SetHeartbeat / Cleanup / GetAll
      on random operation sequences around the cap (package common).
The observation gate of processor.handleObservation (third part of the statement) is owned by the processor model.
"""
import json
import os
import re

import exprtrans
import vlib
from checks import proccommon

P2P = "node/pkg/p2p/p2p.go"
GSET = "node/pkg/common/guardianset.go"
NODE = "node/cmd/guardiand/node.go"
UNITS = {"Nanosecond": 1, "Microsecond": 10 ** 3, "Millisecond": 10 ** 6, "Second": 10 ** 9, "Minute": 60 * 10 ** 9,
         "Hour": 3600 * 10 ** 9}


def _strip_comments(src):
    return re.sub(r"//[^\n]*", "", src)


def _func_body(code, name):
    m = re.search(r"^func\s+%s\s*\(" % re.escape(name), code, re.M)
    if not m:
        return None
    n = re.search(r"^func\s", code[m.end():], re.M)
    return code[m.start(): m.end() + n.start()] if n else code[m.start():]


def _go_string(lit):
    """Go interpreted string literal (without the quotes) -> bytes; only the escapes JSON shares with Go."""
    return json.loads('"' + lit + '"').encode("utf-8")


def _floor(ctx, code, func, prefix_var, body_expr, what):
    """`if <lhs> <op> <rhs> {` mentioning len(prefix_var) inside func, followed by the `too short` return."""
    body = _func_body(code, func)
    if body is None:
        ctx.gen_fail("C03", "func %s not found in %s" % (func, P2P))
        return None
    m = re.findall(r"if\s+([^{\n]*len\(\s*%s\s*\)[^{\n]*?)\s*\{\s*return\s+nil\s*,\s*[^\n]*too short" % re.escape(prefix_var), body)
    if len(m) != 1:
        ctx.gen_fail("C03", "%s: expected exactly one `if ... len(%s) ... { return nil, ...too short...` in %s, found %d" % (what, prefix_var, func, len(m)))
        return None
    cond = m[0].strip()
    mm = re.match(r"^(.*?)(<=|>=|==|!=|<|>)(.*)$", cond)
    if not mm:
        ctx.gen_fail("C03", "%s: cannot split the floor condition %r" % (what, cond))
        return None
    lhs, op, rhs = mm.group(1), mm.group(2), mm.group(3)

    def norm(e):
        e = re.sub(r"len\(\s*%s\s*\)" % re.escape(prefix_var), " p ", e)
        e = re.sub(r"len\(\s*%s\s*\)" % re.escape(body_expr), " n ", e)
        return e
    try:
        l = exprtrans.translate(norm(lhs), {"p": "p", "n": "n"})
        r = exprtrans.translate(norm(rhs), {"p": "p", "n": "n"})
    except exprtrans.TranslateError as e:
        ctx.gen_fail("C03", "%s: cannot translate floor condition %r: %s" % (what, cond, e))
        return None
    lean_op = {"<": "<", "<=": "≤", ">": ">", ">=": "≥", "==": "=", "!=": "≠"}[op]
    return {"expr": cond, "lean": "decide (%s %s %s)" % (l, lean_op, r)}


def gen(ctx):
    facts = {}
    p2p = _strip_comments(vlib.read(os.path.join(vlib.REPO, P2P)))
    gset = _strip_comments(vlib.read(os.path.join(vlib.REPO, GSET)))
    # ---- prefixes
    for key, var in (("hbPrefix", "heartbeatMessagePrefix"), ("reqPrefix", "signedObservationRequestPrefix")):
        m = re.findall(r"^var\s+%s\s*=\s*\[\]byte\(\"((?:[^\"\\]|\\.)*)\"\)" % var, p2p, re.M)
        if len(m) != 1:
            ctx.gen_fail("C03", "`var %s = []byte(\"...\")` not found exactly once in %s" % (var, P2P))
            continue
        try:
            b = _go_string(m[0])
        except Exception as e:  # noqa
            ctx.gen_fail("C03", "cannot decode the literal of %s: %s" % (var, e))
            continue
        facts[key] = {"var": var, "literal": m[0], "bytes": list(b)}
    # the digests must be Keccak over append(prefix, body...)
    for fn, var in (("heartbeatDigest", "heartbeatMessagePrefix"), ("signedObservationRequestDigest", "signedObservationRequestPrefix")):
        if not re.search(r"func\s+%s\(\s*(\w+)\s+\[\]byte\s*\)\s*common\.Hash\s*\{\s*return\s+ethcrypto\.Keccak256Hash\(\s*append\(\s*%s\s*,\s*\1\.\.\.\s*\)\s*\)\s*\}" % (fn, var), p2p):
            ctx.gen_fail("C03", "%s is no longer `Keccak256Hash(append(%s, b...))` in %s" % (fn, var, P2P))
    # ---- floors
    f1 = _floor(ctx, p2p, "processSignedHeartbeat", "heartbeatMessagePrefix", "s.Heartbeat", "heartbeat floor")
    f2 = _floor(ctx, p2p, "processSignedObservationRequest", "signedObservationRequestPrefix", "s.ObservationRequest", "request floor")
    if f1:
        facts["hbFloor"] = f1
    if f2:
        facts["reqFloor"] = f2
    # ---- constants
    m = re.findall(r"^const\s+MaxNodesPerGuardian\s*=\s*([^\n]+)$", gset, re.M)
    if len(m) == 1:
        try:
            facts["cap"] = {"expr": m[0].strip(), "lean": exprtrans.translate(m[0], {}), "value": exprtrans.evaluate(m[0], {})}
        except exprtrans.TranslateError as e:
            ctx.gen_fail("C03", "MaxNodesPerGuardian: %s" % e)
    else:
        ctx.gen_fail("C03", "`const MaxNodesPerGuardian = <int>` not found in %s" % GSET)
    m = re.findall(r"^const\s+MaxStateAge\s*=\s*([^\n]+)$", gset, re.M)
    if len(m) == 1:
        try:
            plain = re.sub(r"\btime\.(\w+)", lambda mm: str(UNITS[mm.group(1)]), m[0])
            facts["maxAge"] = {"expr": m[0].strip(), "lean": exprtrans.translate(plain, {}), "ns": exprtrans.evaluate(plain, {})}
        except (exprtrans.TranslateError, KeyError) as e:
            ctx.gen_fail("C03", "MaxStateAge: %s" % e)
    else:
        ctx.gen_fail("C03", "`const MaxStateAge = <duration>` not found in %s" % GSET)
    if not re.search(r"len\(\s*\w+\s*\)\s*>=\s*MaxNodesPerGuardian", gset):
        ctx.gen_fail("C03", "SetHeartbeat no longer tests `len(v) >= MaxNodesPerGuardian` in %s" % GSET)
    # ---- call sites in p2p.Run (not executable under the stub): textual facts
    site = {}
    m = re.search(r"r\s*,\s*err\s*:=\s*processSignedObservationRequest\(\s*s\s*,\s*gs\s*\)\s*if\s+err\s*!=\s*nil\s*\{(.*?)\n\t{4}\}\s*else\s*\{(.*?)\n\t{4}\}", p2p, re.S)
    site["request_forward_only_without_error"] = bool(m and "obsvReqC <-" not in m.group(1) and re.search(r"obsvReqC\s*<-\s*r\b", m.group(2))
                                                      and len(re.findall(r"obsvReqC\s*<-\s*r\b", p2p)) == 1)
    site["request_verified_against_current_set"] = bool(re.search(
        r"s\s*:=\s*m\.SignedObservationRequest\s*gs\s*:=\s*gst\.Get\(\)\s*if\s+gs\s*==\s*nil\s*\{[^}]*?break\s*\}\s*r\s*,\s*err\s*:=\s*processSignedObservationRequest", p2p, re.S))
    site["heartbeat_verified_against_current_set"] = bool(re.search(
        r"s\s*:=\s*m\.SignedHeartbeat\s*gs\s*:=\s*gst\.Get\(\)\s*if\s+gs\s*==\s*nil\s*\{[^}]*?break\s*\}\s*if\s+\w+\s*,\s*err\s*:=\s*processSignedHeartbeat\(\s*envelope\.GetFrom\(\)\s*,\s*s\s*,\s*gs\s*,\s*gst\s*,\s*disableHeartbeatVerify\s*\)", p2p, re.S))
    node = _strip_comments(vlib.read(os.path.join(vlib.REPO, NODE)))
    site["disable_heartbeat_verify_defaults_false"] = bool(re.search(r"disableHeartbeatVerify\s*=\s*NodeCmd\.Flags\(\)\.Bool\(\s*\"disableHeartbeatVerify\"\s*,\s*false\s*,", node))
    site["flag_passed_to_p2p_run"] = bool(re.search(r"p2p\.Run\([^;]*?\*disableHeartbeatVerify\s*,\s*rootCtxCancel\s*\)", node, re.S))
    facts["call_sites"] = site
    for k, v in site.items():
        if not v:
            ctx.gen_fail("C03", "call-site fact no longer holds in the source: %s" % k)
    need = ("hbPrefix", "reqPrefix", "hbFloor", "reqFloor", "cap", "maxAge")
    ok = all(k in facts for k in need)
    if ok:
        def blist(b):
            return "[" + ", ".join(str(x) for x in b) + "]"
        ctx.gen("C03", "namespace Whv.Gen.C03\n\n"
                "/-- from %s: `var heartbeatMessagePrefix = []byte(\"%s\")` -/\ndef heartbeatPrefix : List UInt8 := %s\n\n"
                "/-- from %s: `var signedObservationRequestPrefix = []byte(\"%s\")` -/\ndef obsReqPrefix : List UInt8 := %s\n\n"
                "/-- from %s (processSignedHeartbeat): `%s`; p = prefix length, n = body length -/\ndef hbTooShort (p n : Nat) : Bool := %s\n\n"
                "/-- from %s (processSignedObservationRequest): `%s` -/\ndef reqTooShort (p n : Nat) : Bool := %s\n\n"
                "/-- from %s: `const MaxNodesPerGuardian = %s` -/\ndef maxNodesPerGuardian : Nat := %s\n\n"
                "/-- from %s: `const MaxStateAge = %s` (nanoseconds) -/\ndef maxStateAgeNs : Nat := %s\n\n"
                "end Whv.Gen.C03\n" % (
                    P2P, facts["hbPrefix"]["literal"], blist(facts["hbPrefix"]["bytes"]),
                    P2P, facts["reqPrefix"]["literal"], blist(facts["reqPrefix"]["bytes"]),
                    P2P, facts["hbFloor"]["expr"], facts["hbFloor"]["lean"],
                    P2P, facts["reqFloor"]["expr"], facts["reqFloor"]["lean"],
                    GSET, facts["cap"]["expr"], facts["cap"]["lean"],
                    GSET, facts["maxAge"]["expr"], facts["maxAge"]["lean"]))
    ctx.cov["gen_facts"] = {k: (v if k == "call_sites" else {kk: vv for kk, vv in v.items() if kk != "bytes"}) for k, v in facts.items()}
    return facts if ok else None


# never let `go test` rewrite /repo/node/go.mod (vlib sets GOFLAGS=-mod=mod; the command-line flag wins)
READONLY = ("-mod=readonly",)


def classify(clause, case, verdict):
    return clause


def _judge(ctx, cases, label):
    n_ok, stats = ctx.judge("gossip", cases, classify)
    total = 0
    samples = []
    kinds = {}
    with open(cases) as f:
        for ln in f:
            total += 1
            p = ln.split(" ", 2)
            if p[0] == "reset":
                k = p[1].rstrip("0123456789")
                kinds[k] = kinds.get(k, 0) + 1
            elif p[0] in ("hb", "req") and len(samples) < 3 and total % 211 == 5:
                samples.append(ln.strip()[:500])
    ctx.cov["evaluations"] += total
    ctx.cov["distinct_nontrivial"] += n_ok
    ctx.cov["samples"] += samples
    ctx.cov.setdefault("generator_distribution", {})[label] = kinds
    tot = ctx.cov.setdefault("driver_stats_total", {})       # judge() overwrites driver_stats per call: keep the sum
    for k, v in stats.items():
        tot[k] = max(tot.get(k, 0), v) if k == "max_entries_per_guardian" else tot.get(k, 0) + v
    return stats


def run(ctx):
    gen(ctx)
    ctx.prove(families=("gossip", "processor"))

    # ---- 1. the two p2p verifiers
    ov = ctx.overlay({"node/pkg/p2p/zz_verif_c03_test.go": "p2p/c03_gossip_verif_test.go"}, p2p_stub=True)
    if ov is not None:
        rc, out = ctx.go_test("node", "./pkg/p2p", "^TestVerifC03Gossip$", ov, extra=READONLY)
        cases = os.path.join(ctx.work, "gossip.cases")
        if rc != 0 or not os.path.exists(cases):
            ctx.broken.append(("tie", "go-harness:p2p", out[-800:]))
        else:
            stats = _judge(ctx, cases, "p2p")
            # the tie is only meaningful if valid messages were accepted: a verifier (or a model) that hashes another
            # pre-image than the one guardians sign rejects everything and would otherwise "agree" with anything
            for k in ("hb_accepted", "req_accepted", "hb_rejected", "req_rejected"):
                if stats.get(k, 0) == 0:
                    ctx.broken.append(("tie", "gossip:" + k, "no case counted under %s: the verifiers, the model and the harness' signing pre-images no longer fit together" % k))

    # ---- 2. GuardianSetState.SetHeartbeat / Cleanup / cap
    ov2 = ctx.overlay({"node/pkg/common/zz_verif_c03_test.go": "common/c03_table_verif_test.go"})
    rc, out = ctx.go_test("node", "./pkg/common", "^TestVerifC03Table$", ov2, extra=READONLY)
    cases2 = os.path.join(ctx.work, "gossip_table.cases")
    if rc != 0 or not os.path.exists(cases2):
        ctx.broken.append(("tie", "go-harness:common", out[-800:]))
    else:
        _judge(ctx, cases2, "common")

    if "driver_stats_total" in ctx.cov:
        ctx.cov["driver_stats"] = ctx.cov.pop("driver_stats_total")

    # processor observation gate (C03's first sentence, for gossiped observations): the processor family's harness delivers
    # forged / non-member / wrong-address / wrong-digest / truncated observations to the real handleObservation and the
    # driver's clause `invalid-observation-changed-state` demands that aggregation summary, store and outputs are untouched;
    # the theorem is Whv.C03.observation_gate_noop (= C02.invalid_observation_noop) on the processor model.
    rule_before = ctx.cov.get("rule", "")
    proccommon.run_processor(ctx, "C03", "")
    proc_rule = ctx.cov.get("rule", "")

    ctx.cov["rule"] = ("p2p: sessions on one real GuardianSetState: for guardian sets of 1, 2, 3 and 19 keys every single mutation of a valid "
                       "heartbeat and of a valid observation request (payload/signature/address byte flips, truncation, extension, "
                       "wrong v, wrong lengths, 32-/21-/19-byte envelope addresses, outsider claiming itself / a member, member with "
                       "another member's address, missing / other / damaged prefix, VAA-style double hash), validly signed bodies "
                       "with pre-images of 28..37 bytes (the floor), cross-type replays (VAA-digest signature, heartbeat signature as "
                       "request and back), guardian-set changes (removed / added guardian, empty set, duplicate keys), the "
                       "per-guardian cap (fill to cap+3, updates from known peers, Cleanup with expired entries), a few "
                       "disableVerify=true sessions (tie only), random interleavings; common: random SetHeartbeat / Cleanup sequences. "
                       "After EVERY call the full GetAll() table, the update channel and a metrics fingerprint are recorded. "
                       "evaluations = case lines; distinct_nontrivial = sessions on which model and implementation agreed on every "
                       "result, error kind and table, and the Spec held on the implementation's own results. processor (observation gate): " + proc_rule)
    ctx.cov["trusted_base"] += [
        "harness/p2p/c03_gossip_verif_test.go + harness/common/c03_table_verif_test.go (generators, canonical table rendering, independent oracle computation with go-ethereum's Keccak/Ecrecover and protobuf) and Whv/Driver/Gossip.lean (comparison + Spec)",
        "checks/c03.py regexes (prefixes, floor conditions, constants, call sites in p2p.Run / node.go); p2p.Run itself is not executed (its body is what the p2p stub removes)",
        "Keccak-256, secp256k1 recovery and protobuf decoding are oracles supplied per case; no theorem assumes anything about them (domain separation is proved at pre-image level)",
    ]
    ctx.assumptions += [
        "the property describes disableHeartbeatVerify=false (the flag's default, checked textually); with the flag set the code stores any correctly self-signed heartbeat under its recovered signer (modelled and tied, not part of the Spec)",
        "Cleanup reads the wall clock: the harness only uses timestamps at least a minute away from the expiry boundary, the clock reading travels in the line",
        "handleObservation's gate is exercised through the processor family's harness (clause invalid-observation-changed-state) and proved as Whv.C03.observation_gate_noop",
    ]
