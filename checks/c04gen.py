"""Extractor for the contract-side VAA layout (Messages.sol parseVM, governance.ral parseAndVerifyVAA) -> Whv/Gen/C04.lean"""
import os, re
import vlib

SOL = "ethereum/contracts/Messages.sol"
RAL = "alephium/contracts/governance.ral"
GO = "node/pkg/vaa/structs.go"
WIDTH = {"toUint8": 1, "toUint16": 2, "toUint32": 4, "toUint64": 8, "toBytes32": 32}


def lean_list(xs):
    return "[" + ", ".join('("%s", %d, %d)' % x for x in xs) + "]"


def extract(ctx):
    facts = {}
    sol = vlib.read_contract(SOL)
    m = re.search(r"function\s+parseVM\s*\([^)]*\)[^{]*\{(.*?)\n    \}", sol, re.S)
    if not m:
        ctx.gen_fail("C04", "parseVM not found in " + SOL); return None
    body = m.group(1)
    # statement sequence: assignments `X = encodedVM.toT(index)` / `index += k` / loop header / slice
    toks = re.findall(r"(vm\.[\w\[\]\.]+|uint256\s+signersLen)\s*=\s*encodedVM\.(\w+)\(index\)(\s*\+\s*27)?;|index\s*\+=\s*(\d+);|(for\s*\()|(bytes\s+memory\s+body\s*=\s*encodedVM\.slice\(index,\s*encodedVM\.length\s*-\s*index\);)|(vm\.payload\s*=\s*encodedVM\.slice\(index,\s*encodedVM\.length\s*-\s*index\);)|(\})", body)
    header, sigfields, bodyfields = [], [], []
    mode = "header"
    off = 0
    pending = None
    for t in toks:
        name, conv, _plus, inc, forkw, bodyslice, payslice, close = t
        if forkw:
            mode = "sig"; off_sig = 0; continue
        if close:
            if mode == "sig":
                mode = "aftersig"
            continue
        if bodyslice:
            mode = "body"; off = 0; continue
        if payslice:
            bodyfields.append(("payload", off, 0)); continue
        if name:
            if conv not in WIDTH:
                ctx.gen_fail("C04", "unknown BytesLib reader %s in parseVM" % conv); return None
            pending = (re.sub(r"^vm\.|uint256\s+|signatures\[i\]\.", "", name).strip(), WIDTH[conv])
            continue
        if inc:
            if pending is None or int(inc) != pending[1]:
                ctx.gen_fail("C04", "`index += %s` does not match the width of the preceding read %r in parseVM" % (inc, pending)); return None
            if mode == "header":
                header.append((pending[0], off, pending[1])); off += pending[1]
            elif mode == "sig":
                sigfields.append((pending[0], off_sig, pending[1])); off_sig += pending[1]
            elif mode == "body":
                bodyfields.append((pending[0], off, pending[1])); off += pending[1]
            else:
                ctx.gen_fail("C04", "read of %r between signature loop and body slice in parseVM" % (pending,)); return None
            pending = None
    facts["solHeader"] = header
    facts["solSig"] = sigfields
    facts["solBody"] = bodyfields
    facts["solDoubleHash"] = bool(re.search(r"vm\.hash\s*=\s*keccak256\(abi\.encodePacked\(keccak256\(body\)\)\);", body))
    facts["solVersionCheck"] = bool(re.search(r"require\(vm\.version\s*==\s*1\s*,", body))

    ral = vlib.read_contract(RAL)
    m = re.search(r"pub fn parseAndVerifyVAA\(.*?\n    \}", ral, re.S)
    if not m:
        ctx.gen_fail("C04", "parseAndVerifyVAA not found in " + RAL); return None
    fn = m.group(0)
    rh = []
    for name, pat in (("version", r"byteVecSlice!\(data,\s*(\d+),\s*(\d+)\)\s*==\s*Version"),
                      ("guardianSetIndex", r"let guardianSetIndex\s*=\s*u256From4Byte!\(byteVecSlice!\(data,\s*(\d+),\s*(\d+)\)\)"),
                      ("signersLen", r"let signatureSize\s*=\s*u256From1Byte!\(byteVecSlice!\(data,\s*(\d+),\s*(\d+)\)\)")):
        mm = re.search(pat, fn)
        if not mm:
            ctx.gen_fail("C04", "header field %s not found in parseAndVerifyVAA" % name); return None
        rh.append((name, int(mm.group(1)), int(mm.group(2)) - int(mm.group(1))))
    facts["ralHeader"] = rh
    mm = re.search(r"let body\s*=\s*byteVecSlice!\(data,\s*(\d+)\s*\+\s*(\w+)\s*\*\s*(\d+),\s*size!\(data\)\)", fn)
    if not mm:
        ctx.gen_fail("C04", "`let body = byteVecSlice!(data, 6 + signatureSize * 66, size!(data))` not found"); return None
    facts["ralBodyStart"] = (int(mm.group(1)), int(mm.group(3)))
    # the multiplier must be the number of signature records actually present on the wire (byte 5), nothing else
    facts["ralBodyStartCount"] = mm.group(2)
    facts["ralDoubleHash"] = bool(re.search(r"let hash\s*=\s*keccak256!\(keccak256!\(body\)\)", fn))
    mm = re.search(r"let mut offset\s*=\s*(\d+)", fn)
    m2 = re.search(r"let guardianIndex\s*=\s*u256From1Byte!\(byteVecSlice!\(data,\s*offset,\s*offset\s*\+\s*(\d+)\)\)", fn)
    m3 = re.search(r"let signature\s*=\s*byteVecSlice!\(data,\s*offset\s*\+\s*(\d+),\s*offset\s*\+\s*(\d+)\)", fn)
    m4 = re.search(r"offset\s*=\s*offset\s*\+\s*(\d+)", fn)
    if not (mm and m2 and m3 and m4):
        ctx.gen_fail("C04", "signature loop offsets not found in parseAndVerifyVAA"); return None
    facts["ralSig"] = [("guardianIndex", 0, int(m2.group(1))), ("signature", int(m3.group(1)), int(m3.group(2)) - int(m3.group(1)))]
    facts["ralSigStart"] = int(mm.group(1))
    facts["ralSigStride"] = int(m4.group(1))
    rb = []
    conv_mismatch = []
    for name in ("emitterChainId", "targetChainId", "emitterAddress", "sequence"):
        # any conversion width is accepted here: a wrong width / offset is emitted as a fact, so that the Lean theorem
        # fails and the check can name the deviating field (rather than the extractor giving up)
        mm = re.search(r"let %s\s*=\s*(?:u256From(\d+)Byte!\()?byteVecSlice!\(body,\s*(\d+),\s*(\d+)\)\)?" % name, fn)
        if not mm:
            ctx.gen_fail("C04", "body field %s not found in parseAndVerifyVAA" % name); return None
        a, b = int(mm.group(2)), int(mm.group(3))
        if mm.group(1) is not None and int(mm.group(1)) != b - a:
            conv_mismatch.append((name, int(mm.group(1)), a, b))
        rb.append((name, a, b - a))
    facts["ralConvMismatch"] = conv_mismatch
    mm = re.search(r"let payload\s*=\s*byteVecSlice!\(body,\s*(\d+),\s*size!\(body\)\)", fn)
    if not mm:
        ctx.gen_fail("C04", "payload slice not found in parseAndVerifyVAA"); return None
    rb.append(("payload", int(mm.group(1)), 0))
    facts["ralBody"] = rb

    return facts


def gen(ctx):
    f = extract(ctx)
    if f is None:
        return None
    b = lambda x: "true" if x else "false"
    src = "namespace Whv.Gen.C04\n\n"
    src += "/-- Messages.sol parseVM: (field, offset, width) of the header -/\ndef solHeader : List (String × Nat × Nat) := %s\n" % lean_list(f["solHeader"])
    src += "/-- per-signature record, offsets relative to the record -/\ndef solSig : List (String × Nat × Nat) := %s\n" % lean_list(f["solSig"])
    src += "/-- body fields, offsets relative to the hashed body; width 0 = rest of input -/\ndef solBody : List (String × Nat × Nat) := %s\n" % lean_list(f["solBody"])
    src += "def solDoubleHash : Bool := %s\ndef solVersionCheck : Bool := %s\n\n" % (b(f["solDoubleHash"]), b(f["solVersionCheck"]))
    src += "/-- governance.ral parseAndVerifyVAA -/\ndef ralHeader : List (String × Nat × Nat) := %s\n" % lean_list(f["ralHeader"])
    src += "def ralSig : List (String × Nat × Nat) := %s\n" % lean_list(f["ralSig"])
    src += "def ralSigStart : Nat := %d\ndef ralSigStride : Nat := %d\n" % (f["ralSigStart"], f["ralSigStride"])
    src += "/-- body = data[a + signatureSize * b ..] -/\ndef ralBodyStart : Nat × Nat := (%d, %d)\n" % f["ralBodyStart"]
    src += "/-- the variable the body offset is multiplied by -/\ndef ralBodyStartCount : String := \"%s\"\n" % f["ralBodyStartCount"]
    src += "def ralBody : List (String × Nat × Nat) := %s\n" % lean_list(f["ralBody"])
    src += "/-- fields whose integer conversion width differs from the slice it is applied to -/\ndef ralConvMismatch : Nat := %d\n" % len(f["ralConvMismatch"])
    src += "def ralDoubleHash : Bool := %s\n" % b(f["ralDoubleHash"])
    src += "\nend Whv.Gen.C04\n"
    ctx.gen("C04", src)
    return f
