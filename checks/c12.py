"""C12 - stored VAAs come back byte-exact and emitter queries never mix streams."""
import os

PARTS = [
    # (go package, test regexp, overlay mapping, p2p stub needed, case file)
    ("./pkg/db", "^TestVerifDb$", {"node/pkg/db/zz_verif_db_test.go": "db/db_verif_test.go", "node/pkg/db/zz_verif_export.go": "db/verif_export.go"}, False, "db.cases"),
    ("./pkg/publicrpc", "^TestVerifDbRpc$", {"node/pkg/publicrpc/zz_verif_publicrpc_test.go": "publicrpc/publicrpc_verif_test.go"}, False, "dbrpc.cases"),
    ("./cmd/guardiand", "^TestVerifDbAdmin$", {"node/cmd/guardiand/zz_verif_c12_fmm_test.go": "guardiand/c12_fmm_verif_test.go"}, True, "dbadm.cases"),
]


def classify(clause, case, verdict):
    return clause


# the admin layer alone, for C01 ("... or backfill responses"): the same harness and driver; C01 reports only the clauses that say
# the backfill path hands anything but what a node served to the processor, or writes the store itself
BACKFILL_C01 = ("backfill-wrote-store", "backfill-forwarded-not-served")


# the RPC layer alone, for C16 ("returned intact by every later lookup" - the public RPC is such a lookup): same harness and
# driver; C16 reports only the clauses that say a stored VAA is not, or not byte-exactly, returned
# (the batch lookup answers entry by entry: `rpc-batch-wrong-bytes` = the entry labelled s carries bytes that differ from the VAA stored
# under s, `rpc-batch-phantom` = bytes for an identifier nothing was ever stored under, `rpc-batch-lost` = a stored, requested VAA is not returned)
RPC_C16 = ("rpc-get-lost", "rpc-get-wrong-bytes", "rpc-batch-wrong-bytes", "rpc-batch-phantom", "rpc-batch-lost")


def run_rpc_for(ctx, clauses):
    return _run_part_for(ctx, PARTS[1], clauses, "rget ")


def run_backfill_for(ctx, clauses):
    return _run_part_for(ctx, PARTS[2], clauses, "bfill ")


def _run_part_for(ctx, part, clauses, count_prefix):
    pkg, rx, mapping, stub, fname = part
    ov = ctx.overlay(mapping, p2p_stub=stub)
    if ov is None:
        return
    path = os.path.join(ctx.work, fname)
    if os.path.exists(path):
        os.remove(path)
    rc, out = ctx.go_test("node", pkg, rx, ov, timeout=600 if ctx.tier == "quick" else 3000)
    if rc != 0 or not os.path.exists(path):
        tail = "\n".join(l for l in out.split("\n") if not l.startswith("missing: "))[-800:]
        ctx.broken.append(("tie", "go-harness:" + pkg, tail))
        return
    nb = sum(1 for ln in open(path) if ln.startswith(count_prefix))
    before = len(ctx.spec_violations)
    n_ok, stats = ctx.judge("db", path, classify)
    kept = [v for v in ctx.spec_violations[before:] if v["key"] in clauses]
    dropped = len(ctx.spec_violations) - before - len(kept)
    ctx.spec_violations[before:] = kept
    if dropped:
        ctx.notes.append("%d Spec verdicts of the admin layer belong to C12 and are reported by its check" % dropped)
    ctx.cov["evaluations"] += nb
    ctx.cov[count_prefix.strip() + "_calls"] = nb


def run(ctx):
    ctx.prove(families=("db",))
    total = 0
    ok_total = 0
    kinds = {}
    samples = []
    for pkg, rx, mapping, stub, fname in PARTS:
        ov = ctx.overlay(mapping, p2p_stub=stub)
        if ov is None:
            continue
        path = os.path.join(ctx.work, fname)
        if os.path.exists(path):
            os.remove(path)
        rc, out = ctx.go_test("node", pkg, rx, ov, timeout=600 if ctx.tier == "quick" else 3000)
        if rc != 0 or not os.path.exists(path):
            tail = "\n".join(l for l in out.split("\n") if not l.startswith("missing: "))[-800:]
            ctx.broken.append(("tie", "go-harness:" + pkg, tail))
            continue
        seen = set()
        with open(path) as f:
            for ln in f:
                op = ln.split(" ", 1)[0]
                if op in ("reset", "srv", "raw"):
                    continue
                total += 1
                kinds[op] = kinds.get(op, 0) + 1
                if op not in seen and len(samples) < 12:
                    seen.add(op)
                    samples.append(ln.strip()[:300])
        n_ok, stats = ctx.judge("db", path, classify)
        ok_total += n_ok
    ctx.cov["evaluations"] += total
    ctx.cov["distinct_nontrivial"] += ok_total
    ctx.cov["samples"] += samples
    ctx.cov["generator_distribution"] = kinds
    ctx.cov["rule"] = (
        "stateful cases on a real badger store: each case draws 1-3 emitter chains and 2-5 target chains from groups whose decimal "
        "renderings are prefixes of one another (2/25/255/256, 1/10..17/10001, 4/42/420, 0/6/65/65535, 3/30/300), 2-3 emitter "
        "addresses (random, one-byte variants, the governance emitter) and sequences 0..3-14, then interleaves StoreSignedVAA "
        "(overwrites, unsigned VAA -> panic, empty payload), GetSignedVAABytes on stored and look-alike ids, FindEmitterSequenceGap "
        "and GetGovernanceVAABatch, and ends with a sweep of every stream / every stored id; deterministic written-out scenarios "
        "(targets 2,25,255 etc.); streams holding a stored VAA vaa.Unmarshal rejects (empty payload, version 0 / 2) as lowest / middle / highest / "
        "only sequence, overwritten either way (a gap report given without an error must still be the stream's); cases with sequences up to 2^64-1 (no gap query); cases with entries written straight into badger "
        "to reach the error returns; the key functions on a grid of boundary ids; the same through PublicrpcServer.GetSignedVAA / "
        "GetNonGovernanceVAABatch / GetGovernanceVAABatch (valid, upper-case, short, long, non-hex addresses, out-of-range enum "
        "numbers, batch sizes 0..31, nil message id; at the end of every case each stream is asked for ALL its sequences - stored ones and "
        "holes - in batches of 2..20, ascending, descending, shuffled, and in pairs stored/hole, each entry judged on its own; twice per case - and "
        "in `down*` cases of the local layer - the store handle is UNAVAILABLE for the duration of the calls (closed and reopened around them, as "
        "runNode's deferred db.Close() leaves it while the gRPC server still accepts calls): single lookups of stored identifiers and holes, "
        "batches of one stored sequence / with a hole / of the whole stream / empty, the governance batch, gap queries - lines `down=1`: an "
        "error is accepted there, an answer that is given is judged like any other; every third case all stored identifiers are looked up "
        "again after a clean restart of the store; three `chain` cases store VAAs whose emitter / target chains cover the uint16 range - every "
        "value of the proto enum and its neighbours, 18, 254, 256, 257, 1000, 10000, 10002, 32768, 65535, random ones - one in six with an "
        "empty / nil payload, and look every one up (single + batch + swapped chains) before and after a restart and while the handle is down) and through nodePrivilegedService.FindMissingMessages - plain, and with RpcBackfill "
        "against two fake public-RPC nodes (plus an unreachable one) scripted per missing sequence: the VAA of that id, arbitrary bytes, "
        "no vaaBytes field, undecodable JSON / base64, 404, 5xx / 429 / 4xx (PRNG-placed, and written out: the first / a middle / the last / two / "
        "every missing sequence of a batch of seven failing while the others are served or declined); compared: requests made, what reached the processor's inbound "
        "channel, the reply, and the plain report right after (the admin service never writes the store). An evaluation = one "
        "operation line; distinct_nontrivial = operations on which model and implementation agreed and the Spec (answer judged "
        "against lastStored / specGap(streamSeqs) / specGov of the implementation's own history) held")
    ctx.cov["trusted_base"] += [
        "badger v3 (ASSUMED): iteration in ascending key-byte order, Seek+ValidForPrefix visits exactly the keys with the prefix, "
        "a committed Set replaces the value of its key, reads see committed writes — modelled as an association list + sort + filter",
        "harness/db/db_verif_test.go, harness/publicrpc/publicrpc_verif_test.go, harness/guardiand/c12_fmm_verif_test.go (generators, rendering) "
        "and Whv/Driver/Db.lean (comparison, Spec evaluation)",
        "Whv.C05.decode_encode (Unmarshal∘Marshal = id on in-domain VAAs) is used by the gap theorem; its own tie is C05's",
        "fmt %d / hex.EncodeToString / strconv.ParseUint / strings.LastIndex semantics: exercised by the tie, modelled by decChars / hexChars / parseUint / splitLastSlash",
        "p2p stub for cmd/guardiand (only p2p.Run's body is removed)",
    ]
    ctx.assumptions += [
        "the theorems are about the REPAIRED FindEmitterSequenceGap (fixes/C12-gap-prefix-separator.diff: scan prefix EmitterPrefixBytes()+\"/\"); "
        "on the unrepaired tree the Spec clauses gap-not-stream-exact / gap-error / fmm-not-stream-exact fire with a concrete store",
        "gap queries are specified for streams whose stored VAAs all decode (non-empty payload, <= 255 signatures) and whose greatest sequence is "
        "below 2^64-1 (the Go loop `for i := first; i <= last; i++` does not terminate at 2^64-1); a stream containing an empty-payload VAA makes "
        "the gap query return an error (Marshal writes what Unmarshal rejects — C13's finding), which the model reproduces (C12.gap_err_of_undecodable) and "
        "the Spec accepts: an error makes no statement; a report given WITHOUT an error is judged against specGap like any other",
        "first = 0 and, for an empty stream, missing = [0], last = 0 are taken as the specification because the repo's TestFindEmitterSequenceGap pins first = 0",
        "RPC requests whose chain enum number is outside 0..65535 are narrowed by the server (65538 -> 2); such a number names no VAA identifier, "
        "so the Spec is silent there and only model = implementation is checked (scope note)",
        "while the harness keeps the store handle unavailable (lines down=1) a failing call is accepted - the statement says what an answer has to be, "
        "not that the node answers when its store cannot be read (C12.rpc_batch_at_ok_exact: an OK batch was answered from reads that all succeeded)",
        "FindMissingMessages does not check the address length (short input is zero-padded, long input cut): the Spec judges 32-byte addresses only",
    ]
