"""C04 - signing digest is a deterministic, injective function of the message, laid out as the contracts parse it."""
from checks import vaacommon, c04gen, proccommon


def gen(ctx):
    return c04gen.gen(ctx)


def run(ctx):
    facts = gen(ctx)
    ctx.cov["gen_facts"] = facts
    if facts is not None:
        ctx.prove(families=("vaa", "processor"))
    vaacommon.run_vaa(ctx, "c04", ("body", "eq", "ne", "wire", "conc"))
    # the processor's VAA construction from a chain message: what it signs must be the digest of exactly that message
    # (clause signed-digest-differs-from-message on the processor family's scenarios; `dig=` is computed by the harness)
    vaa_rule = None
    proccommon.run_processor(ctx, "C04", "")
    proc_rule = ctx.cov.get("rule", "")
    ctx.cov["rule"] = ("processor (handleMessage's VAA construction): " + proc_rule[:300] + " ... | vaa: body: SerializeBody/SigningMsg of random VAAs vs the model's bytes and Keccak(Keccak(.)) recomputed by the harness; "
                       "eq: digest unchanged under version / set index / signatures / nanosecond changes; ne: each single body-field change "
                       "(incl. moving a byte across the consistency-level/payload boundary) changes signing body, digest and wire form; wire: the section of Marshal's "
                       "output after 6+66*count bytes (what the contracts hash) equals the signing body and hashes to the signed digest, payload lengths 0.."
                       "65537, 0..255 signatures; conc: digests / encodings computed by 6+1 goroutines (plus 2 verifiers) in barrier-released rounds in a "
                       "child process vs the sequentially computed ones; panic, hang (15 s watchdog, fires only on a stuck call) and process crash are verdicts")
    ctx.cov["rule"] += (" | evm (run last): the real EVM watcher against the fake node on same-height reorg histories - re-observation of one "
                        "transaction in (N, h1, t1), then re-mined in (N, h2, t2), another transaction of that block, flip back, one block higher, "
                        "failing block-time lookup, the change inside one request; log delivery in (M, hA, tA) then (M, hB, tB) - clause "
                        "forwarded-timestamp-not-block-time / forwarded-altered (owned by C10)")
    ctx.cov["trusted_base"] += ["checks/c04gen.py: regex extraction of parseVM (Messages.sol) and parseAndVerifyVAA (governance.ral) offsets; contracts never executed",
                                "Keccak-256 is an oracle: theorems stop at pre-image (signing body) level"]
    ctx.assumptions += ["timestamps outside [0, 2^32) seconds alias modulo 2^32 in Go and both contracts alike (the wire format's representable range)"]
    # Alephium part ("every honest guardian observing the same message signs the same 32 bytes"): one on-chain event must become the
    # same message on the polling path, on the re-observation path and under every shipped configuration; family alphwatch's harness
    # part `c04`, C04 owns only the ...-forwarded-altered clauses (checks/alphwatchcommon.py)
    from checks import alphwatchcommon
    alphwatchcommon.run_paths_for_c04(ctx)
    # EVM part (same sentence): the EVM watcher's re-observation and log paths across a reorg that keeps the height - the message handed
    # to the processor must carry the time of the block its receipt points to at that moment (family evm's harness part `c04`; C04
    # owns only c10.C04_CLAUSES, the clauses themselves are C10's)
    from checks import c10
    c10.run_reobs_for_c04(ctx)
    # if a Gen-based theorem broke, name the deviating offsets as the failing input
    if facts is not None and any(b[0] == "proof" for b in ctx.broken):
        want = [("timestamp", 0, 4), ("nonce", 4, 4), ("emitterChainId", 8, 2), ("targetChainId", 10, 2),
                ("emitterAddress", 12, 32), ("sequence", 44, 8), ("consistencyLevel", 52, 1), ("payload", 53, 0)]
        bad = [e for e in facts["solBody"] if e not in want] + [e for e in want if e not in facts["solBody"]]
        badr = [e for e in facts["ralBody"] if e not in want]
        # a hashing / version-check pattern that was merely not recognised is no deviation: it stays an unproved theorem
        # (no-failing-input-found); only offsets that were extracted and differ are reported as the failing input
        flags = [k for k in ("solDoubleHash", "ralDoubleHash", "solVersionCheck") if not facts[k]]
        if bad or badr or facts["ralBodyStart"] != (6, 66) or facts.get("ralConvMismatch") or facts.get("ralBodyStartCount") != "signatureSize":
            ctx.spec_violations.append({"key": "contract-layout-mismatch",
                                        "what": "contract parser layout deviates from the Go serializer: sol=%s ral=%s flags=%s" % (bad, badr, flags),
                                        "replay": {"solBody": facts["solBody"], "ralBody": facts["ralBody"], "expected": want,
                                                   "ralBodyStart": facts["ralBodyStart"], "missing": flags,
                                                   "ralConvMismatch": facts.get("ralConvMismatch"),
                                                   "ralBodyStartCount": facts.get("ralBodyStartCount"),
                                                   "note": "the hashed body must start after ALL signature records present (6 + signatureSize*66); any VAA with a different number of records is hashed from the wrong offset"}})
