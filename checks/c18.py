"""C18 - supervised services restart after failure and never run twice at once."""
import os
import re

import vlib

OVERLAY = {
    "node/pkg/supervisor/zz_verif_sim_test.go": "supervisor/sim_verif_test.go",
    "node/pkg/supervisor/zz_verif_trace_test.go": "supervisor/trace_verif_test.go",
}


def classify(clause, case, verdict):
    return clause


def _sorted_traces(path):
    blocks = {}
    for ln in open(path):
        parts = ln.split(" ", 2)
        if len(parts) >= 2:
            blocks.setdefault(parts[1], []).append(ln)

    def key(cid):
        try:
            return int(cid[2:])
        except ValueError:
            return 1 << 30
    return "".join("".join(blocks[c]) for c in sorted(blocks, key=key))


def _count(path):
    cases, ops, samples, seen = set(), 0, [], set()
    with open(path) as f:
        for ln in f:
            parts = ln.split(" ", 2)
            if len(parts) < 2:
                continue
            cases.add(parts[1])
            ops += 1
            if parts[0] not in seen and len(samples) < 10 and parts[0] not in ("end",):
                seen.add(parts[0])
                samples.append(ln.strip()[:300])
    return len(cases), ops, samples


def run(ctx):
    ctx.prove(families=("supervisor",))
    ov = ctx.overlay(OVERLAY)
    # one race-enabled test binary runs both parts: (i) the deterministic differential run in which the harness
    # plays the processor goroutine, (ii) scripted services under the real supervisor.New
    rc, out = ctx.go_test("node", "./pkg/supervisor", "^TestVerifSupervisor(Sim|Trace)$", ov, race=True, timeout=900)
    # traces first: a scripted scenario makes the more readable replay when several cases fail the same clause
    files = [os.path.join(ctx.work, n) for n in ("supervisor_trace.cases", "supervisor.cases")]
    have = [p for p in files if os.path.exists(p) and os.path.getsize(p) > 0]
    crash = re.search(r"^panic: (could not find [^\n]*)\n(?:.*\n)*?.*\(\*supervisor\)\.(processDied|processSchedule)", out, re.M)
    if crash:
        # the processor goroutine itself panicked in nodeByDN: a request referred to a node that no longer exists.
        # That kills the whole process, so no trace of the scenario survives: report the scenarios that were in flight.
        started, ended = {}, set()
        sp = os.path.join(ctx.work, "supervisor_trace.started")
        if os.path.exists(sp):
            for ln in open(sp):
                parts = ln.split()
                if len(parts) >= 3 and parts[0] == "start":
                    started[parts[1]] = parts[2]
        tp = os.path.join(ctx.work, "supervisor_trace.cases")
        if os.path.exists(tp):
            for ln in open(tp):
                if ln.startswith("end "):
                    ended.add(ln.split()[1])
        inflight = ["%s %s" % (k, v) for k, v in started.items() if k not in ended]
        ctx.spec_violations.append({
            "key": "processor-crashed",
            "what": "spec - processor-crashed the supervisor's processor goroutine panicked in %s (%s): the process dies, "
                    "nothing is ever restarted" % (crash.group(2), crash.group(1)[:200]),
            "replay": {"family": "supervisor", "clause": "processor-crashed", "in_flight_scenarios": inflight,
                       "panic": out[crash.start():crash.start() + 1500],
                       "note": "scenarios are generated from VERIF_SEED by TestVerifSupervisorTrace (randN = N-th random scenario)"}})
    if rc != 0:
        tail = out[-1200:]
        kind = "data-race" if "DATA RACE" in out else "go-harness"
        ctx.broken.append(("tie", kind, tail))
    if len(have) < len(files):
        ctx.broken.append(("tie", "go-harness", "case file missing: %s" % [p for p in files if p not in have]))
    allp = os.path.join(ctx.work, "supervisor.all.cases")
    with open(allp, "w") as g:
        for p in have:
            if p.endswith("supervisor_trace.cases"):
                g.write(_sorted_traces(p))   # traces are written in completion order: put them back in scenario order
            else:
                g.write(open(p).read())
    n_ok, stats = ctx.judge("supervisor", allp, classify)
    ncases, nops, samples = _count(allp)
    ctx.cov["evaluations"] += nops
    ctx.cov["distinct_nontrivial"] += n_ok
    ctx.cov["samples"] += samples
    ctx.cov["rule"] = (
        "part (i) `sim*`: one PRNG (VERIF_SEED) drives sequences of 30-90 operations on a supervisor whose processor goroutine is "
        "played by the harness: the real processSchedule / processDied / processGC / processKill / Signal / RunGroup and real runnable "
        "goroutines returning nil / error / (wrapped) context.Canceled / DeadlineExceeded / panicking, on trees of depth <= 3; half of "
        "the cases add perturbations (arbitrary node states, cancelled contexts, fabricated requests for unknown dns) so that every branch "
        "of the anchored functions is reached; after EVERY operation the full tree (state, ctx.Err, back-off interval, groups), the "
        "requests sent on pReq and the live goroutines with their ctx.Err are compared with the Lean model; 40 further cases per seed "
        "(own PRNG, `pp=1` in the reset line) play the same game on a supervisor value with `propagatePanic` set - what "
        "supervisor.New(..., WithPropagatePanic), guardiand's call, produces - with every kind of return and no panicking runnable "
        "(model: `reportOf`, the option is only consulted when a panic unwinds the runnable). "
        "part (ii) `tr*`: scripted services (failure kind, failure time, exit latency, Done-then-linger) under the real supervisor.New "
        "with the race detector; the observed enter/signal/exit trace must be accepted by the model (search over hidden processor steps) "
        "and the Spec clauses are evaluated on the trace itself. Besides the fixed, random and cancel-inside-the-back-off-window scenarios "
        "every seed runs the `completed-*` family: trees whose ROOT and/or inner runnables only set things up (start groups, signal "
        "Healthy + Done, return nil) while the services below keep running, the supervisor context being cancelled after settling, a few "
        "ms after the completed node returned, with a child in its back-off or a child subtree still exiting (driver stats "
        "trace_stop_with_completed_root / trace_stop_live_below_completed); `service-live-after-stop` = an instance that entered has "
        "not returned when the trace ends, more than (longest exit latency + 1 s) after the cancellation. The `rejected-*` family (14 fixed + "
        "10 PRNG-shaped scenarios per seed): a service - the root, an inner node, a member of a group of two, a node at depth 2 - makes a "
        "RunGroup / Run call the supervisor has to refuse as a whole (a name already running under it and / or a name without any "
        "[a-z0-9_] character, among 10-24 fresh valid names; first, middle or last call of its set-up) in its first two or three "
        "incarnations and returns that error, or ignores it and fails later (error / plain return / panic / its parent fails); the "
        "refused call must leave nothing behind that keeps the caller or an ancestor from being started again (`not-restarted`, settle "
        "bound 4 s where every back-off is <= 72 ms). The `propagate-panic-*` family: for every non-empty combination of the "
        "options supervisor.New accepts (today only WithPropagatePanic, which guardiand passes) every fixed scenario and a PRNG-chosen "
        "3/4 of all the others (random trees, cancel-inside-the-back-off-window, completed-*, rejected-*, done-member-*) in which no "
        "script panics (no `fail: panic`, no out-of-order Signal) is run a second time under a supervisor built with these options "
        "(about 45-50 traces per seed, own PRNG, appended last; `opts=` in the trace's first line, driver stat "
        "trace_with_supervisor_options); services return an error / nil / a (wrapped, sub-)context error / after Done, and the same "
        "clauses apply (`not-restarted`, `group-not-cancelled`, ...; settle bound 4 s where every back-off is <= 72 ms and every exit "
        "latency <= 400 ms); the model replays them with the option on (a logged panic would be refused). "
        "evaluations = operations/events replayed; distinct_nontrivial = cases "
        "(sequences / traces) on which model and implementation agreed throughout and the Spec held.")
    ctx.cov["trusted_base"] += [
        "harness/supervisor/*_verif_test.go (generators, canonical dump, event log) and Whv/Driver/Supervisor.lean (comparison, acceptance search)",
        "Go runtime: goroutines, channels, context cancellation, sync.RWMutex, time; github.com/cenkalti/backoff/v4 (only currentInterval's "
        "evolution is modelled; the +-50% randomisation is the library's)",
    ]
    ctx.assumptions += [
        "PARTIAL BY NATURE: Go scheduling, the 1 ms GC ticker, back-off sleepers and channel hand-offs are modelled as arbitrary "
        "interleaving of processor steps and runnable actions (every request stays pending for an arbitrary finite time); they are not verified",
        "a PANICKING runnable is only exercised with panic capture on (supervisors built without options): with WithPropagatePanic "
        "(guardiand's configuration) an unrecovered panic ends the whole process - the option's documented purpose, outside the statement's "
        "'returns or panics (with panic capture on)' and an explicit `crashed` outcome in the model; services that RETURN are exercised under "
        "both configurations (c18_propagate_panic_returning_same: for panic-free actions the two systems are the same)",
        "a runnable uses only its own context for Signal/RunGroup and stops using it when it returns",
        "data-race freedom is observed with -race on the generated runs, not proved",
        "restart 'after a bounded back-off' is proved as: the GC emits the reschedule request with nominal interval <= MaxInterval; the real "
        "sleep and the library's randomisation are observed in part (ii) only",
    ]
