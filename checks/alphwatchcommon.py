"""Shared by C08 / C09 (family `alphwatch`): overlay, harness run, verdict handling with clause ownership."""
import os
import shutil
import subprocess
import vlib

OVERLAY = {
    "node/pkg/alephium/zz_fakenode_verif_test.go": "alephium/fakenode_verif_test.go",
    "node/pkg/alephium/zz_c08_watch_verif_test.go": "alephium/c08_watch_verif_test.go",
    "node/pkg/alephium/zz_c09_fetch_verif_test.go": "alephium/c09_fetch_verif_test.go",
}

# Which property a Spec clause belongs to.  Both checks run overlapping generators (the polling pipeline is the
# subject of both statements); a check reports the clauses of its own property and only counts the others.
C09_CLAUSES = {
    "metadata-call-panic", "watcher-panic", "reobs-panic", "malformed-event-ends-watcher", "wellformed-event-dropped",
    "page-loop-spin", "page-gap-or-overlap", "final-message-not-forwarded", "height-not-resent",
    "fetch-stalled", "poller-not-enabled", "reobs-wellformed-event-dropped",
}


# A page overlap means an event is fetched - and hence forwarded - twice: that breaks C09's "exactly once" and equally
# C08's "the polling path forwards each fetched event at most once", so both checks report it.
#
# poll-forwarded-twice (one log position of the governance contract handed to the signer twice by the polling path - by one
# incarnation of the watcher or, after a restart of Run on the same Watcher value, by two) is C08's "forwards each fetched
# event at most once" and C09's "exactly once by the polling path" alike.
SHARED_CLAUSES = {"page-gap-or-overlap", "poll-forwarded-twice"}


def owner(clause):
    return "C09" if clause in C09_CLAUSES else "C08"


# C11 ("event fields map faithfully to the attested message") also reports the clause that says a forwarded message does not
# carry the fields of the event it was made from; every other clause stays with C08 / C09.
# The same holds for the polling path and for the confirmed-event handler called directly (a message published with another
# block's timestamp, or with a consistency level other than the event's): "is decoded into a message with exactly those values,
# the block timestamp, and the Alephium chain id".  C04 reports the three clauses as well: a publication that is not a function of
# the on-chain event alone (it depends on the path the event took, or on the guardian's configuration) makes honest guardians
# sign different digests for one message ("every honest guardian observing the same message signs the same 32 bytes").
#
# delivered-altered (the pending message the watcher makes of a fetched event - handleUnconfirmedEvents -> toUnconfirmedEvent - does
# not carry the event's fields) is C11's "is decoded into a message with exactly those values" at the first place where the
# decoded message is kept; C08 reports it like the other ...-altered clauses (its conditions are stated about "the message's
# consistency level").
#
# reobs-request-requeued (after the watcher has taken the ONE request the harness - playing the dispatcher - put on its request
# queue, the queue holds requests nobody forwarded: the watcher put the pair back itself) is C17's "forwarded only to the watcher
# of the chain it names, at most once per (chain, transaction) within the suppression window", observed where the statement
# observes it (the per-chain watcher request channel); C08 reports it too (its quantifier: "node API errors at any call").
EXTRA_OWNERS = {"reobs-forwarded-altered": {"C11", "C04"}, "poll-forwarded-altered": {"C11", "C04"}, "forwarded-altered": {"C11", "C04"},
                "delivered-altered": {"C11"}, "reobs-request-requeued": {"C17"}}


def owned_by(clause, pid):
    if pid not in ("C08", "C09"):
        return pid in EXTRA_OWNERS.get(clause, ())
    return clause in SHARED_CLAUSES or owner(clause) == pid


def private_work(ctx):
    """Give this run its own scratch directory (.work/<ID>.<os pid>).  vlib's Ctx wipes and reuses .work/<ID>, so two
    concurrent `./check <ID>` runs would delete / overwrite each other's overlay, case file and verdicts mid-run (seen as
    truncated case files and spurious diffs when the checks were run in parallel under load)."""
    ctx.work = os.path.join(vlib.WORK, "%s.%d" % (ctx.pid, os.getpid()))
    shutil.rmtree(ctx.work, ignore_errors=True)
    os.makedirs(ctx.work, exist_ok=True)


def drive(ctx, family, cases_path, timeout=3600):
    """ctx.drive on a private copy of the driver binary, taken under the lake lock: a concurrent `lake build` of another
    check relinks the shared binary in place."""
    src = os.path.join(vlib.BIN, "drv_" + family)
    exe = os.path.join(ctx.work, "drv_" + family)
    with vlib.Lock("lake"):
        if not os.path.exists(src):
            ctx.broken.append(("tie", "driver", "drv_%s binary missing (lake build failed?)" % family))
            return []
        shutil.copy2(src, exe)
    with open(cases_path) as f:
        p = subprocess.run([exe], stdin=f, stdout=subprocess.PIPE, stderr=subprocess.STDOUT,
                           text=True, errors="replace", timeout=timeout)
    open(cases_path + ".verdict", "w").write(p.stdout)
    if p.returncode != 0:
        ctx.broken.append(("tie", "driver:" + family, "driver exited %d: %s" % (p.returncode, p.stdout[-300:])))
    return p.stdout.split("\n")


def judge(ctx, family, cases_path):
    """vlib.Ctx.judge with one difference: a Spec clause owned by the sibling property is counted, not reported."""
    lines = drive(ctx, family, cases_path)
    cases = {}
    with open(cases_path) as f:
        for ln in f:
            parts = ln.split(" ", 2)
            if len(parts) >= 2:
                cases.setdefault(parts[1], []).append(ln.rstrip("\n"))
    n_ok, stats, other = 0, {}, {}
    for ln in lines:
        if not ln.strip():
            continue
        parts = ln.split(" ", 3)
        if parts[0] == "ok":
            n_ok += 1
        elif parts[0] == "stat" and len(parts) >= 3:
            stats[parts[1]] = stats.get(parts[1], 0) + int(parts[2])
        elif parts[0] == "diff":
            cid = parts[1] if len(parts) > 1 else "?"
            ctx.broken.append(("tie", "%s:%s" % (family, cid), {"verdict": ln[:2000], "case": [c[:3000] for c in cases.get(cid, [])[:40]]}))
        elif parts[0] == "spec":
            cid = parts[1] if len(parts) > 1 else "?"
            clause = parts[2] if len(parts) > 2 else "?"
            if not owned_by(clause, ctx.pid):
                other[clause] = other.get(clause, 0) + 1
                continue
            ctx.spec_violations.append({"key": clause, "what": ln[:2000],
                                        "replay": {"family": family, "case_id": cid, "clause": clause,
                                                   "case": [c[:20000] for c in cases.get(cid, [])[:60]]}})
        else:
            ctx.broken.append(("tie", "driver-output", ln[:300]))
    ctx.cov["traces_validated_against_impl"] += n_ok
    ctx.cov.setdefault("driver_stats", {}).update(stats)
    if other:
        ctx.cov["clauses_of_sibling_property_seen"] = other
        ctx.notes.append("cases failing only a clause of the sibling property (reported by its own check): %s" % other)
    ctx.log("driver %s: ok=%d diffs=%d spec=%d sibling-clauses=%d" % (
        family, n_ok, sum(1 for b in ctx.broken if b[0] == "tie"), len(ctx.spec_violations), sum(other.values())))
    return n_ok, stats


def run_alphwatch(ctx, part):
    ov = ctx.overlay(OVERLAY, p2p_stub=True)
    if ov is None:
        return None
    rc, out = ctx.go_test("node", "./pkg/alephium", "^TestVerifAlphWatch$", ov, env={"VERIF_PART": part})
    src = os.path.join(ctx.work, "alphwatch.cases")
    if rc != 0 or not os.path.exists(src):
        ctx.broken.append(("tie", "go-harness", out[-1200:]))
        return None
    kinds, samples, n_lines = {}, [], 0
    seen_ids = set()
    last = ""
    with open(src) as f:
        for ln in f:
            last = ln
    if last.strip() != "end end":
        ctx.broken.append(("tie", "go-harness", "case file is incomplete (last line: %r)" % last[:120]))
        return None
    with open(src) as f:
        for ln in f:
            if ln.startswith("end "):
                continue
            n_lines += 1
            parts = ln.split(" ", 2)
            if len(parts) < 2 or parts[1] in seen_ids:
                continue
            seen_ids.add(parts[1])
            k = parts[1].rstrip("0123456789")
            kinds[k] = kinds.get(k, 0) + 1
            if kinds[k] <= 1 and len(samples) < 8:
                samples.append(ln.strip()[:400])
    n_ok, stats = judge(ctx, "alphwatch", src)
    ctx.cov["evaluations"] += sum(kinds.values())
    ctx.cov["case_lines"] = n_lines
    ctx.cov["distinct_nontrivial"] += n_ok
    ctx.cov["samples"] += samples
    ctx.cov["generator_distribution"] = kinds
    ctx.cov["trusted_base"] += [
        "harness/alephium/*_verif_test.go: fake Alephium REST node (httptest), generators, canonical rendering; Whv/Driver/AlphWatch.lean (comparison, Spec evaluation)",
        "generated p2p stub (only the body of p2p.Run removed) so that package alephium builds on this Go",
        "ToWormholeMessage (C11) is an oracle here: the generator knows whether and to what each event converts",
        "Alephium go-sdk JSON decoding and net/http are exercised, not modelled",
    ]
    ctx.assumptions += [
        "the node's answers are inputs: theorems and Spec are relative to what the node answered in that call",
        "block heights < 2^31-256 and millisecond timestamps < 2^63-2^23 (InRange); outside that range only model/implementation agreement (with Go wrap-around) is checked",
        "wall clock: block timestamps are generated >= 10 minutes away from every confirmation floor, so the clock read inside process()/handleObsvRequest cannot race the comparison; exact boundaries are exercised through isEventConfirmed directly",
    ]
    if not ctx.broken and not ctx.spec_violations and not os.environ.get("VERIF_KEEP"):
        shutil.rmtree(ctx.work, ignore_errors=True)     # keep the scratch directory only when something has to be looked at
    return kinds


C04_CLAUSES = {c for c, who in EXTRA_OWNERS.items() if "C04" in who}


def run_paths_for_c04(ctx):
    """The Alephium part of C04 ("every honest guardian observing the same message signs the same 32 bytes ... does not depend on
    which guardian computes it"): what the Alephium watcher hands to the processor for ONE on-chain event must be the same message
    whichever way the event reached it (polling path, re-observation request, the confirmed-event handler directly) and however the
    guardian is configured (struct literal; the production constructor on configs/alephium/{mainnet,testnet,devnet}.json) - each
    publication is compared field by field with the event by drv_alphwatch.  C04 owns only the clauses in C04_CLAUSES
    (`...-forwarded-altered`); everything else the harness part shows belongs to C08 / C09 / C11 and is reported there."""
    return _run_part_for(ctx, "c04", "alephium_paths",
                         "harness/alephium/*_verif_test.go (fake Alephium node, both delivery paths of the real watcher, shipped configurations "
                         "read by common.ReadConfigsByNetwork) + Whv/Driver/AlphWatch.lean for the Alephium part")


C17_CLAUSES = {c for c, who in EXTRA_OWNERS.items() if "C17" in who}


def run_reobs_for_c17(ctx):
    """The Alephium watcher's end of C17 ("a re-observation request is forwarded only to the watcher of the chain it names, at most
    once per (chain, transaction) within the suppression window" - observe_at: the per-chain watcher request channels): the harness
    plays the dispatcher and OWNS the watcher's request queue (capacity as in cmd/guardiand/node.go).  It forwards one request at a
    time to the real handleObsvRequest loop while the fake node fails each kind of request of the re-observation path (and in ~250
    generated single-request cases), and records whatever else is on that queue once the loop has finished with the request.  C17
    owns only `reobs-request-requeued`; everything else this harness part shows belongs to C08 / C09 / C11 and is reported there."""
    return _run_part_for(ctx, "c17", "alephium_request_queue",
                         "harness/alephium/*_verif_test.go (fake Alephium node, the real handleObsvRequest loop on a request queue the harness owns; "
                         "sentinel request as barrier) + Whv/Driver/AlphWatch.lean for the Alephium watcher's request queue")


def _run_part_for(ctx, part, cov_key, trusted):
    # a scratch directory of its own (overlay, case file, verdicts, driver copy), whatever else runs in the caller's: removed when
    # nothing has to be looked at
    outer = ctx.work
    ctx.work = os.path.join(vlib.WORK, "%s.alph.%d" % (ctx.pid, os.getpid()))
    shutil.rmtree(ctx.work, ignore_errors=True)
    os.makedirs(ctx.work, exist_ok=True)
    n_broken, n_spec = len(ctx.broken), len(ctx.spec_violations)
    try:
        return _run_part(ctx, part, cov_key, trusted)
    finally:
        if len(ctx.broken) == n_broken and len(ctx.spec_violations) == n_spec and not os.environ.get("VERIF_KEEP"):
            shutil.rmtree(ctx.work, ignore_errors=True)
        ctx.work = outer


def _run_part(ctx, part, cov_key, trusted):
    rc, out = ctx.lake_build(["drv_alphwatch"])
    if rc != 0:
        ctx.broken.append(("tie", "driver-build", "lake build drv_alphwatch failed: %s" % out[-400:]))
        return None
    ov = ctx.overlay(OVERLAY, p2p_stub=True)
    if ov is None:
        return None
    src = os.path.join(ctx.work, "alphwatch.cases")
    if os.path.exists(src):
        os.remove(src)
    rc, out = ctx.go_test("node", "./pkg/alephium", "^TestVerifAlphWatch$", ov, env={"VERIF_PART": part})
    last = ""
    if os.path.exists(src):
        with open(src) as f:
            for ln in f:
                last = ln
    if rc != 0 or last.strip() != "end end":
        ctx.broken.append(("tie", "go-harness:alphwatch(%s)" % part, out[-1200:]))
        return None
    ids = set()
    with open(src) as f:
        for ln in f:
            parts = ln.split(" ", 2)
            if len(parts) >= 2 and parts[0] != "end":
                ids.add(parts[1])
    keep = {k: ctx.cov.get(k) for k in ("traces_validated_against_impl", "driver_stats")}
    n_ok, stats = judge(ctx, "alphwatch", src)
    ctx.cov["evaluations"] += len(ids)
    ctx.cov["distinct_nontrivial"] += n_ok
    ctx.cov[cov_key] = {"cases": len(ids), "ok": n_ok, "driver_stats": stats}
    if keep["driver_stats"] is not None:
        ctx.cov["driver_stats"] = keep["driver_stats"]
    ctx.cov["trusted_base"] += [trusted]
    return len(ids)
