import os
import vlib

OVERLAY = {"node/pkg/vaa/zz_verif_vaa_test.go": "vaa/vaa_verif_test.go"}


def run_vaa(ctx, part, ops, classify=None, also=None):
    ov = ctx.overlay(OVERLAY)
    rc, out = ctx.go_test("node", "./pkg/vaa", "^TestVerifVaa$", ov, env={"VERIF_PART": part})
    src = os.path.join(ctx.work, "vaa.cases")
    if rc != 0 or not os.path.exists(src):
        ctx.broken.append(("tie", "go-harness", out[-800:]))
        return
    dst = os.path.join(ctx.work, "vaa.%s.cases" % part)
    kinds = {}
    samples = []
    with open(src) as f, open(dst, "w") as g:
        for ln in f:
            op = ln.split(" ", 1)[0]
            if op in ops or (also is not None and also(ln)):
                g.write(ln)
                k = ln.split(" ", 2)[1].rstrip("0123456789")
                kinds[k] = kinds.get(k, 0) + 1
                if kinds[k] <= 1 and len(samples) < 8:
                    samples.append(ln.strip()[:400])
    n_ok, stats = ctx.judge("vaa", dst, classify)
    total = sum(kinds.values())
    ctx.cov["evaluations"] += total
    ctx.cov["distinct_nontrivial"] += n_ok
    ctx.cov["samples"] += samples
    ctx.cov["generator_distribution"] = kinds
    os.remove(src)
    return kinds
