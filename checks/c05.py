"""C05 - VAA wire encoding round-trips exactly and the decoder is total."""
from checks import vaacommon


def classify(clause, case, verdict):
    return clause


def run(ctx):
    ctx.prove(families=("vaa",))
    # besides the round trips: the stability laws - the wire bytes, signing body and digest of a VAA that is being held stay what
    # they were while other VAAs are encoded ("no accepted input is silently altered" also between two calls)
    vaacommon.run_vaa(ctx, "c05", ("enc", "dec", "dseq"), classify,
                      also=lambda ln: (ln.startswith("eq ") and (ln.split(" ", 3)[2] in (
                          "wire-bytes-not-stable", "signing-body-not-stable", "digest-not-stable", "digest-not-double-keccak-of-held-body")
                          or ln.split(" ", 3)[2].startswith("decoded-values-aliased")))
                      or (ln.startswith("ne ") and ln.split(" ", 3)[2].startswith(("encoding-ignores-field-change", "digest-ignores-field-change"))))
    ctx.cov["rule"] = ("enc: random VAAs (payload 1..4096 bytes incl. 999/1000/1001, thorough up to 200000; 0..255 signatures; boundary "
                       "field values; signature counts 126/127/128/129/192/254/255 every round; a Marshal error is a result: in-domain-vaa-not-encodable) "
                       "through the real Marshal+Unmarshal; dec: every truncation point of small encodings, header/"
                       "length-byte/bit-flip/append mutations and random bytes through the real Unmarshal (panics recovered); dseq: decode HISTORIES - runs of "
                       "4..6 equal-length messages (random, one field / one payload bit changed, repeated, undecodable ones in between) decoded one after "
                       "another from ONE reused buffer (decode-depends-on-earlier-decode); two callers decoding the same bytes from their own copies, the first "
                       "editing its result in place (payload, signature byte, index), the second's value compared before/after (decoded-values-aliased-*), then a third decode. "
                       "distinct_nontrivial = cases on which model and implementation agreed and the Spec held on the implementation's result")
    ctx.cov["trusted_base"] += ["harness/vaa/vaa_verif_test.go (generator, canonical rendering) and Whv/Driver/Vaa.lean (comparison)",
                                "Go runtime: bytes.Reader / encoding/binary semantics are exercised, not modelled"]
    ctx.assumptions += ["decoder totality (no panic / over-read) is shown on the generated inputs by the tie; the Lean function is total by construction"]
