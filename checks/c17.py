"""C17 - re-observation requests are routed once per (chain, transaction) per window and never block.

gen:  the suppression window (`now.Sub(t) > <expr>`) and the purge ticker period (`clock.Ticker(<expr>)`) are extracted
      from node/cmd/guardiand/reobserve.go into lean/Whv/Gen/C17.lean (nanoseconds) on every run.
prove: Whv.Props.C17 (all histories / operation sequences, every window) + drv_reobserve.
tie:  (1) the REAL handleReobservationRequests loop under a harness-owned clock (Now, the ticker channel, and live
      After/Timer/Sleep/AfterFunc that fire when the harness advances time) and the REAL admin entry point
      nodePrivilegedService.SendObservationRequest on outbound queues of every fill level under a watchdog (package
      guardiand, p2p stub overlay), (2) the REAL common.PostObservationRequest on queues of every fill level (package
      common), (3) the processor's cleanup caller (proccommon).
"""
import os
import re

import exprtrans
import vlib

SRC = "node/cmd/guardiand/reobserve.go"
UNITS = {"Nanosecond": 1, "Microsecond": 10 ** 3, "Millisecond": 10 ** 6, "Second": 10 ** 9, "Minute": 60 * 10 ** 9,
         "Hour": 3600 * 10 ** 9}


def _duration(ctx, what, expr):
    """Go duration expression (integer literals, time.<Unit>, + * / parentheses) -> (lean term, ns)."""
    def unit(m):
        if m.group(1) not in UNITS:
            raise exprtrans.TranslateError("unknown time unit %s" % m.group(1))
        return str(UNITS[m.group(1)])
    try:
        plain = re.sub(r"\btime\.(\w+)", unit, expr)
        return exprtrans.translate(plain, {}), exprtrans.evaluate(plain, {})
    except exprtrans.TranslateError as e:
        ctx.gen_fail("C17", "%s: cannot translate duration %r from %s: %s" % (what, expr, SRC, e))
        return None


def gen(ctx):
    # integer-constant expressions folded by tools/gofold: `11 * time.Minute`, a named constant or a literal read alike
    src = vlib.gofold(SRC)
    code = re.sub(r"//[^\n]*", "", src)
    facts = {}
    m = re.findall(r"\.Sub\(\s*(\w+)\s*\)\s*>\s*([^{\n]+?)\s*\{", code)
    if len(m) != 1:
        ctx.gen_fail("C17", "expected exactly one purge test of the form `now.Sub(t) > <duration> {` in %s, found %d" % (SRC, len(m)))
    else:
        d = _duration(ctx, "window", m[0][1])
        if d:
            facts["window"] = {"expr": m[0][1], "lean": d[0], "ns": d[1]}
    m = re.findall(r"\.Ticker\(\s*([^\n]+?)\s*\)\s*\n", code)
    if len(m) != 1:
        ctx.gen_fail("C17", "expected exactly one `clock.Ticker(<duration>)` in %s, found %d" % (SRC, len(m)))
    else:
        d = _duration(ctx, "ticker", m[0])
        if d:
            facts["tick"] = {"expr": m[0], "lean": d[0], "ns": d[1]}
    ok = "window" in facts and "tick" in facts
    if ok:
        ctx.gen("C17", "namespace Whv.Gen.C17\n\n"
                "/-- from %s: `now.Sub(t) > %s` (nanoseconds) -/\ndef windowNs : Nat := %s\n\n"
                "/-- from %s: `clock.Ticker(%s)` (nanoseconds) -/\ndef tickNs : Nat := %s\n\n"
                "end Whv.Gen.C17\n" % (SRC, facts["window"]["expr"], facts["window"]["lean"],
                                       SRC, facts["tick"]["expr"], facts["tick"]["lean"]))
    ctx.cov["gen_facts"] = facts
    return facts if ok else None


# never let `go test` rewrite /repo/node/go.mod (vlib sets GOFLAGS=-mod=mod; the command-line flag wins)
READONLY = ("-mod=readonly",)


def classify(clause, case, verdict):
    return clause


def run(ctx):
    facts = gen(ctx)
    ctx.prove(families=("reobserve", "processor"))
    env = {}
    if facts:
        env = {"VERIF_C17_WINDOW_NS": str(facts["window"]["ns"]), "VERIF_C17_TICK_NS": str(facts["tick"]["ns"])}

    total = 0
    samples = []
    tot = {}
    # ---- 1. the dispatcher loop
    ov = ctx.overlay({"node/cmd/guardiand/zz_verif_c17_test.go": "guardiand/c17_reobserve_verif_test.go"}, p2p_stub=True)
    if ov is not None:
        rc, out = ctx.go_test("node", "./cmd/guardiand", "^TestVerifC17Reobserve$", ov, env=env, extra=READONLY)
        cases = os.path.join(ctx.work, "reobserve.cases")
        if rc != 0 or not os.path.exists(cases):
            ctx.broken.append(("tie", "go-harness:guardiand", out[-800:]))
        else:
            n_ok, stats = ctx.judge("reobserve", cases, classify)
            tot = dict(stats)
            kinds = {}
            burst_sampled = False
            with open(cases) as f:
                for ln in f:
                    p = ln.split(" ", 2)
                    total += 1
                    if p[0] == "reset":
                        k = p[1].rstrip("0123456789")
                        kinds[k] = kinds.get(k, 0) + 1
                    if p[0] == "adminpost":
                        kinds["adminpost"] = kinds.get("adminpost", 0) + 1
                        if len(samples) < 2 and "fill=50" in ln:
                            samples.append(ln.strip())
                    if p[0] in ("req", "tick", "drain") and len(samples) < 6 and total % 97 == 3:
                        samples.append(ln.strip()[:300])
                    if p[0] == "burst" and not burst_sampled and " d=00000 " in ln:
                        burst_sampled = True
                        samples.append(ln.strip()[:300])
            ctx.cov["generator_distribution"] = kinds
            ctx.cov["distinct_nontrivial"] += n_ok
    # ---- 2. PostObservationRequest
    ov2 = ctx.overlay({"node/pkg/common/zz_verif_c17_post_test.go": "common/c17_post_verif_test.go"})
    rc, out = ctx.go_test("node", "./pkg/common", "^TestVerifC17Post$", ov2, extra=READONLY)
    cases2 = os.path.join(ctx.work, "reobserve_post.cases")
    if rc != 0 or not os.path.exists(cases2):
        ctx.broken.append(("tie", "go-harness:common", out[-800:]))
    else:
        n_ok, stats = ctx.judge("reobserve", cases2, classify)
        for k, v in stats.items():
            tot[k] = tot.get(k, 0) + v
        ctx.cov["driver_stats"] = tot      # judge() overwrites driver_stats per call: keep the sum of both runs
        with open(cases2) as f:
            lines = f.readlines()
        total += len(lines)
        samples += [l.strip() for l in lines[:2]]
        ctx.cov["distinct_nontrivial"] += n_ok
    ctx.cov["evaluations"] += total
    ctx.cov["samples"] += samples
    # ---- 3. the caller named in the anchors (processor/cleanup.go): a retry tick posts its re-observation request without
    # blocking - clause cleanup-blocked-on-full-request-queue on the processor scenarios (ticks with 0..2 free slots, the
    # full-queue family); a handler that does not return within the harness' deadline is reported, never waited for; and
    # "fails immediately": clause cleanup-stalled-on-full-request-queue (`stall` line of the full-queue family)
    from checks import proccommon
    keep = {k: ctx.cov.get(k) for k in ("generator_distribution", "driver_stats")}
    proccommon.run_processor(ctx, "C17", "")
    ctx.cov["generator_distribution"] = {"reobserve": keep["generator_distribution"], "processor": ctx.cov.get("generator_distribution")}
    ctx.cov["driver_stats"] = keep["driver_stats"]
    # ---- 4. the watcher's end of a per-chain request channel (observe_at): the Alephium watcher's request queue, owned by the
    # harness - nothing may arrive there that the dispatcher did not forward (clause reobs-request-requeued; family alphwatch)
    from checks import alphwatchcommon
    alphwatchcommon.run_reobs_for_c17(ctx)
    ctx.cov["rule"] = ("sessions on the real handleReobservationRequests loop (harness-owned clock; the ticker channel is driven by the "
                       "harness with the period the loop asked for; After/Timer/Sleep/AfterFunc on that clock are live and fire when the "
                       "harness advances time): window-boundary sessions (forward at ticker phases around "
                       "2P-W and 3P-W, ticks at k*P and at forward+W+{-2..2} ns, the same request repeated after every tick), every "
                       "fill level of watcher queues of capacity 0..4 and 50 (drop, free a slot, repeat), `late` sessions (requests dropped "
                       "on a full queue of capacity 1..3 and 50 and for an unwatched chain; the queue is drained at once / after 1 s / after "
                       "6 s; the clock is stepped to +1 ns, 1 s, 5 s, 6 s, 10 s, 1 min (+-1 ns), the ticker period, the window +-1 ns, window + "
                       "period and beyond with the due purge ticks; the request is repeated never / once at 1 s / after every step / once "
                       "at 6 s; every queue recorded after every step and everything that arrives identified), unknown-chain sessions "
                       "(watcher added later), random interleavings over chains / transactions / chain ids above 16 bits / ticks / clock "
                       "advances / drains / watcher-map changes; SCALE sessions (300 / 1100 / 2500, thorough also 6000 / 20000 DISTINCT (chain, "
                       "transaction) pairs forwarded within a quarter of one window over three watcher queues (capacity 50 / 25 / 7) that are "
                       "drained as they fill, one burst in six overfilling its queue by 1-2 requests that are repeated once there is room, "
                       "purge ticks as due, repeats of earlier pairs on the way; then 21 early / middle / late / random pairs repeated right "
                       "after the last forward and at the last instant of the first pair's window - nothing may be forwarded - and, after "
                       "every window has lapsed and the due purge tick was handled, once more - each forwarded once - and again - suppressed; "
                       "written as `burst` / `rdrain` lines, a lossless abbreviation of the req / drain lines: every request is followed by a "
                       "barrier and a look at every queue, every drained item is in the file and replayed); the admin entry point SendObservationRequest (in-process service value) "
                       "on outbound queues of capacity 50, 0..3, 7 at EVERY fill level 0..cap, callers with a context without deadline and "
                       "with a one-hour deadline, plus queues filled call by call through the entry point (the calls on full queues run "
                       "concurrently under one 10 s watchdog: a call that has not returned is reported, never waited for; on a queue with "
                       "room the caller's request must be the last entry, unchanged, the earlier entries untouched); plus "
                       "PostObservationRequest on every fill level of capacities 0..5, 49..51 and "
                       "random ones. evaluations = case lines; distinct_nontrivial = sessions (and post calls) on which model and "
                       "implementation agreed on every queue length and every drained item and the Spec held on the implementation's own "
                       "behaviour - including: nothing arrived on a watcher queue that a request of the session had not forwarded, and "
                       "at-most-once per window counted over every delivery of the session; plus the Alephium watcher's request queue "
                       "(alphwatchcommon.run_reobs_for_c17: the real handleObsvRequest loop on a queue of production capacity that the harness owns, one "
                       "forwarded request at a time while each kind of node request of the re-observation path fails once / three times and "
                       "recovers, ~250 generated single-request cases; whatever else is on the queue after the request was handled is recorded)")
    ctx.cov["trusted_base"] += [
        "harness/guardiand/c17_reobserve_verif_test.go: c17Clock (Now() set by the harness; Ticker(d) returns a ticker whose channel the harness drives, d is recorded and compared with the extracted period; every other timer of the clock is served by a benbjohnson/clock mock created at the harness' time when first armed and moved by Mock.Set on every advance), barrier-request synchronisation, Whv/Driver/Reobserve.lean (comparison + Spec ghost state, stray-arrival accounting); the `burst` / `rdrain` abbreviation of scale sessions (harness: a request goes into a burst line only if it was taken and nothing but the named chain's queue changed while it was handled, anything else is written as the req line it is; driver: expands every burst into its requests and every run into its items)",
        "the admin entry point is called on a nodePrivilegedService value holding only the outbound queue and a logger (the fields SendObservationRequest uses); the gRPC transport in front of it is not exercised",
        "checks/c17.py regexes locating the two durations in reobserve.go (the ticker period is cross-checked against the value the compiled loop passes to clock.Ticker; the window against boundary sessions at +-1 ns)",
        "generated p2p stub (only the body of p2p.Run is removed) so that cmd/guardiand compiles",
        "Go runtime semantics of select/default on buffered channels (exercised at every fill level, not modelled)",
    ]
    ctx.cov["trusted_base"] += [
        "clause cleanup-stalled-on-full-request-queue (processor full-queue family) is the one verdict decided by a measured duration: the shorter of two successive handleCleanup calls with a full request queue and four retransmissions due must stay below 1.5 s (pinned code: 0 ms)",
    ]
    ctx.assumptions += [
        "non-blocking is observed, not proved, on the Go side: every send to the dispatcher, every PostObservationRequest call and every SendObservationRequest call returned within the harness timeout (10 s); the Lean theorems show the model performs a send only when the queue has room",
        "deferred deliveries are looked for on the dispatcher's own clock (steps up to two windows + one ticker period after a drop) - code that waits on the wall clock instead (time.After) is outside what a mock clock can see within the tier's time",
        "the ticker is modelled as an arbitrary monotone sequence of tick times (late or dropped ticks included); c17_again_after_window needs one handled tick later than forward + window",
        "ObservationRequest.ChainId is a uint32 narrowed to the 16-bit vaa.ChainID: 'the chain it names' is chain_id mod 2^16 (model and Spec follow the code here)",
        "a nil *ObservationRequest on the channel (never produced by p2p or the admin RPC) would panic the loop; not exercised because a panic in the dispatcher goroutine cannot be recovered by the harness",
    ]
