"""C06 - signature verification accepts exactly valid, ordered, in-set signatures."""
from checks import vaacommon, proccommon


def run(ctx):
    ctx.prove(families=("vaa", "processor"))
    vaacommon.run_vaa(ctx, "c06", ("ver",))
    ctx.cov["rule"] = ("guardian lists of length 0..255 (quick: 11 sizes; thorough: every size), with and without repeated addresses; a valid "
                       "ascending signer subset and 20+ single-step corruptions (swap, duplicate, re-index, index 255 / = len, outsider, other member, "
                       "bit flip, bad recovery id, zero signature, body flip, short/empty/longer list, too many signatures, repeated key) through the real "
                       "VerifySignatures; recover oracle = independent crypto.Ecrecover per (digest, signature)")
    ctx.cov["trusted_base"] += ["secp256k1 recovery and Keccak-256 are oracles (go-ethereum), supplied to the model as a finite table per case"]
    # the call site in the processor (anchor node/pkg/processor/observation.go): an inbound VAA is stored iff verification
    # against the node's CURRENT guardian list succeeds - clause stored-vaa-not-quorum-verifiable, and the model comparison on every
    # `inb` line (a valid VAA that is rejected shows up as a diff)
    rule, dist = ctx.cov["rule"], ctx.cov.get("generator_distribution")
    proccommon.run_processor(ctx, "C06", "")
    ctx.cov["rule"] = rule + " | processor call site: " + ctx.cov["rule"][:400]
    ctx.cov["generator_distribution"] = {"vaa": dist, "processor": ctx.cov.get("generator_distribution")}
