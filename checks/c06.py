"""C06 - signature verification accepts exactly valid, ordered, in-set signatures."""
from checks import vaacommon


def run(ctx):
    ctx.prove(families=("vaa",))
    vaacommon.run_vaa(ctx, "c06", ("ver",))
    ctx.cov["rule"] = ("guardian lists of length 0..255 (quick: 11 sizes; thorough: every size), with and without repeated addresses; a valid "
                       "ascending signer subset and 20+ single-step corruptions (swap, duplicate, re-index, index 255 / = len, outsider, other member, "
                       "bit flip, bad recovery id, zero signature, body flip, short/empty/longer list, too many signatures, repeated key) through the real "
                       "VerifySignatures; recover oracle = independent crypto.Ecrecover per (digest, signature)")
    ctx.cov["trusted_base"] += ["secp256k1 recovery and Keccak-256 are oracles (go-ethereum), supplied to the model as a finite table per case"]
