"""C06 - signature verification accepts exactly valid, ordered, in-set signatures."""
from checks import vaacommon, proccommon, c19


def run(ctx):
    ctx.prove(families=("vaa", "processor", "explorer"))
    vaacommon.run_vaa(ctx, "c06", ("ver", "wver"))
    ctx.cov["rule"] = ("guardian lists of length 0..255 (quick: 11 sizes; thorough: every size), with and without repeated addresses; a valid "
                       "ascending signer subset and 20+ single-step corruptions (swap, duplicate, re-index, index 255 / = len, outsider, other member, "
                       "bit flip, bad recovery id, zero signature, body flip, short/empty/longer list, too many signatures, repeated key) through the real "
                       "VerifySignatures; recover oracle = independent crypto.Ecrecover per (digest, signature); repeated-address lists: the address of "
                       "position a also at b for every pair a<b (lists up to 20; boundary/random pairs above) and triples, signatures claiming the first / "
                       "second / both positions, alone and among other signers; wver: the same VAAs on the wire path (hand-encoded bytes -> Unmarshal -> "
                       "VerifySignatures), Spec = Valid on the signature records read off the bytes in wire order (reversed / rotated / swapped lists); "
                       "ver-concurrent: verification results obtained while other goroutines hash, encode and verify (child process); signature ENCODINGS: the "
                       "second encoding (r, N-s, v^1) of one / the first / the last / every second / a random subset / all signatures of a valid list "
                       "(oracle-checked to recover to the same guardian), next to its original, re-indexed, swapped, over another body, of an outsider, "
                       "half twins; guardian lists built FROM crafted (r, s, v), v in {0,1}, that the oracle recovers: s in {1, 2, 255, 256, 2^128, "
                       "2^248-1, 2^255-1, 2^255, 2^255+1, N/2-1 .. N/2+2, N-2, N-1, random}, r genuine / 1..31 leading zero bytes / top bit set / "
                       "just below N, alone, among genuine signers and all-crafted lists; r or s = 0, = N, > N, r off the curve against lists holding "
                       "the zero address")
    ctx.cov["trusted_base"] += ["secp256k1 recovery and Keccak-256 are oracles (go-ethereum), supplied to the model as a finite table per case"]
    # the call site in the processor (anchor node/pkg/processor/observation.go): an inbound VAA is stored iff verification
    # against the node's CURRENT guardian list succeeds - clause stored-vaa-not-quorum-verifiable, and the model comparison on every
    # `inb` line (a valid VAA that is rejected shows up as a diff)
    rule, dist = ctx.cov["rule"], ctx.cov.get("generator_distribution")
    proccommon.run_processor(ctx, "C06", "")
    ctx.cov["rule"] = rule + " | processor call site: " + ctx.cov["rule"][:400]
    ctx.cov["generator_distribution"] = {"vaa": dist, "processor": ctx.cov.get("generator_distribution")}
    # the call site in the explorer (anchor explorer-backend/processor/vaa_gossip_consumer.go): what verifyVAA / Push let through must be
    # a signature list VerifySignatures accepts against the named set - clause gate-accepts-invalid-signature-list (all other clauses
    # of the explorer family are C19's); the model comparison applies to every gate line
    rule, dist = ctx.cov["rule"], ctx.cov.get("generator_distribution")
    gate = c19.run_gate_for_c06(ctx)
    ctx.cov["rule"] = rule + (" | explorer call site: verifyVAA (module-cache node version) directly and through Push on fresh consumers: 10 set sizes x "
                              "17 corruption kinds, and a valid quorum followed by 1..3 surplus bad signatures (outsider key, repeated index, lower "
                              "index, index >= set size, random/zero bytes) for every set size")
    dist["explorer_gate"] = gate
    ctx.cov["generator_distribution"] = dist
    ctx.cov["trusted_base"] += ["harness/explorer/push_verif_test.go (gate cases) and Whv/Driver/Explorer.lean for the explorer call site"]
