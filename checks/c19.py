"""C19 - the explorer ingests only VAAs verified against the guardian set they name."""
import os
import re

import vlib

OVERLAY = {
    "explorer-backend/guardiansets/zz_verif_gs_test.go": "explorer/gs_verif_test.go",
    "explorer-backend/guardiansets/zz_verif_export.go": "explorer/gs_verif_export.go",
    "explorer-backend/processor/zz_verif_push_test.go": "explorer/push_verif_test.go",
}

# Spec clauses of the explorer family that C06 also reports (its anchor explorer-backend/processor/vaa_gossip_consumer.go): "the explorer's
# verification gate accepted a signature list that VerifySignatures against the named set rejects". Everything else is C19's alone.
C06_CLAUSES = ("gate-accepts-invalid-signature-list",)


C07_CLAUSES = ("explorer-accepts-below-quorum",)


def run_gate_for(ctx, clauses):
    """run_gate_for_c06 with another set of owned clauses (C07: the explorer's quorum threshold)"""
    global C06_CLAUSES
    saved = C06_CLAUSES
    C06_CLAUSES = clauses
    try:
        return run_gate_for_c06(ctx)
    finally:
        C06_CLAUSES = saved


def run_gate_for_c06(ctx):
    """The verification-gate cases of the explorer harness (verifyVAA directly and through Push on fresh consumers, one message id per
    VAA), judged by drv_explorer; only the clauses in C06_CLAUSES are kept - the others are C19's business (its own check reports them)."""
    ov = ctx.overlay(OVERLAY)
    cases = os.path.join(ctx.work, "explorer_gate.cases")
    rc, out = ctx.go_test("explorer-backend", "./processor", "^TestVerifGate$", ov, timeout=240 if ctx.tier == "quick" else 1500)
    if rc != 0 or not os.path.exists(cases):
        ctx.broken.append(("tie", "go-harness:explorer_gate.cases", out[-800:]))
        return
    before = len(ctx.spec_violations)
    n_ok, stats = ctx.judge("explorer", cases)
    kept, foreign = [], 0
    for v in ctx.spec_violations[before:]:
        if v["key"] in C06_CLAUSES:
            kept.append(v)
        else:
            foreign += 1
    ctx.spec_violations[before:] = kept
    if foreign:
        ctx.notes.append("%d explorer Spec verdicts for clauses of C19 were left to its own check" % foreign)
    kinds, samples = {}, []
    with open(cases) as f:
        for ln in f:
            op = ln.split(" ", 1)[0]
            kinds[op] = kinds.get(op, 0) + 1
            if "kind=extra-" in ln and len(samples) < 2:
                samples.append(ln.strip()[:400])
    ctx.cov["evaluations"] += sum(kinds.values())
    ctx.cov["distinct_nontrivial"] += n_ok
    ctx.cov["samples"] += samples
    return kinds


RACE_HDR = re.compile(r"^(Read|Write|Previous read|Previous write) at 0x[0-9a-f]+ by (?:main )?goroutine \d+:\s*$")


def parse_races(out):
    """Race-detector reports in `go test -race` output -> [(kind_a, func_a, kind_b, func_b)]."""
    races = []
    for block in out.split("=================="):
        if "WARNING: DATA RACE" not in block:
            continue
        lines = block.split("\n")
        acc = []
        for i, ln in enumerate(lines):
            m = RACE_HDR.match(ln.strip())
            if not m:
                continue
            # frames of this access: "  func()" / "      file:line" pairs up to the next blank line; the access is attributed to the
            # innermost frame inside the anchored type (the top frame may be a runtime helper such as runtime.slicecopy under append)
            frames = []
            j = i + 1
            while j < len(lines) and lines[j].strip():
                if not lines[j].startswith("      "):
                    frames.append(re.sub(r"\(\)$", "", lines[j].strip()).split("/")[-1])
                j += 1
            fn = next((f for f in frames if "guardiansets.(*GuardianSets)" in f), frames[0] if frames else "?")
            acc.append((m.group(1).replace("Previous ", "").lower(), fn))
        if len(acc) >= 2:
            races.append((acc[0][0], acc[0][1], acc[1][0], acc[1][1]))
        else:
            races.append(("?", "?", "?", "?"))
    return races


def node_module_version(ctx):
    rc, out, _ = vlib.sh(["go", "list", "-m", "github.com/alephium/wormhole-fork/node"],
                         cwd=os.path.join(vlib.REPO, "explorer-backend"), env=vlib.GOENV, timeout=120)
    return out.strip().split("\n")[-1] if rc == 0 else "unknown (%s)" % out.strip()[-120:]


def run(ctx):
    ctx.prove(families=("explorer",))
    ov = ctx.overlay(OVERLAY)
    cases = os.path.join(ctx.work, "explorer.cases")
    parts = []

    # 1. sequential correspondence: guardiansets + processor (real Push / verifyVAA / Deduplicator / GuardianSets)
    # (TestVerifGsHist comes first in the file: the histories it writes - start-up, far-ahead, overtaken lookups, reordered answers -
    # are complete and flushed before TestVerifGs starts the real ticker goroutine, whose panics nobody can recover)
    rc, out = ctx.go_test("explorer-backend", "./guardiansets", "^TestVerif(GsHist|Gs|Push)$", ov, extra=("./processor",),
                         timeout=240 if ctx.tier == "quick" else 1500)
    for name in ("explorer_hist.cases", "explorer_gs.cases", "explorer_push.cases"):
        p = os.path.join(ctx.work, name)
        if rc != 0 or not os.path.exists(p):
            ctx.broken.append(("tie", "go-harness:" + name, out[-800:]))
            # the harness died (a panic in a goroutine of the code under test ends the test binary): what the history test had
            # written by then is still judged, so that the run names a failing input and not only the broken tie
            hist = os.path.join(ctx.work, "explorer_hist.cases")
            if os.path.exists(hist) and os.path.getsize(hist) > 0:
                txt = open(hist).read()
                txt = txt[:txt.rfind("\n") + 1]
                open(cases, "w").write(txt)
                ctx.judge("explorer", cases)
                ctx.cov["evaluations"] += txt.count("\n")
            return
        parts.append(p)

    # 2. the atomicity assumption of the coarse model: concurrent lookups during appends, under the race detector
    rc, out = ctx.go_test("explorer-backend", "./guardiansets", "^TestVerifGsRace$", ov, race=True, timeout=240 if ctx.tier == "quick" else 1500)
    races = parse_races(out)
    in_code = [r for r in races if "guardiansets.(*GuardianSets)" in r[1] and "guardiansets.(*GuardianSets)" in r[3]]
    other = [r for r in races if r not in in_code]
    race_cases = os.path.join(ctx.work, "explorer_race.cases")
    if not os.path.exists(race_cases) or (rc != 0 and not races):
        ctx.broken.append(("tie", "go-harness:race", out[-800:]))
        return
    if other:
        ctx.broken.append(("tie", "race-outside-anchored-code", repr(other[:3])))
    with open(race_cases, "a") as f:
        if in_code:
            reads = sorted(set(r[1] for r in in_code if r[0] == "read") | set(r[3] for r in in_code if r[2] == "read"))
            writes = sorted(set(r[1] for r in in_code if r[0] == "write") | set(r[3] for r in in_code if r[2] == "write"))
            f.write("gsrace race1 detected=%d read=%s write=%s\n" % (len(in_code), ",".join(reads) or "-", ",".join(writes) or "-"))
            i = out.find("WARNING: DATA RACE")
            ctx.notes.append("first race report:\n" + out[i:i + 1800])
        else:
            f.write("gsrace race1 detected=0 read=- write=-\n")
    parts.append(race_cases)

    kinds = {}
    samples = []
    with open(cases, "w") as g:
        for p in parts:
            with open(p) as f:
                for ln in f:
                    g.write(ln)
                    op = ln.split(" ", 1)[0]
                    kinds[op] = kinds.get(op, 0) + 1
                    if kinds[op] <= 1 and len(samples) < 12:
                        samples.append(ln.strip()[:400])
    n_ok, stats = ctx.judge("explorer", cases)
    ctx.cov["evaluations"] += sum(kinds.values())
    ctx.cov["distinct_nontrivial"] += n_ok
    ctx.cov["samples"] += samples
    ctx.cov["generator_distribution"] = kinds
    ctx.cov["race_reports"] = len(races)
    ctx.cov["node_module_linked_by_explorer"] = node_module_version(ctx)
    ctx.cov["rule"] = (
        "guardiansets histories (everything through the real entry points, every index looked up after every step): start-up as main.go does it "
        "(GetGuardianSetsFromChain(0) -> NewGuardianSets) over 2-6 sets and a catch-up of 2-4 sets in one fetch (ticker's body / lookup of the newest "
        "index / both), twice behind a gate of the fake node that holds the requests and answers simultaneous ones highest index first (a client "
        "asking for one set after the other only ever has one request held: two grace periods of 150 ms per probe, never gated again); a chain "
        "8, 9, 10, 16, 17, 33 and a random 9-36 sets ahead of an explorer that knows 1-3 sets - one far-ahead lookup, then every index of the chain; "
        "lookups of index current+2..4 whose first chain request is held at the gate while a lookup of a lower / the same / a higher new index, "
        "the ticker's body, two lookups, a lookup and the ticker's body, or a failing lookup run to completion (overlapping, repeated, contained "
        "batches: driver form getGuardianSetStale with the `current` read earlier); on-demand lookups of index current+1..3 for which one request "
        "of the range (first / last / middle) fails 1-3 times - RPC error, HTTP 503, an undecodable or an empty result, endpoint not dialled - "
        "repeated until the node answers again, every known index looked up after every attempt. "
        "guardiansets: op sequences on the real GuardianSets against a fake JSON-RPC chain - 'realistic' sequences (NewGuardianSets on a "
        "chain prefix, then contiguous updates starting <= current+1, lookups of old/current/future/non-existent indexes with RPC and dial "
        "failures, GetGuardianSetsFromChain, one round of the real ticker goroutine) on which the Spec is evaluated, and 'adversarial' "
        "sequences (arbitrary states, gaps, late starts, repeated targets, indexes near 2^32, current=-1) judged for the model tie only; "
        "processor: per round 10 set sizes x 6 kinds x 1..3 surplus bad signatures after a valid quorum (outsider key, repeated index, lower index, "
        "index >= set size, random/zero bytes, one more valid one then bad ones) and quorum+0..2 valid ones, through verifyVAA directly and through "
        "Push on fresh consumers; 4 forged-copy sequences: for each of 7 forging kinds (unsigned, outsiders, the genuine signatures on another "
        "payload, under-signed, renamed set, same body with outsiders' signatures, one outsider) the history [genuine VAA, queue full -> hand-off "
        "fails] [forged copy with the same message id, room] [genuine retry] [forged copy while the id is marked] [dedup entry expires] [two forged "
        "copies] [genuine again]; 40 Push sequences (quick) of 8-17 VAAs each over chains of 2-5 guardian sets of clearly different sizes (1,2,4,7,13,19: growing, "
        "shrinking, alternating, random) - VAAs naming old/current/future sets with exactly quorum(named)-1, quorum(named), quorum(current)-1, "
        "quorum(current) valid signatures of the named set, exact quorum, all, one short, unsigned, "
        "outsider, quorum of another set, body altered, duplicate signer, swapped, re-indexed, out-of-range index, bad recovery id, too many, "
        "set unknown to the chain, surplus bad signatures, repeats of earlier message ids and forged copies of them - with the queue full / one slot left / empty and the dedup cache "
        "honest, erroring, forgetting or answering arbitrarily; verifyVAA directly (through reflection, only while its signature is unchanged) incl. "
        "nil / empty / short address lists; CalculateQuorum(0..255); histories (also part of the gate cases C06 / C07 judge): 6 worlds (strictly growing / "
        "strictly shrinking size ladders, 1-key bootstrap sets followed by 19-key sets) in which a Push naming set current+2..3 is held at the fake "
        "node's gate while Pushes naming a lower / the same / a higher new set (or two, or a cross-signed one) complete, and a chain 9-12 sets ahead "
        "(growing and shrinking ladder); after each, for every known set an exact-quorum VAA of its own guardians and VAAs naming it that carry "
        "exactly a quorum of each OTHER known set's guardians under their own indexes (any displacement of a set within the list lets one through); "
        "failed on-demand lookups right after a set change: 9 worlds of sets that share their low positions with the predecessor (1 -> 19 keeping key 0, "
        "extension ladders, prefixes, same size with 1 or 6 members replaced, up-and-down; the explorer holds 1-4 sets), a VAA naming set current+1..3 "
        "whose lookup fails at the first / last / middle request of the range (RPC error, HTTP 503, undecodable result, empty result, endpoint not "
        "dialled) for the next 1 / 2 / all lookups of a window of VAAs naming that set - exactly a quorum of the newest / the previous / the oldest "
        "stored set's guardians, a complete one, the named set's own low positions as many as the newest stored set's quorum - pushed while the "
        "lookup fails and again after it recovered, then every known set probed. The Spec 'queued => signed, quorum of the NAMED set, Valid signatures' is "
        "evaluated on what appeared on the queue, independently of the model. "
        "concurrency: 4 reader goroutines (GetGuardianSet of published, published-1, published+1; GetCurrentGuardianSet) against 2 "
        "updateGuardianSets writers, every result checked, under -race. distinct_nontrivial = lines on which model and implementation "
        "agreed on result, effects, chain requests and state, and the Spec held on the implementation's own result")
    ctx.cov["trusted_base"] += [
        "harness/explorer/*.go (generators, fake JSON-RPC chain, recording cache, verif-only state accessor) and Whv/Driver/Explorer.lean (comparison, Spec evaluation)",
        "secp256k1 recovery and Keccak-256 are oracles (go-ethereum), supplied per case",
        "Go scheduling is modelled as interleaving of atomic reads/writes (Whv.Explorer.Fine); data-race freedom of the real code is observed with the Go race detector, not proved",
        "explorer-backend links node/pkg/{vaa,processor,common,ethereum/abi} from the module cache (%s), not /repo/node: the harness runs exactly that code" % ctx.cov["node_module_linked_by_explorer"],
    ]
    ctx.assumptions += [
        "the chain contract answers getGuardianSet(i) with the key list of set i (getGuardianSetsFromChain labels the answer with the index it asked for)",
        "GetGuardianSet for an index of 2^32-1 is outside the model (the Go fetch loop's uint32 counter wraps and never terminates)",
        "the dedup cache is an arbitrary function of its history (expiry, eviction); 'not marked as seen' is about Deduplicator.Apply's own Set call",
    ]
