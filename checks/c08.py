"""C08 - Alephium messages reach the signer only when final and from the token bridge."""
from checks import alphwatchcommon


def run(ctx):
    alphwatchcommon.private_work(ctx)
    ctx.prove(families=("alphwatch",))
    alphwatchcommon.run_alphwatch(ctx, "c08")
    ctx.cov["rule"] = (
        "conf/dur: isEventConfirmed / getConfirmationDuration on exact boundaries (height and clock +-1, cl 0..255, int32/int64 edges); "
        "hconf: handleConfirmedEvents on lists with foreign / near-miss senders and unknown event indices; poll: the real handleEvents "
        "loop fed with batches and height ticks against the fake node (reorg flags flipping per tick, stalls, steps back, API errors, "
        "blocks old / future / between floors); pipe: the same behind the real fetchEvents; reobs: one re-observation request through "
        "the real handleObsvRequest (foreign contracts in the same tx, events of a second block, tx status of every kind, API errors at "
        "every call, heights at the boundary, young blocks, mainnet or not, mismatching attestations). distinct_nontrivial = cases where "
        "model and implementation agree on every observable and the Spec holds on the implementation's result. Half of the poll cases and all "
        "pipe cases get their heights from the real fetchHeight polling the fake node (heights go up and fall back; `height=` in a line is what "
        "the node reported last, the finality clause is judged against it, `passed=` is what reached the event loop); transactions publish "
        "bursts of 2-4 messages in one block (foreign then token-bridge sender, across page boundaries); attestations include near-miss "
        "encodings (zero byte inside a string, leading/trailing space, case, byte after a NUL) judged with the contract's padding rule"
        "; rst: restart scenarios - the real loops are stopped by a node API error (failing count poll right after a hand-over / after "
        "the forward, a failing page request after the count poll or between two pages, a main-chain / header / chain-info error in "
        "the event loop or the height poller) or cancelled while healthy, and started again on the SAME Watcher value with fresh "
        "channels as Watcher.Run does (events appended while down, a restart that fails at once, up to 3 restarts in a random walk); "
        "everything forwarded by all incarnations is judged per position of the governance contract's event log "
        "(poll-forwarded-twice, shared with C09); meta: see C09"
        "; shipped configurations: about a third of all lives / re-observation cases run a Watcher built by NewAlephiumWatcher from "
        "configs/alephium/{mainnet,testnet,devnet}.json as read by common.ReadConfigsByNetwork (isMainnet = network == mainnet, the call "
        "node.go makes; `ctor=` in the line, named in the floor verdicts), conf / dur also after a constructor call per network (`net=`); "
        "paths: one life per configuration source serves the polling path and re-observation requests for the same events - transfers "
        "with levels around every small integer the shipped files contain and around 205, each in blocks whose age lies in every gap "
        "between two candidate floors (>= 12 min clear) and beyond all of them; pgf: see C09"
        "; every route by which an event becomes a pending one is the production route: poll / paths batches go through the watcher's own "
        "handleUnconfirmedEvents (wbatch evs -> out; only events with an event index other than 0, which that route never delivers, are built by "
        "hand), hconf builds its pending events with Watcher.toUnconfirmedEvent; deliveries are attributed to the served events and tracked "
        "with the EVENT's own message (delivered-altered, shared with C11); one verdict line per clause and case; cdip: see C09; rfail: one life "
        "serves re-observation requests while ONE kind of node request of that path (status, events by tx id, header, main chain, height) "
        "fails once / three times and then answers again - the harness plays the dispatcher on a request queue of production capacity it owns "
        "(a sentinel request behind each request is the barrier) and records whatever else the queue holds afterwards, also in every reobs / "
        "wreobs case and at every restart (reobs-request-requeued, shared with C17)"
        "; mchg: metadata-change histories - token X answers healthily and the token bridge's attestation of X is validated and forwarded "
        "(polling path, a re-observation request, or both; sometimes a foreign sender's faithful attestation-shaped event is validated first, "
        "sometimes Run is restarted on the same Watcher), then X's contract answers differently (another symbol / name / decimals, all three, "
        "or failing calls), now and then a second time (something else, or back to the first values); after each change attestations of the "
        "EARLIER values (same payload bytes or re-encoded, the first transaction re-observed) must be dropped on both paths "
        "(attest-mismatch-admitted, reobs-attest-mismatch) and attestations of what X reports NOW must come out (C09: wellformed-event-dropped, "
        "reobs-wellformed-event-dropped); lives with the real fetch loop and lives handing pages to handleUnconfirmedEvents directly")
