"""C08 - Alephium messages reach the signer only when final and from the token bridge."""
from checks import alphwatchcommon


def run(ctx):
    ctx.prove(families=("alphwatch",))
    alphwatchcommon.run_alphwatch(ctx, "c08")
    ctx.cov["rule"] = (
        "conf/dur: isEventConfirmed / getConfirmationDuration on exact boundaries (height and clock +-1, cl 0..255, int32/int64 edges); "
        "hconf: handleConfirmedEvents on lists with foreign / near-miss senders and unknown event indices; poll: the real handleEvents "
        "loop fed with batches and height ticks against the fake node (reorg flags flipping per tick, stalls, steps back, API errors, "
        "blocks old / future / between floors); pipe: the same behind the real fetchEvents; reobs: one re-observation request through "
        "the real handleObsvRequest (foreign contracts in the same tx, events of a second block, tx status of every kind, API errors at "
        "every call, heights at the boundary, young blocks, mainnet or not, mismatching attestations). distinct_nontrivial = cases where "
        "model and implementation agree on every observable and the Spec holds on the implementation's result")
