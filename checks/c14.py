"""C14 - see DESIGN.md §7 C14; processor family. Whv/Gen/Proc.lean (Run's select arms, cleanup thresholds) is regenerated here."""
from checks import proccommon, procgen


def gen(ctx):
    return procgen.gen(ctx)


def run(ctx):
    facts = gen(ctx)
    ctx.cov["gen_facts"] = facts
    if facts is not None:
        ctx.prove(families=("processor",))
    proccommon.run_processor(ctx, "C14", "SCALE (C14 only): floodFamily - an own signed entry below quorum, then 10 050 valid observations by one "
                             "guardian for distinct digests never observed locally written as ONE `flood` line (expanded by the driver into the observations it stands for and "
                             "replayed through the model; the state after the last one is compared), ticks at +299 s / +300 s / "
                             "+300 s. 'still lacks quorum' in the C14 clauses is a fact about the history (no quorum VAA published by the node for "
                             "the digest and none stored), not the entry's own `submitted` flag. Store-unavailable ticks (badger handle closed for the "
                             "duration of handleCleanup) in two soaks; soaks with stalls of 61 min and of 7 min / 3 h / 299 s / 26 h / 301 s between ticks.")
