"""Source facts of node/pkg/processor that the processor model takes for granted: which handler each arm of Run's select calls,
and the numeric thresholds of cleanup.go. Written to lean/Whv/Gen/Proc.lean; Whv/Props/C13.lean and C14.lean compare them with the
model by `decide`."""
import os, re
import vlib

PROC = "node/pkg/processor/processor.go"
CLEAN = "node/pkg/processor/cleanup.go"
DUR = {"time.Second": 10**9, "time.Minute": 60 * 10**9, "time.Hour": 3600 * 10**9, "time.Millisecond": 10**6}


def dur(expr):
    m = re.match(r"^\s*(?:(\d+)\s*\*\s*)?(time\.\w+)(?:\s*\*\s*(\d+))?\s*$", expr)
    if not m or m.group(2) not in DUR:
        return None
    k = int(m.group(1) or m.group(3) or 1)
    return k * DUR[m.group(2)]


def gen(ctx):
    src = vlib.read(os.path.join(vlib.REPO, PROC))
    m = re.search(r"func \(p \*Processor\) Run\(ctx context\.Context\) error \{(.*?)\n\}\n", src, re.S)
    if not m:
        ctx.gen_fail("Proc", "Processor.Run not found in " + PROC); return None
    body = m.group(1)
    arms = []
    for am in re.finditer(r"case\s+(?:(\w+)\s*:=\s*)?(?:(p\.gs)\s*=\s*)?<-\s*([\w\.\(\)]+):\s*\n(.*?)(?=\n\t\tcase |\n\t\t\}|\Z)", body, re.S):
        var, assign, chan, code = am.group(1), am.group(2), am.group(3), am.group(4)
        call = re.search(r"p\.(handle\w+)\(ctx(?:,\s*(\w+))?\)", code)
        if chan == "ctx.Done()":
            arms.append((chan, "return"))
        elif assign:
            arms.append((chan, "set:" + ("gst" if "p.gst.Set(p.gs)" in code else "nogst")))
        elif call:
            arg = call.group(2) or ""
            arms.append((chan, call.group(1) + ("" if (arg == (var or "")) else ":arg-mismatch")))
        else:
            arms.append((chan, "other"))
    tm = re.search(r"p\.cleanup = time\.NewTicker\(([^)]+)\)", body)
    tick = dur(tm.group(1)) if tm else None
    cl = vlib.read(os.path.join(vlib.REPO, CLEAN))
    consts = {}
    for name in ("settlementTime", "retryTime"):
        cm = re.search(r"\b%s\s*=\s*([^\n]+)" % name, cl)
        consts[name] = dur(cm.group(1)) if cm else None
    bm = re.search(r"s\.ourMsg != nil && s\.retryCount >= (\d+)[^)]*\) \|\| \(s\.ourMsg == nil && s\.retryCount >= (\d+)", cl)
    consts["maxRetries"] = int(bm.group(1)) if bm else None
    consts["nilRetries"] = int(bm.group(2)) if bm else None
    consts["hourRule"] = 1 if re.search(r"case s\.submitted && delta\.Hours\(\) >= 1:", cl) else 0
    consts["fiveMinRule"] = 1 if re.search(r"case !s\.submitted && delta\.Minutes\(\) >= 5 && time\.Since\(s\.lastRetry\) >= retryTime:", cl) else 0
    consts["settleRule"] = 1 if re.search(r"case !s\.settled && delta > settlementTime:", cl) else 0
    consts["lateRule"] = 1 if re.search(r"if !s\.submitted && s\.ourVAA != nil && delta > settlementTime \{", cl) else 0
    if tick is None or any(v is None for v in consts.values()) or not arms:
        ctx.gen_fail("Proc", "could not extract Run's select arms / cleanup thresholds: tick=%s consts=%s arms=%s" % (tick, consts, arms))
        return None
    out = "namespace Whv.Gen.Proc\n\n"
    out += "/-- (channel, handler) for every arm of the select in Processor.Run, in source order -/\n"
    out += "def runArms : List (String × String) := [" + ", ".join('("%s", "%s")' % a for a in arms) + "]\n"
    out += "def cleanupTickNs : Nat := %d\n" % tick
    for k, v in consts.items():
        out += "def %s : Nat := %d\n" % (k, v)
    out += "\nend Whv.Gen.Proc\n"
    ctx.gen("Proc", out)
    return {"runArms": arms, "cleanupTickNs": tick, **consts}
