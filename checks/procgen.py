"""Source facts of node/pkg/processor that the processor model takes for granted: which handler each arm of Run's select calls,
and the numeric thresholds of cleanup.go. Written to lean/Whv/Gen/Proc.lean; Whv/Props/C13.lean and C14.lean compare them with the
model by `decide`."""
import os, re
import vlib

PROC = "node/pkg/processor/processor.go"
CLEAN = "node/pkg/processor/cleanup.go"
HOUR = 3600 * 10**9
MIN5 = 5 * 60 * 10**9


def strip_comments(code):
    code = re.sub(r"/\*.*?\*/", "", code, flags=re.S)
    return re.sub(r"//[^\n]*", "", code)


def _inline_methods(code, src, recv):
    """Replace statement-level calls `recv.name(args)` in `code` by the body of `func (r *Processor) name(params) {...}` found in `src`,
    when that body is straight-line (no control flow, no return value, no go/defer): receiver and parameter names are substituted by
    the actual arguments. One level; a call that cannot be inlined is left as it is. Moving a few statements of a select arm into an
    unexported method changes nothing the arm does."""
    def repl(m):
        indent, name, args = m.group(1), m.group(2), [a.strip() for a in m.group(3).split(",") if a.strip()]
        fm = re.search(r"func \((\w+) \*Processor\) %s\(([^)]*)\)\s*\{\n(.*?)\n\}\n" % re.escape(name), src, re.S)
        if not fm:
            return m.group(0)
        r, params, body = fm.group(1), fm.group(2), fm.group(3)
        if re.search(r"\b(if|for|switch|select|return|go|defer|goto)\b", body):
            return m.group(0)
        names = []
        for part in [x.strip() for x in params.split(",") if x.strip()]:
            names.append(part.split()[0])
        if len(names) != len(args):
            return m.group(0)
        out = body
        sub = dict(zip(names, args))
        sub[r] = recv
        out = re.sub(r"\b(%s)\b" % "|".join(re.escape(k) for k in sub), lambda x: sub[x.group(1)], out)
        return "\n".join(indent + ln.strip() for ln in out.split("\n"))
    return re.sub(r"(?m)^([ \t]*)%s\.(\w+)\(([^()]*)\)[ \t]*$" % re.escape(recv), repl, code)


def gen(ctx):
    # both files with every integer-constant expression folded (tools/gofold), comments removed: named constants, inline
    # literals and `30 * time.Second` style products all read alike
    src = strip_comments(vlib.gofold(PROC))
    m = re.search(r"func \((\w+) \*Processor\) Run\((\w+) context\.Context\) error \{(.*?)\n\}\n", src, re.S)
    if not m:
        ctx.gen_fail("Proc", "Processor.Run not found in " + PROC); return None
    p, cx, body = m.group(1), m.group(2), m.group(3)
    arms = []
    for am in re.finditer(r"case\s+(?:(\w+)\s*:=\s*)?(?:(%s\.gs)\s*=\s*)?<-\s*([\w\.\(\)]+):\s*\n(.*?)(?=\n\t\tcase |\n\t\t\}|\Z)" % p, body, re.S):
        var, assign, chan, code = am.group(1), am.group(2), am.group(3), am.group(4)
        chan = re.sub(r"^%s\." % p, "p.", chan)
        if chan == "p.setC":
            # the guardian-set arm: `case p.gs = <-p.setC:` or `case gs := <-p.setC:` followed by `p.gs = gs`, either of them possibly
            # with its statements moved into a straight-line unexported method
            code = _inline_methods(code, src, p)
            if var and re.search(r"(?m)^\s*%s\.gs = %s\s*$" % (p, var), code):
                assign = p + ".gs"
                code = re.sub(r"%s\.gst\.Set\(%s\)" % (p, var), "%s.gst.Set(%s.gs)" % (p, p), code)
        call = re.search(r"%s\.(handle\w+)\(%s(?:,\s*(\w+))?\)" % (p, cx), code)
        if chan == cx + ".Done()":
            arms.append(("ctx.Done()", "return"))
        elif assign:
            arms.append((chan, "set:" + ("gst" if re.search(r"%s\.gst\.Set\(%s\.gs\)" % (p, p), code) else "nogst")))
        elif call:
            arg = call.group(2) or ""
            arms.append((chan, call.group(1) + ("" if (arg == (var or "")) else ":arg-mismatch")))
        else:
            arms.append((chan, "other"))
    tm = re.search(r"%s\.cleanup = time\.NewTicker\((\d+)\)" % p, body)
    tick = int(tm.group(1)) if tm else None

    cl = strip_comments(vlib.gofold(CLEAN))
    consts = {}
    lm = re.search(r"for (\w+), (\w+) := range \w+\.state\.vaaSignatures \{\s*(\w+) := time\.Since\(\2\.firstObserved\)", cl)
    if not lm:
        ctx.gen_fail("Proc", "cleanup loop header (`for hash, s := range p.state.vaaSignatures { delta := time.Since(s.firstObserved)`) not found in " + CLEAN)
        return None
    S, D = lm.group(2), lm.group(3)
    sub = lambda pat: pat.replace("S.", S + ".").replace("DELTA", D)
    late = re.search(sub(r"if !S.submitted && S.ourVAA != nil && DELTA > (\d+) \{"), cl)
    settle = re.search(sub(r"case !S.settled && DELTA > (\d+):"), cl)
    hour = re.search(sub(r"case S.submitted && (?:DELTA\.Hours\(\) >= 1|DELTA >= %d):" % HOUR), cl)
    five = re.search(sub(r"case !S.submitted && (?:DELTA\.Minutes\(\) >= 5|DELTA >= %d) && time\.Since\(S.lastRetry\) >= (\d+):" % MIN5), cl)
    bm = re.search(sub(r"case !S.submitted && \(\(S.ourMsg != nil && S.retryCount >= (\d+)\s*\) \|\| \(S.ourMsg == nil && S.retryCount >= (\d+)\s*\)\):"), cl)
    consts["settlementTime"] = int(settle.group(1)) if settle else None
    consts["retryTime"] = int(five.group(1)) if five else None
    consts["maxRetries"] = int(bm.group(1)) if bm else None
    consts["nilRetries"] = int(bm.group(2)) if bm else None
    consts["hourRule"] = 1 if hour else 0
    consts["fiveMinRule"] = 1 if five else 0
    consts["settleRule"] = 1 if settle else 0
    consts["lateRule"] = 1 if (late and settle and late.group(1) == settle.group(1)) else 0
    if tick is None or any(v is None for v in consts.values()) or not arms:
        ctx.gen_fail("Proc", "could not extract Run's select arms / cleanup thresholds: tick=%s consts=%s arms=%s" % (tick, consts, arms))
        return None
    # the order of the arms of a select has no meaning in Go: reported in the canonical order (ctx.Done first, then by channel)
    arms = sorted(arms, key=lambda a: (a[0] != "ctx.Done()", {"p.setC": 0, "p.lockC": 1, "p.injectC": 2, "p.obsvC": 3, "p.signedInC": 4, "p.cleanup.C": 5}.get(a[0], 9), a[0]))
    out = "namespace Whv.Gen.Proc\n\n"
    out += "/-- (channel, handler) for every arm of the select in Processor.Run, in source order -/\n"
    out += "def runArms : List (String × String) := [" + ", ".join('("%s", "%s")' % a for a in arms) + "]\n"
    out += "def cleanupTickNs : Nat := %d\n" % tick
    for k, v in consts.items():
        out += "def %s : Nat := %d\n" % (k, v)
    out += "\nend Whv.Gen.Proc\n"
    ctx.gen("Proc", out)
    return {"runArms": arms, "cleanupTickNs": tick, **consts}
