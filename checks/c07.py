"""C07 - quorum threshold = floor(2n/3)+1 in node and both contracts; BFT-safe.

Tie: translator.  The three formulas are re-translated from /repo's sources into Whv/Gen/C07.lean on
every run; the theorems in Whv/Props/C07.lean (all n : Nat, by omega) are re-checked against them.
Additionally the real Go function is executed for n = 0..255 (and a few large n) and compared with
the translated term, so the translator itself is validated against the compiled code.
On break: evaluate all three extracted formulas and the real function over n = 0..255; the first
n that deviates from floor(2n/3)+1 (or from each other) is the replay.
WHICH guardian set's size the contracts' count guards read is a fact of its own (solGuardSet / ralGuardSet: "named" = the set
stored under the VAA's own guardianSetIndex); when it resolves to another stored set, two sets of different sizes are the failing
input (clause quorum-guard-uses-other-set_sol / _ral: a VAA naming n keys accepted below quorum, a complete one refused).
"""
import json, os, re
import exprtrans, vlib

GO = "node/pkg/processor/quorum.go"
SOL = "ethereum/contracts/Messages.sol"
RAL = "alephium/contracts/governance.ral"


def _wrap_eval(expr, env, width):
    """integer expression (+ - * / parentheses, identifiers from env) with every intermediate result taken modulo 2^width"""
    import ast
    mod = 2 ** width

    def ev(n):
        if isinstance(n, ast.BinOp):
            a, b = ev(n.left), ev(n.right)
            if isinstance(n.op, ast.Add):
                return (a + b) % mod
            if isinstance(n.op, ast.Sub):
                return (a - b) % mod
            if isinstance(n.op, ast.Mult):
                return (a * b) % mod
            if isinstance(n.op, (ast.Div, ast.FloorDiv)):
                return (a // b) % mod if b else None
        if isinstance(n, ast.Constant):
            return n.value % mod
        if isinstance(n, ast.Name):
            return env[n.id] % mod
        raise ValueError(ast.dump(n))
    try:
        return ev(ast.parse(expr.replace("/", "//"), mode="eval").body)
    except Exception:
        return None


def _match_paren(src, open_at, op="(", cl=")"):
    depth = 0
    for i in range(open_at, len(src)):
        if src[i] == op:
            depth += 1
        elif src[i] == cl:
            depth -= 1
            if depth == 0:
                return i
    return None


_CMP = ("<=", ">=", "==", "!=", "<", ">")


def _split_cmp(cond):
    """`L op R` with exactly one top-level comparison operator and no boolean connective -> (L, op, R) or None"""
    if re.search(r"&&|\|\||!(?!=)|\?", cond):
        return None
    depth, found = 0, []
    i = 0
    while i < len(cond):
        c = cond[i]
        if c == "(":
            depth += 1
        elif c == ")":
            depth -= 1
        elif depth == 0:
            for op in _CMP:
                if cond.startswith(op, i):
                    found.append((i, op))
                    i += len(op) - 1
                    break
        i += 1
    if len(found) != 1:
        return None
    at, op = found[0]
    return cond[:at].strip(), op, cond[at + len(op):].strip()


def _strip_casts(expr):
    """uintN(e) -> (e); returns (expr, narrowest N seen or None)"""
    width = None
    while True:
        m = re.search(r"\buint(\d*)\s*\(", expr)
        if not m:
            return expr, width
        end = _match_paren(expr, m.end() - 1)
        if end is None:
            return expr, width
        w = int(m.group(1) or 256)
        width = w if width is None else min(width, w)
        expr = expr[:m.start()] + "(" + expr[m.end():end] + ")" + expr[end + 1:]


GETTERS = "ethereum/contracts/Getters.sol"


def _strip_outer(e):
    """`e` without surrounding whitespace, redundant outer parentheses and uintN( ) casts around the whole expression"""
    e = e.strip()
    while True:
        m = re.match(r"^(?:uint\d*\s*)?\(", e)
        if m and _match_paren(e, m.end() - 1) == len(e) - 1:
            e = e[m.end():-1].strip()
        else:
            return e


def sol_getters(src):
    """Getters.sol: `getGuardianSet(i)` must be `return _state.guardianSets[i];` and `getCurrentGuardianSetIndex()` must be
    `return _state.guardianSetIndex;` - only then a set fetched through the getters is the set stored under that index."""
    m = re.search(r"function\s+getGuardianSet\s*\(\s*uint32\s+(\w+)\s*\)[^{;]*\{\s*return\s+_state\s*\.\s*guardianSets\s*\[\s*(\w+)\s*\]\s*;\s*\}", src)
    if not m or m.group(1) != m.group(2):
        raise ValueError("%s: getGuardianSet(uint32 i) is no longer `return _state.guardianSets[i];`" % GETTERS)
    if not re.search(r"function\s+getCurrentGuardianSetIndex\s*\(\s*\)[^{;]*\{\s*return\s+_state\s*\.\s*guardianSetIndex\s*;\s*\}", src):
        raise ValueError("%s: getCurrentGuardianSetIndex() is no longer `return _state.guardianSetIndex;`" % GETTERS)


def sol_guard(sol, qparam, qexpr, getters=None):
    """The guard(s) `verifyVM` really applies to the NUMBER of signatures: every `if (<cond>) { return (false, ...` and
    `require(<cond>, ...)` of verifyVM whose condition - after inlining the function's typed straight-line locals and calls of
    quorum() (by the extracted return expression of quorum()) - mentions `<vm>.signatures.length`.  Each must be ONE comparison
    between two arithmetic expressions over the signature count k and a guardian set's key count.

    WHICH set's key count: every `<set>.keys.length` operand is resolved through the function's straight-line locals
    (`Structs.GuardianSet memory|storage x = <set>`, `address[] memory ks = <set>.keys`, `uint32 i = <index>`) to a set fetched with
    `getGuardianSet(<index>)` / `_state.guardianSets[<index>]`, and the index to the VAA's own `<vm>.guardianSetIndex` (the set the
    VAA NAMES: variable n__) or to `getCurrentGuardianSetIndex()` / `_state.guardianSetIndex` (the CURRENT set: variable m__).
    Anything else is not resolved and makes the extraction fail.
    -> ([(polarity, L, op, R, text)], narrowest cast width or None, which) with polarity 'reject' (if-return-false) / 'accept'
    (require) and which = 'named' / 'current' / 'mixed' (both occur) / 'none' (no key count in the guard);
    raises ValueError(reason) for anything else (the caller reports a broken tie, never guesses)."""
    m = re.search(r"function\s+verifyVM\s*\(\s*Structs\.VM\s+memory\s+(\w+)\s*\)[^{;]*\{", sol)
    if not m:
        raise ValueError("function verifyVM(Structs.VM memory <vm>) not found")
    end = _match_paren(sol, m.end() - 1, "{", "}")
    if end is None:
        raise ValueError("verifyVM: unbalanced braces")
    vm, body = m.group(1), sol[m.end():end]
    if getters is None:
        import alpha
        getters = alpha.strip_comments(vlib.read(os.path.join(vlib.REPO, GETTERS)))
    sol_getters(getters)
    k_tok = r"\b%s\.signatures\.length\b" % re.escape(vm)
    width = [None]
    idx_env, set_env, keys_env = {}, {}, {}   # local name -> 'named' / 'current'

    def idx_class(e):
        e = _strip_outer(e)
        if re.fullmatch(r"%s\s*\.\s*guardianSetIndex" % re.escape(vm), e):
            return "named"
        if re.fullmatch(r"getCurrentGuardianSetIndex\s*\(\s*\)|_state\s*\.\s*guardianSetIndex", e):
            return "current"
        return idx_env.get(e)

    def set_class(e):
        e = _strip_outer(e)
        if e in set_env:
            return set_env[e]
        for pat, op, cl in ((r"getGuardianSet\s*\(", "(", ")"), (r"_state\s*\.\s*guardianSets\s*\[", "[", "]")):
            g = re.match(pat, e)
            if g and _match_paren(e, g.end() - 1, op, cl) == len(e) - 1:
                return idx_class(e[g.end():-1])
        return None

    def keys_class(e):
        e = _strip_outer(e)
        if e in keys_env:
            return keys_env[e]
        g = re.fullmatch(r"(.+?)\s*\.\s*keys", e, re.S)
        return set_class(g.group(1)) if g else None

    def counts(e):
        """every `<keys>.length` whose operand resolves -> n__ (named set) / m__ (current set)"""
        out, at = [], 0
        for g in re.finditer(r"\s*\.\s*length\b", e):
            if g.start() < at:
                continue
            # the operand: the longest postfix expression (identifiers, `.member`, `( )`, `[ ]`) ending here
            i = g.start()
            while i > at:
                c = e[i - 1]
                if c in ")]":
                    depth, j = 0, i - 1
                    while j >= at:
                        if e[j] in ")]":
                            depth += 1
                        elif e[j] in "([":
                            depth -= 1
                            if depth == 0:
                                break
                        j -= 1
                    if j < at:
                        break
                    i = j
                elif c.isalnum() or c in "_.":
                    i -= 1
                else:
                    break
            cls = keys_class(e[i:g.start()]) if i < g.start() else None
            if cls is not None:
                out.append(e[at:i] + {"named": "n__", "current": "m__"}[cls])
                at = g.end()
        out.append(e[at:])
        return "".join(out)

    def norm(e, env):
        e = re.sub(k_tok, "k__", e)
        e = counts(e)
        for _ in range(8):  # locals, then quorum() calls, may nest
            e2 = re.sub(r"\b[A-Za-z_]\w*\b", lambda t: "(" + env[t.group(0)] + ")" if t.group(0) in env else t.group(0), e)
            q = re.search(r"\bquorum\s*\(", e2)
            if q:
                qe = _match_paren(e2, q.end() - 1)
                if qe is None:
                    raise ValueError("unbalanced quorum( call")
                arg = e2[q.end():qe]
                if qexpr is None:
                    raise ValueError("verifyVM calls quorum() but its return expression could not be extracted")
                inl = re.sub(r"\b%s\b" % re.escape(qparam), "(" + arg + ")", qexpr)
                e2 = e2[:q.start()] + "(" + inl + ")" + e2[qe + 1:]
            if e2 == e:
                break
            e = e2
        e, w = _strip_casts(e)
        if w is not None:
            width[0] = w if width[0] is None else min(width[0], w)
        return e

    # straight-line locals of verifyVM, in textual order: guardian sets, key arrays, indices (`uint32 i = <index>`), then the typed
    # integer locals (`uintN x = e;`)
    env = {}
    for d in re.finditer(r"\b(Structs\s*\.\s*GuardianSet\s+(?:memory|storage)|address\s*\[\s*\]\s+(?:memory|storage)|uint(\d*))\s+(\w+)\s*=\s*([^;]+);", body):
        kind, name, rhs = d.group(1), d.group(3), d.group(4).strip()
        if kind.startswith("Structs"):
            set_env[name] = set_class(rhs)
        elif kind.startswith("address"):
            keys_env[name] = keys_class(rhs)
        else:
            if idx_class(rhs) is not None:
                idx_env[name] = idx_class(rhs)
            env[name] = norm(rhs, env)
            if d.group(2):
                width[0] = int(d.group(2)) if width[0] is None else min(width[0], int(d.group(2)))
    guards = []
    for st in re.finditer(r"\b(if|require)\s*\(", body):
        close = _match_paren(body, st.end() - 1)
        if close is None:
            raise ValueError("verifyVM: unbalanced parentheses")
        inner = body[st.end():close]
        if st.group(1) == "require":
            # condition = up to the first top-level comma
            depth, cut = 0, len(inner)
            for i, c in enumerate(inner):
                if c == "(":
                    depth += 1
                elif c == ")":
                    depth -= 1
                elif c == "," and depth == 0:
                    cut = i
                    break
            cond, pol = inner[:cut], "accept"
        else:
            cond, pol = inner, "reject"
        cn = norm(cond.strip(), env)
        if "k__" not in cn:
            continue
        if pol == "reject" and not re.match(r"\s*\{\s*return\s*\(\s*false\s*,", body[close + 1:]):
            raise ValueError("verifyVM: `if (%s)` mentions the signature count but is not followed by `{ return (false, ...`" % cond.strip())
        parts = _split_cmp(cn)
        if parts is None:
            raise ValueError("verifyVM: condition `%s` on the signature count is not one comparison of two arithmetic expressions" % cond.strip())
        if re.search(r"\.\s*length\b", cn):
            raise ValueError("verifyVM: condition `%s` on the signature count reads a length that is neither the key count of the guardian set "
                             "fetched with %s.guardianSetIndex nor that of the current set" % (cond.strip(), vm))
        guards.append((pol, parts[0], parts[1], parts[2], cond.strip()))
    if not guards:
        raise ValueError("verifyVM compares the signature count (<vm>.signatures.length) with nothing")
    used = set()
    for g in guards:
        used |= set(re.findall(r"\b[nm]__", g[1] + " " + g[3]))
    which = {("n__",): "named", ("m__",): "current", ("m__", "n__"): "mixed", (): "none"}[tuple(sorted(used))]
    return guards, width[0], which


_LEANOP = {"<": "<", "<=": "≤", ">": ">", ">=": "≥", "==": "=", "!=": "≠"}
_PYOP = {"<": lambda a, b: a < b, "<=": lambda a, b: a <= b, ">": lambda a, b: a > b, ">=": lambda a, b: a >= b,
         "==": lambda a, b: a == b, "!=": lambda a, b: a != b}


def guard_accepts(guards, n, k, m=None):
    """does verifyVM's count guard let k signatures through when the set the VAA names has n keys and the current set m keys
    (default: the same size) - Python evaluation of the extracted comparisons"""
    env = {"n__": n, "m__": n if m is None else m, "k__": k}
    for pol, L, op, R, _ in guards:
        v = _PYOP[op](exprtrans.evaluate(L, env), exprtrans.evaluate(R, env))
        if (pol == "reject" and v) or (pol == "accept" and not v):
            return False
    return True


def ral_guard_set(ral):
    """governance.ral parseAndVerifyVAA: WHICH guardian set's size is `guardianSize` (the operand of quorumSize).
    `let guardianSize = u256From1Byte!(byteVecSlice!(<blob>, 0, 1))`; <blob> is resolved through the function's immutable `let`s to
    `getGuardiansInfo(<index>)` or `guardianSets[i]`, <index> to the VAA's own bytes 1..5 (`u256From4Byte!(byteVecSlice!(data, 1, 5))`:
    the set the VAA NAMES) or to `guardianSetIndexes[i]`; getGuardiansInfo itself must hand out guardianSets[i] for
    guardianSetIndexes[i], i = 0, 1.  -> 'named' / 'current' (slot 1) / 'previous' (slot 0); ValueError(reason) if unresolved."""
    m = re.search(r"\bfn\s+parseAndVerifyVAA\s*\(\s*(\w+)\s*:\s*ByteVec\b[^{]*\{", ral)
    end = _match_paren(ral, m.end() - 1, "{", "}") if m else None
    if end is None:
        raise ValueError("fn parseAndVerifyVAA(<data>: ByteVec, ...) not found")
    data, body = m.group(1), ral[m.end():end]
    lets = {}
    for d in re.finditer(r"\blet\s+(mut\s+)?(\w+)\s*=\s*([^\n]+)", body):
        lets[d.group(2)] = None if d.group(1) or d.group(2) in lets else d.group(3).strip()   # mutable / re-declared: not resolved
    g = re.search(r"\bfn\s+getGuardiansInfo\s*\(\s*(\w+)\s*:\s*U256\s*\)[^{]*\{", ral)
    gend = _match_paren(ral, g.end() - 1, "{", "}") if g else None
    if gend is None:
        raise ValueError("fn getGuardiansInfo(<index>: U256) not found")
    gp, gbody = re.escape(g.group(1)), ral[g.end():gend]
    pairs = set()
    for b in re.finditer(r"\bif\s*\(\s*(?:%s\s*==\s*guardianSetIndexes\[(\d)\]|guardianSetIndexes\[(\d)\]\s*==\s*%s)\s*\)\s*\{" % (gp, gp), gbody):
        bend = _match_paren(gbody, b.end() - 1, "{", "}")
        r = re.search(r"\breturn\s+guardianSets\[(\d)\]", gbody[b.end():bend or len(gbody)])
        pairs.add((b.group(1) or b.group(2), r.group(1) if r else None))
    if pairs != {("0", "0"), ("1", "1")} or len(re.findall(r"\breturn\b", gbody)) != 2:
        raise ValueError("getGuardiansInfo no longer returns guardianSets[i] exactly for an index equal to guardianSetIndexes[i], i = 0, 1")
    slot = {"1": "current", "0": "previous"}

    def strip(e):
        e = e.strip()
        while e.startswith("(") and _match_paren(e, 0) == len(e) - 1:
            e = e[1:-1].strip()
        return e

    def idx_class(e, depth=0):
        e = strip(e)
        if re.fullmatch(r"u256From4Byte!\(\s*byteVecSlice!\(\s*%s\s*,\s*1\s*,\s*5\s*\)\s*\)" % re.escape(data), e):
            return "named"
        i = re.fullmatch(r"guardianSetIndexes\[(\d)\]", e)
        if i:
            return slot.get(i.group(1))
        if depth < 8 and lets.get(e):
            return idx_class(lets[e], depth + 1)
        return None

    def blob_class(e, depth=0):
        e = strip(e)
        i = re.fullmatch(r"guardianSets\[(\d)\]", e)
        if i:
            return slot.get(i.group(1))
        c = re.match(r"getGuardiansInfo\s*\(", e)
        if c and _match_paren(e, c.end() - 1) == len(e) - 1:
            return idx_class(e[c.end():-1])
        if depth < 8 and lets.get(e):
            return blob_class(lets[e], depth + 1)
        return None

    s = re.search(r"\blet\s+guardianSize\s*=\s*u256From1Byte!\(\s*byteVecSlice!\(", body)
    if not s:
        raise ValueError("guardianSize is no longer `u256From1Byte!(byteVecSlice!(<guardian blob>, 0, 1))`")
    close = _match_paren(body, s.end() - 1)
    a = re.fullmatch(r"(.+),\s*0\s*,\s*1\s*", body[s.end():close] if close else "", re.S)
    if not a or not re.match(r"\s*\)", body[close + 1:]):
        raise ValueError("guardianSize is no longer the first byte (the 1-byte guardian count) of a guardian blob")
    cls = blob_class(a.group(1))
    if cls is None:
        raise ValueError("guardianSize is read from `%s`, which is neither getGuardiansInfo(<the VAA's guardianSetIndex>) nor one of the "
                         "stored sets" % a.group(1).strip())
    return cls


# set sizes for the two-set search: today's 19 first, then a rotation to a small / a larger set, then the rest of the ladder
_SIZES = (19, 4, 25, 1, 2, 3, 5, 6, 7, 13, 18, 20, 64, 128, 255)


def other_set_search(accepts):
    """accepts(n, m, k): does the contract's count guard let k signatures through for a VAA naming a set of n keys while the
    OTHER set (the one whose size the guard reads) has m keys.  -> (first (n, m, k) accepted with k below floor(2n/3)+1,
    first (n, m, k) refused although floor(2n/3)+1 <= k <= n), either may be None."""
    below = over = None
    for n in _SIZES:
        want = 2 * n // 3 + 1
        for m in _SIZES:
            if m == n:
                continue
            for k in range(0, n + 1):
                a = accepts(n, m, k)
                if a and k < want and below is None:
                    below = (n, m, k)
                if not a and k >= want and over is None:
                    over = (n, m, k)
        if below and over:
            break
    return below, over


def _go_source():
    """the non-test file of package processor that defines CalculateQuorum (quorum.go unless the function was moved within the package)"""
    d = os.path.dirname(GO)
    try:
        names = sorted(os.listdir(os.path.join(vlib.REPO, d)))
    except OSError:
        return None
    for f in [os.path.basename(GO)] + names:
        p = os.path.join(vlib.REPO, d, f)
        if f.endswith(".go") and not f.endswith("_test.go") and os.path.isfile(p) and re.search(r"\bfunc\s+CalculateQuorum\s*\(", vlib.read(p)):
            return os.path.join(d, f)
    return None


def extract(ctx):
    facts = {}
    go_rel = _go_source()
    # constants folded (tools/gofold); a straight-line body `x := e ... return e'` is inlined into one expression
    go = re.sub(r"//[^\n]*", "", vlib.gofold(go_rel)) if go_rel else ""
    m = re.search(r"func\s+CalculateQuorum\s*\(\s*(\w+)\s+int\s*\)\s*int\s*\{(.*?)\n\}", go, re.S)
    expr = None
    if m:
        env, ok = {}, True
        for ln in [l.strip().rstrip(";") for l in m.group(2).split("\n") if l.strip()]:
            a = re.match(r"^(?:var\s+)?(\w+)\s*(?::=|=)\s*(.+)$", ln)
            r = re.match(r"^return\s+(.+)$", ln)
            inl = lambda e: re.sub(r"\b[A-Za-z_]\w*\b", lambda t: "(" + env[t.group(0)] + ")" if t.group(0) in env else t.group(0), e)
            if expr is not None:
                ok = False
            elif a and a.group(1) != m.group(1):
                env[a.group(1)] = inl(a.group(2))
            elif r:
                expr = inl(r.group(1))
            else:
                ok = False
        if not ok:
            expr = None
    if not m or expr is None:
        ctx.gen_fail("C07", "CalculateQuorum is no longer straight-line code ending in one return expression over one int parameter in " + (go_rel or os.path.dirname(GO)))
    else:
        facts["go"] = (m.group(1), expr.strip(), go_rel)
    sol = vlib.read_contract(SOL)
    # straight-line body: typed local declarations `uintN x = [uintN(]expr[)];` are inlined into the return expression, and the
    # narrowest width any operand is declared with / cast to is recorded (^0.8 checked arithmetic happens at that width)
    m = re.search(r"function\s+quorum\s*\(\s*uint(\d*)\s+(\w+)\s*\)[^{]*\{(.*?)\n    \}", sol, re.S)
    expr, width = None, None
    if m:
        width = int(m.group(1) or 256)
        env, ok = {}, True
        # an `unchecked { ... }` block around the body: same statements, but arithmetic wraps at the operand width instead of reverting
        body_txt = m.group(3)
        um = re.match(r"^\s*unchecked\s*\{(.*)\}\s*$", body_txt, re.S)
        facts["_solUnchecked"] = bool(um)
        if um:
            m = type("M", (), {"group": lambda self, i, _m=m, _b=um.group(1): _b if i == 3 else _m.group(i)})()
        inl = lambda e: re.sub(r"\b[A-Za-z_]\w*\b", lambda t: "(" + env[t.group(0)] + ")" if t.group(0) in env else t.group(0), e)
        # a NAMED return value (`returns (uint numSignaturesRequiredForQuorum)`): assigning to it as the last statement is `return expr`
        hm = re.search(r"function\s+quorum\s*\([^)]*\)[^{]*?returns\s*\(\s*uint(\d*)\s+(\w+)\s*\)[^{]*\{", sol, re.S)
        rname = hm.group(2) if hm else None
        for st in [x.strip() for x in m.group(3).split(";") if x.strip()]:
            d = re.match(r"^uint(\d*)\s+(\w+)\s*=\s*(.+)$", st, re.S)
            r_ = re.match(r"^return\s+(.+)$", st, re.S)
            if not r_ and rname:
                r_ = re.match(r"^%s\s*=\s*(.+)$" % re.escape(rname), st, re.S)
            if expr is not None:
                ok = False
            elif d:
                width = min(width, int(d.group(1) or 256))
                rhs = d.group(3).strip()
                c = re.match(r"^uint(\d*)\((.+)\)$", rhs, re.S)
                if c:
                    width = min(width, int(c.group(1) or 256))
                    rhs = c.group(2)
                env[d.group(2)] = inl(rhs)
            elif r_:
                expr = inl(r_.group(1).strip())
            else:
                ok = False
        if not ok:
            expr = None
    if not m or expr is None:
        ctx.gen_fail("C07", "quorum() is no longer straight-line code ending in one return expression in " + SOL)
    else:
        facts["sol"] = (m.group(2), expr, SOL)
        facts["_solWidth"] = width
    ral = vlib.read_contract(RAL)
    m = re.search(r"let\s+quorumSize\s*=\s*([^\n]+)\n\s*assert!\(\s*quorumSize\s*<=\s*signatureSize\s*,", ral)
    if not m:
        ctx.gen_fail("C07", "`let quorumSize = <expr>` followed by `assert!(quorumSize <= signatureSize` not found in " + RAL)
    else:
        facts["ral"] = ("guardianSize", m.group(1).strip(), RAL)
    # the guardianSize / signatureSize operands must be the one-byte counts the wire format carries - and guardianSize that of
    # WHICH set: the one fetched with the VAA's own guardianSetIndex ('named'), or a stored slot ('current' / 'previous')
    if "ral" in facts:
        try:
            facts["_ralGuardSet"] = ral_guard_set(ral)
        except ValueError as e:
            ctx.gen_fail("C07", "%s: %s" % (RAL, e))
        if not re.search(r"let\s+signatureSize\s*=\s*u256From1Byte!\(byteVecSlice!\(data,\s*5,\s*6\)\)", ral):
            ctx.gen_fail("C07", "signatureSize is no longer byte 5 of the VAA in " + RAL)
    # Solidity: the guard verifyVM applies to the signature count - whatever it is: a call of quorum() (inlined), a local holding
    # it, or a comparison written out in place
    try:
        guards, gwidth, which = sol_guard(sol, facts["sol"][0] if "sol" in facts else None, facts["sol"][1] if "sol" in facts else None)
        terms = []
        # solAcceptsCount n k: the comparison with every key-count operand read as n (whichever set it is the count of - that is
        # the separate fact solGuardSet)
        names = {"n__": "n", "m__": "n", "k__": "k"}
        for pol, L, op, R, txt in guards:
            t = "decide (%s %s %s)" % (exprtrans.translate(L, names), _LEANOP[op], exprtrans.translate(R, names))
            terms.append("!(%s)" % t if pol == "reject" else "(%s)" % t)
        facts["_solGuard"] = (guards, " && ".join(terms))
        facts["_solGuardSet"] = which
        if gwidth is not None:
            facts["_solWidth"] = min(facts.get("_solWidth", 256), gwidth)
    except (ValueError, exprtrans.TranslateError) as e:
        ctx.gen_fail("C07", "the guard verifyVM applies to the signature count could not be extracted from %s: %s" % (SOL, e))
    # shape of the two contract-side signature loops (textual facts; the loops themselves are hand-modelled in
    # Whv/Model/Contract.lean): strictly ascending indices and positional ecrecover comparison
    facts["_solLoop"] = bool(re.search(r"require\(i == 0 \|\| sig\.guardianIndex > lastIndex,", sol)) and \
        bool(re.search(r"if\(ecrecover\(hash, sig\.v, sig\.r, sig\.s\) != guardianSet\.keys\[sig\.guardianIndex\]\)\{\s*return \(false,", sol)) and \
        bool(re.search(r"if\(guardianSet\.keys\.length == 0\)\{\s*return \(false,", sol))
    facts["_ralLoop"] = bool(re.search(r"assert!\(guardianIndexI256 > lastGuardianIndex,", ral)) and \
        bool(re.search(r"let mut lastGuardianIndex = -1", ral)) and \
        bool(re.search(r"assert!\(guardianKey == ethEcRecover!\(hash, newSignature\),", ral)) and \
        bool(re.search(r"assert!\(guardianSize != 0,", ral))
    return facts


def gen(ctx):
    facts = extract(ctx)
    defs = []
    lean_terms = {}
    sol_width = facts.pop("_solWidth", 256)
    sol_unchecked = facts.pop("_solUnchecked", False)
    sol_loop = facts.pop("_solLoop", False)
    ral_loop = facts.pop("_ralLoop", False)
    sol_guard_f = facts.pop("_solGuard", None)
    sol_guard_set = facts.pop("_solGuardSet", None)
    ral_guard_set_f = facts.pop("_ralGuardSet", None)
    for k, lname in (("go", "goQuorum"), ("sol", "solQuorum"), ("ral", "ralQuorum")):
        if k not in facts:
            continue
        var, expr, src = facts[k]
        try:
            t = exprtrans.translate(expr, {var: "n"})
        except exprtrans.TranslateError as e:
            ctx.gen_fail("C07", "%s: %s" % (src, e))
            continue
        lean_terms[k] = t
        defs.append("/-- from %s: `%s` -/\ndef %s (n : Nat) : Nat := %s\n" % (src, expr, lname, t))
    nq = len(defs)
    if nq == 3 and (sol_guard_f is None or ral_guard_set_f is None):
        nq = 0  # already reported by gen_fail: the Gen file is not written, the proofs are not re-checked against stale facts
    if nq == 3:
        b = lambda x: "true" if x else "false"
        defs.append("/-- Messages.sol verifyVM: does the guard on the NUMBER of signatures let `k` signatures for a set of `n` keys through - "
                    "%s (calls of quorum() and straight-line locals inlined) -/\n"
                    "def solAcceptsCount (n k : Nat) : Bool := %s\n"
                    % ("; ".join("`%s`: %s" % (g[4], "rejected" if g[0] == "reject" else "required") for g in sol_guard_f[0]), sol_guard_f[1]))
        defs.append("/-- Messages.sol verifyVM: WHICH guardian set's key count that guard reads (every `<set>.keys.length` operand resolved "
                    "through straight-line locals and the Getters.sol getters): \"named\" = the set stored under the VAA's own guardianSetIndex, "
                    "\"current\" = the set under _state.guardianSetIndex, \"mixed\" = both occur, \"none\" = no key count at all -/\n"
                    "def solGuardSet : String := \"%s\"\n" % sol_guard_set)
        defs.append("/-- governance.ral parseAndVerifyVAA: WHICH guardian set's size `guardianSize` (the operand of quorumSize) is: \"named\" = "
                    "the first byte of getGuardiansInfo(<bytes 1..5 of the VAA>), \"current\" / \"previous\" = of the stored slot 1 / 0 -/\n"
                    "def ralGuardSet : String := \"%s\"\n" % ral_guard_set_f)
        defs.append("/-- Messages.sol verifySignatures/verifyVM: non-empty set, `i == 0 || index > lastIndex`, positional ecrecover comparison (textual) -/\n"
                    "def solLoopShape : Bool := %s\n" % b(sol_loop))
        defs.append("/-- bit width of the Solidity quorum() parameter / call-site cast: under ^0.8 checked arithmetic an intermediate value "
                    "beyond it reverts, so anything narrower than the one-byte guardian count times two is a different function -/\n"
                    "def solQuorumWidth : Nat := %d\n" % sol_width)
        defs.append("/-- governance.ral parseAndVerifyVAA: non-empty set, index > lastGuardianIndex from -1, key == ethEcRecover (textual) -/\n"
                    "def ralLoopShape : Bool := %s\n" % b(ral_loop))
        ctx.gen("C07", "namespace Whv.Gen.C07\n\n" + "\n".join(defs) + "\nend Whv.Gen.C07\n")
    ctx.cov["gen_facts"] = {k: {"source": v[2], "expr": v[1]} for k, v in facts.items() if not k.startswith("_")}
    facts["_solWidthKept"] = sol_width
    facts["_solUncheckedKept"] = sol_unchecked
    facts["_solGuardKept"] = sol_guard_f[0] if sol_guard_f else None
    facts["_solGuardSetKept"] = sol_guard_set
    facts["_ralGuardSetKept"] = ral_guard_set_f
    return facts, nq == 3


def run(ctx):
    facts, ok = gen(ctx)
    sol_width = facts.pop("_solWidthKept", 256)
    sol_unchecked = facts.pop("_solUncheckedKept", False)
    sol_guards = facts.pop("_solGuardKept", None)
    sol_guard_set = facts.pop("_solGuardSetKept", None)
    ral_guard_set_f = facts.pop("_ralGuardSetKept", None)
    if ok:
        ctx.prove(families=("processor", "evm", "explorer"))
    else:
        ctx.lake_build(["drv_processor", "drv_evm", "drv_explorer"])

    # --- validate the translation against the compiled Go function, and search for a failing n
    ov = ctx.overlay({"node/pkg/processor/zz_verif_c07_test.go": "processor/c07_test.go"})
    hi = 255
    rc, out = ctx.go_test("node", "./pkg/processor", "^TestVerifC07$", ov)
    table = {}
    tp = os.path.join(ctx.work, "c07.table")
    if rc != 0 or not os.path.exists(tp):
        ctx.broken.append(("tie", "go-harness", out[-600:]))
    else:
        for ln in open(tp):
            a, b = ln.split()
            table[int(a)] = int(b)
    evals = 0
    distinct = set()
    samples = []
    for n in sorted(table):
        want = 2 * n // 3 + 1
        got = {"goimpl": table[n]}
        for k, v3 in facts.items():
            if k.startswith("_"):
                continue
            var, expr, src = v3
            try:
                got[k] = exprtrans.evaluate(expr, {var: n})
                if k == "sol" and sol_width < 256:
                    if sol_unchecked:
                        # unchecked block: every intermediate result wraps modulo 2^width
                        got[k] = _wrap_eval(expr, {var: n % 2 ** sol_width}, sol_width)
                    # Solidity ^0.8 checked arithmetic at the declared width: n itself and n*2 must fit, else the call reverts
                    elif n >= 2 ** sol_width or n * 2 >= 2 ** sol_width:
                        got[k] = "revert"
            except Exception as e:  # noqa
                got[k] = None
        # what verifyVM APPLIES: the smallest signature count its guard lets through (nothing above it refused).  With the guard
        # `count < quorum(n)` that is quorum(n) itself; it replaces the value of quorum()'s formula only when that formula is right
        # and the guard is not (a wrong formula stays reported as before)
        guard_k = None
        if sol_guards is not None and got.get("sol") == want and sol_width >= 256 and n >= 1:
            try:
                acc = [guard_accepts(sol_guards, n, k) for k in range(0, 257)]
                thr = acc.index(True) if True in acc else None
                if thr is None or not all(acc[thr:]):
                    guard_k = next(k for k in range(want, 257) if not acc[k])
                    got["sol"] = "verifyVM refuses %d" % guard_k
                elif thr != want:
                    guard_k = thr if thr < want else want
                    got["sol"] = thr
            except Exception as e:  # noqa
                got["sol"] = None
        evals += 1
        distinct.add((n % 3, table[n] - 2 * n // 3))
        if n in (0, 1, 2, 3, 4, 19, 255):
            samples.append({"n": n, **got, "spec": want})
        # tie: translated Go term must equal the compiled function
        if got.get("go") is not None and got["go"] != table[n]:
            ctx.broken.append(("tie", "translator-vs-compiled", "n=%d term=%s compiled=%d" % (n, got["go"], table[n])))
        if 1 <= n <= hi:
            bad = [k for k, v in got.items() if v != want]
            safe = (3 * table[n] > 2 * n) and table[n] <= n
            if bad or not safe:
                ctx.spec_violations.append({
                    "key": "quorum-mismatch:" + ",".join(sorted(bad) or ["bft"]),
                    "what": "n=%d: %s, floor(2n/3)+1=%d" % (n, got, want) +
                            ("" if guard_k is None else "; Messages.sol verifyVM's own guard (%s) %s k=%d signatures of n=%d keys" % (
                                " / ".join(g[4] for g in sol_guards), "accepts" if guard_accepts(sol_guards, n, guard_k) else "refuses", guard_k, n)),
                    "replay": {"n": n, "k": guard_k, "values": got, "expected": want,
                               "sources": {k: v[2] for k, v in facts.items() if not k.startswith("_")}, "solQuorumWidth": sol_width}})
    # --- "for the guardian set of size n": the n the contracts' guards read must be the size of the set the VAA NAMES.  When the
    # extractor resolved it to another set (the current one), two sets of different sizes give the failing input: a VAA naming a
    # (still valid) set of n keys, k signatures, while the set whose size the guard reads has m keys
    def other_set(contract, src, guard_txt, which, accepts):
        nonlocal evals
        try:
            below, over = other_set_search(accepts)
        except Exception as e:  # noqa
            ctx.broken.append(("tie", "other-set-search", "%s: %r" % (contract, e)))
            return
        evals += 1
        if not below and not over:
            return
        parts = []
        if below:
            n, m, k = below
            parts.append("named set n=%d keys (floor(2n/3)+1=%d), %s set m=%d keys: k=%d signatures pass the guard - accepted below quorum" % (
                n, 2 * n // 3 + 1, which, m, k))
        if over:
            n, m, k = over
            parts.append("named set n=%d keys (floor(2n/3)+1=%d), %s set m=%d keys: a complete VAA with k=%d signatures is refused" % (
                n, 2 * n // 3 + 1, which, m, k))
        ctx.spec_violations.append({
            "key": "quorum-guard-uses-other-set:" + contract,
            "what": "%s: the guard on the signature count (%s) reads the key count of the %s guardian set, not of the set the VAA names: %s" % (
                src, guard_txt, which.upper(), "; ".join(parts)),
            "replay": {"contract": src, "guard": guard_txt, "guard_reads_set": which,
                       "accepted_below_quorum": None if not below else dict(zip(("n_named", "n_" + which, "k"), below), expected_threshold=2 * below[0] // 3 + 1),
                       "rejected_although_complete": None if not over else dict(zip(("n_named", "n_" + which, "k"), over), expected_threshold=2 * over[0] // 3 + 1)}})

    if sol_guards is not None and sol_guard_set in ("current", "mixed"):
        other_set("sol", SOL + " verifyVM", " / ".join(g[4] for g in sol_guards), "current",
                  lambda n, m, k: guard_accepts(sol_guards, n, k, m))
    if ral_guard_set_f in ("current", "previous") and "ral" in facts:
        rvar, rexpr, _ = facts["ral"]
        other_set("ral", RAL + " parseAndVerifyVAA", "quorumSize = %s; quorumSize <= signatureSize" % rexpr, ral_guard_set_f,
                  lambda n, m, k: exprtrans.evaluate(rexpr, {rvar: m}) <= k)
    ctx.cov["evaluations"] = evals
    ctx.cov["distinct_nontrivial"] = len(table)
    ctx.cov["exhaustive"] = True
    ctx.cov["rule"] = ("the compiled CalculateQuorum and the three extracted formulas are evaluated for every n in 0..255 "
                       "plus large n; each n is a distinct case; this validates the translator and is the failing-input "
                       "search - the property itself is decided by the omega theorems for all n : Nat")
    ctx.cov["samples"] = samples
    ctx.cov["trusted_base"] += [
        "tools/exprtrans.py + the regexes in checks/c07.py that locate the three formulas (validated against the compiled Go function on n=0..255 and 2^20..2^20+300)",
        "Solidity and Ralph integer semantics: uint/U256 truncating division on naturals (overflow impossible for n <= 255)",
        "checks/c07.py sol_guard / ral_guard_set: WHICH set's key count the count guard reads is resolved textually - `<set>.keys.length` through "
        "verifyVM's straight-line locals to getGuardianSet(i) / _state.guardianSets[i] with i = <vm>.guardianSetIndex (named) or "
        "getCurrentGuardianSetIndex() / _state.guardianSetIndex (current), Getters.sol's two getters checked to be the plain field reads; Ralph's "
        "guardianSize through `let`s to getGuardiansInfo(<bytes 1..5 of the VAA>) (named) or guardianSets[i] / guardianSetIndexes[i]; anything "
        "unresolved is a reported extraction failure; Whv.Gen.C07.solGuardSet / ralGuardSet, theorems sol_guard_reads_named_set / ral_guard_reads_named_set",
        "checks/c07.py sol_guard: locates in verifyVM every if-return-false / require whose condition mentions <vm>.signatures.length, inlines typed "
        "straight-line locals and quorum() calls, accepts exactly one comparison of two + * / expressions over the two counts (anything else is a "
        "reported extraction failure); Whv.Gen.C07.solAcceptsCount is that guard, sol_verifyvm_guard proves it equal to floor(2n/3)+1 <= k for all n, k",
        "Go int overflow ignored (n*10 < 2^63 for every slice length)",
    ]
    # --- "a VAA the node considers complete is accepted on chain": the real Processor's published / stored VAAs are judged by
    # the contract model (Whv.Model.Contract) under the set they name - Spec clause complete-vaa-rejected-on-chain
    from checks import proccommon
    proccommon.run_processor(ctx, "C07", "C07 judges every VAA the node publishes from its own observation, and every inbound VAA naming the "
                             "current set that it stores, with the contract-side model (threshold, ascending indices, positional ecrecover).")
    # --- the n the node's threshold is computed from is the n of the set on chain: the guardian-set fetch path (the real
    # fetchAndUpdateGuardianSet against a fake node holding sets of 1..255 keys) must hand the processor exactly the chain's set
    from checks import c10
    rule = ctx.cov["rule"]
    dist = ctx.cov.get("generator_distribution")
    c10.run_gsfetch_for(ctx, c10.GSFETCH_CLAUSES)
    ctx.cov["rule"] = rule + " | guardian-set fetch: sets of 1..255 keys on a fake EVM node, what arrives on the processor's set channel is compared key by key"
    if dist is not None:
        ctx.cov["generator_distribution"] = dist
    # --- the explorer's gate (anchor vaa_gossip_consumer.go) applies the same threshold: its gate cases, clause explorer-accepts-below-quorum
    from checks import c19
    rule = ctx.cov["rule"]
    dist = ctx.cov.get("generator_distribution")
    c19.run_gate_for(ctx, c19.C07_CLAUSES)
    ctx.cov["rule"] = rule + (" | explorer gate: verifyVAA / Push with quorum-1, quorum and surplus signatures for every set size; after overtaken "
                              "(overlapping / repeated) and far-ahead guardian-set fetches, VAAs naming set i with exactly a quorum of set j's guardians, "
                              "sizes on growing and shrinking ladders; right after a set change (sets sharing their low positions with the "
                              "predecessor) VAAs naming the new set with exactly a quorum of a STORED set's guardians, pushed while the on-demand "
                              "lookup of the named set fails at the chain (RPC error / 503 / undecodable / empty / no dial, once or repeatedly, any "
                              "request of the range) and again after it recovered: the threshold applied must be that of the set the VAA names")
    if dist is not None:
        ctx.cov["generator_distribution"] = dist
    ctx.assumptions += ["the contracts are never executed here (no solc / no Alephium VM): their formulas are tied by source translation only"]
