"""C10 - EVM messages reach the signer only from the core contract and when final."""
import os
import re
import shutil

import vlib

OVERLAY = {
    "node/pkg/ethereum/zz_verif_evm_test.go": "ethereum/evm_verif_test.go",
    "node/pkg/ethereum/zz_verif_evm_gen_test.go": "ethereum/evm_gen_verif_test.go",
    "node/pkg/ethereum/zz_verif_gsfetch_test.go": "ethereum/gsfetch_verif_test.go",
}

# The guardian-set fetch cases (harness/ethereum/gsfetch_verif_test.go, driver op `gsf`). The clause belongs to C07 ("a VAA the
# node considers complete is accepted on chain and an incomplete one is not": the node's threshold is computed from the set the
# watcher hands to the processor, the contracts' from the set on chain); C10 runs and reports it as well.
GSFETCH_CLAUSES = ("guardian-set-altered-before-processor",)
GSFETCH_TEST = "TestVerifGuardianSetFetch"


def classify(clause, case, verdict):
    return clause


def _ensure_evm_driver(ctx):
    """The caller's ctx.prove(families=...) normally builds drv_evm and takes a private copy; if it did not list "evm", do it here."""
    priv = os.path.join(ctx.work, "bin", "drv_evm")
    if os.path.exists(priv):
        return True
    with vlib.Lock("lake"):
        rc, out = ctx.lake_build(["drv_evm"])
        if rc != 0:
            ctx.broken.append(("tie", "driver-build", "lake build drv_evm failed: %s" % "; ".join(re.findall(r"error: ([^\n]*)", out)[:5])[:600]))
            return False
        os.makedirs(os.path.dirname(priv), exist_ok=True)
        shutil.copy2(os.path.join(vlib.BIN, "drv_evm"), priv)
    return True


def run_gsfetch_for(ctx, clauses):
    """Run the guardian-set fetch harness against vlib.REPO and judge it with the evm driver; keep only the Spec verdicts whose
    clause is in `clauses` (a tuple of clause names, normally GSFETCH_CLAUSES). Callable from any check module:
        from checks import c10; c10.run_gsfetch_for(ctx, c10.GSFETCH_CLAUSES)
    Needs nothing from the caller beyond a vlib.Ctx (it builds drv_evm itself when ctx.prove was not given the family "evm").
    Returns the number of fetches on which model and implementation agreed and the clause held."""
    path = os.path.join(ctx.work, "gsfetch.cases")
    if not getattr(ctx, "_gsfetch_ran", False):
        # (C10's own run() has already produced the file in the same `go test` invocation as the evm cases)
        if os.path.exists(path):
            os.remove(path)
        ov = ctx.overlay(OVERLAY, p2p_stub=True)
        if ov is None:
            return 0
        rc, out = ctx.go_test("node", "./pkg/ethereum", "^%s$" % GSFETCH_TEST, ov, timeout=600)
        if rc != 0 or not os.path.exists(path):
            ctx.broken.append(("tie", "go-harness:gsfetch", out[-1500:]))
            if not os.path.exists(path):
                return 0
    if not _ensure_evm_driver(ctx):
        return 0
    lines = [ln.rstrip("\n") for ln in open(path) if ln.startswith("gsf ")]
    before = len(ctx.spec_violations)
    n_ok, stats = ctx.judge("evm", path, classify)
    kept = [v for v in ctx.spec_violations[before:] if v["key"] in clauses]
    dropped = len(ctx.spec_violations) - before - len(kept)
    ctx.spec_violations[before:] = kept
    if dropped:
        ctx.notes.append("%d Spec verdicts of the guardian-set fetch cases belong to another check" % dropped)
    sizes = sorted(set(int(m.group(1)) for m in (re.search(r" cn=(\d+) ", ln) for ln in lines) if m))
    ctx.cov["evaluations"] += len(lines)
    ctx.cov["gsfetch"] = {"fetches": len(lines), "agreed_and_held": n_ok, "set_sizes_on_chain": sizes,
                          "via_run": sum(1 for ln in lines if " via=run " in ln)}
    ctx.cov["samples"] += [ln[:400] for ln in lines[:1]]
    ctx.cov["trusted_base"] += [
        "harness/ethereum/gsfetch_verif_test.go (the fake node's guardian-set getters answer eth_call with go-ethereum's own ABI packer; "
        "rendering of what arrived on setC) and the `gsf` op of Whv/Driver/Evm.lean",
    ]
    return n_ok


# C04's share of the evm harness ("It does not depend on ... which guardian computes it ... every honest guardian observing the
# same message signs the same 32 bytes"): what the EVM watcher hands to the processor for one on-chain message must be that
# message - in particular with the time of the block its receipt points to at that moment - on the log path and on the
# re-observation path, whatever the watcher resolved earlier.  C10 owns these clauses; C04 runs the harness part `c04` (the
# same-height reorg histories, harness/ethereum/evm_gen_verif_test.go sameHeightCases) and reports them as well.
C04_CLAUSES = ("forwarded-timestamp-not-block-time", "forwarded-altered")


def run_reobs_for_c04(ctx):
    """Run the evm harness part `c04` against vlib.REPO in a scratch directory of its own and judge it with drv_evm; keep only the
    Spec verdicts whose clause is in C04_CLAUSES (everything else the part shows belongs to C10 and is reported there; a broken
    harness is reported).  Self-sufficient: builds drv_evm when the caller's ctx.prove did not list the family."""
    outer = ctx.work
    ctx.work = os.path.join(vlib.WORK, "%s.evm.%d" % (ctx.pid, os.getpid()))
    shutil.rmtree(ctx.work, ignore_errors=True)
    os.makedirs(ctx.work, exist_ok=True)
    n_broken, n_spec = len(ctx.broken), len(ctx.spec_violations)
    try:
        if not _ensure_evm_driver(ctx):
            return 0
        ov = ctx.overlay(OVERLAY, p2p_stub=True)
        if ov is None:
            return 0
        src = os.path.join(ctx.work, "evm.cases")
        rc, out = ctx.go_test("node", "./pkg/ethereum", "^TestVerifEvm$", ov, env={"VERIF_PART": "c04"}, timeout=300)
        if rc != 0 or not os.path.exists(src) or os.path.getsize(src) == 0:
            ctx.broken.append(("tie", "go-harness:evm(c04)", out[-1200:]))
            return 0
        ops = {}
        sample = []
        with open(src) as f:
            for ln in f:
                op = ln.split(" ", 1)[0]
                ops[op] = ops.get(op, 0) + 1
                if op == "reobs" and len(sample) < 1:
                    sample.append(ln.strip()[:500])
        keep = {k: ctx.cov.get(k) for k in ("traces_validated_against_impl", "driver_stats")}
        before = len(ctx.spec_violations)
        n_ok, stats = ctx.judge("evm", src, classify)
        kept = [v for v in ctx.spec_violations[before:] if v["key"] in C04_CLAUSES]
        dropped = len(ctx.spec_violations) - before - len(kept)
        ctx.spec_violations[before:] = kept
        if dropped:
            ctx.notes.append("%d Spec verdicts of the evm same-height reorg histories belong to C10" % dropped)
        for k, v in keep.items():
            if v is not None:
                ctx.cov[k] = v
        ctx.cov["evaluations"] += sum(ops.values())
        ctx.cov["evm_same_height_reorg"] = {"ops": ops, "cases_agreed_and_held": n_ok}
        ctx.cov["samples"] += sample
        ctx.cov["trusted_base"] += [
            "harness/ethereum/*_verif_test.go (fake EVM node, the real Watcher.Run; part `c04`: re-observation and log delivery across a "
            "reorg that keeps the height) + Whv/Driver/Evm.lean for the EVM part"]
        return n_ok
    finally:
        if len(ctx.broken) == n_broken and len(ctx.spec_violations) == n_spec and not os.environ.get("VERIF_KEEP"):
            shutil.rmtree(ctx.work, ignore_errors=True)
        ctx.work = outer


def config_fact(ctx):
    """"(zero on chains read at finalized height)": Run reads finalized blocks iff chainID == ChainIDEthereum (modelled, tied);
    whether that watcher is constructed with waitForConfirmations=false is a fact of cmd/guardiand/node.go, re-read here."""
    path = os.path.join(vlib.REPO, "node/cmd/guardiand/node.go")
    try:
        src = vlib.read(path)
    except OSError:
        ctx.notes.append("config fact: node.go not readable, finalized-chain confirmation mode not re-checked")
        return
    calls = re.findall(r"ethereum\.NewEthWatcher\(([^\n]*?)\)\.Run", src)
    facts = []
    for c in calls:
        args = [a.strip() for a in c.split(",")]
        if len(args) < 11:
            continue
        facts.append((args[4], args[-1]))
        if args[4] == "vaa.ChainIDEthereum" and args[-1] != "false":
            ctx.spec_violations.append({
                "key": "finalized-chain-waits-confirmations",
                "what": "node.go constructs the Ethereum watcher (the chain read at finalized height) with waitForConfirmations=%s" % args[-1],
                "replay": {"family": "evm", "case_id": "node.go", "clause": "finalized-chain-waits-confirmations", "case": [c[:400]]}})
    ctx.cov["config_facts"] = ["NewEthWatcher(chain=%s, waitForConfirmations=%s)" % f for f in facts]
    if not facts:
        ctx.notes.append("config fact: no NewEthWatcher call recognised in node.go, finalized-chain confirmation mode not re-checked")


def run(ctx):
    ctx.prove(families=("evm",))
    config_fact(ctx)
    ov = ctx.overlay(OVERLAY, p2p_stub=True)
    if ov is None:
        return
    # one `go test` invocation for both harnesses (the package's test binary is linked once)
    rc, out = ctx.go_test("node", "./pkg/ethereum", "^(TestVerifEvm|%s)$" % GSFETCH_TEST, ov, timeout=1500 if ctx.tier == "thorough" else 400)
    ctx._gsfetch_ran = os.path.exists(os.path.join(ctx.work, "gsfetch.cases"))
    src = os.path.join(ctx.work, "evm.cases")
    if not os.path.exists(src):
        ctx.broken.append(("tie", "go-harness", out[-1500:]))
        return
    if rc != 0:
        # the process under test crashed or the harness failed: still judge the cases written before that
        ctx.broken.append(("tie", "go-harness", out[-1500:]))
    ops = {}
    ids = set()
    samples = []
    with open(src) as f:
        for ln in f:
            parts = ln.split(" ", 2)
            if len(parts) < 2:
                continue
            ops[parts[0]] = ops.get(parts[0], 0) + 1
            ids.add(parts[1])
            if ops[parts[0]] <= 2 and len(samples) < 10:
                samples.append(ln.strip()[:600])
    n_ok, stats = ctx.judge("evm", src, classify)
    n_ok += run_gsfetch_for(ctx, GSFETCH_CLAUSES)
    ctx.cov["evaluations"] += sum(ops.values())
    ctx.cov["distinct_nontrivial"] += n_ok
    ctx.cov["samples"] += samples
    ctx.cov["generator_distribution"] = ops
    ctx.cov["cases"] = len(ids)
    ctx.cov["rule"] = (
        "ws cases: the real Watcher.Run under a real supervisor against a scripted fake EVM node (go-ethereum rpc.Server over a "
        "websocket); each case is a generated history of log deliveries (1-3 messages per tx, re-deliveries, removed logs, "
        "undecodable logs, block-time failures), head moves (+1, +few, landing exactly on height+conf-1/+0/+1/+59/+60/+61, jumps "
        "of 62..100000, stalls, decreases; poll failures 1..3 in a row, number-less blocks), receipt answers per pending tx "
        "(same block, moved block, null, 'not found' error, other RPC error, failed status, malformed with/without status) and "
        "re-observation requests (foreign contract, other topic, topic-less foreign log, nil log, undecodable data, failed tx, "
        "depth at -2..+2 of the boundary, head moving while the receipt request is in flight, block-number failure, head 0); "
        "every chain-id class (Ethereum finalized tag / dev mode / other chains) and both confirmation modes; plus fixed scenarios "
        "for every jump size 0,1,9,59,60,61,70,500 beyond height+conf in 16 configurations. Op `race` (24 fixed scenarios + a "
        "generated choice whenever something is pending): the node moves to a head at which a pending message has reached its depth "
        "and HOLDS the answer to the scan's first eth_getTransactionReceipt; meanwhile the log of a new message is pushed to the "
        "subscription; the answer is released only when the log goroutine has gone as far as it can (entry present in w.pending, or "
        "the goroutine parked on pendingMu - read from goroutine states); later heads must forward the new message exactly once. "
        "Fixed re-observation scenarios on a chain read at finalized height (finalized 100 / latest 132, block at -1,0,+1,+21,+32,+33 "
        "of the finalized head, request repeated when finality catches up) with dev mode as control; the fake node also serves "
        "eth_blockNumber (= latest head) and every head read of a re-observation is recorded (`hq`). "
        "Op `restart`: when Run has returned with an RPC-induced error (block-time lookup of a log failing or answering null, an "
        "undecodable log ending the log subscription, three failed / number-less head polls ending the head subscription) the "
        "supervised runnable hands the error to the real supervisor, which cancels the old incarnation and - after its own back-off - "
        "calls Run again on the SAME Watcher; the history goes on and everything forwarded across incarnations is judged by the same "
        "Spec (a restart processes no head: nothing may be forwarded and nothing may leave the pending set - `pending-lost`; later heads "
        "must forward every message that was pending, exactly once - `final-not-forwarded` / `forwarded-twice`). Fixed scenarios per "
        "cause x confirmation mode (a message forwarded before, one pending, after a transient receipt failure, a restarted incarnation "
        "whose guardian-set call fails and is restarted again; the head moves on while the new poller is off, the log of a new message "
        "switches it on) and a bounded number of restarts inside the generated histories (4 quick / 150 thorough). Barriers of a "
        "restart: the old incarnation's goroutines have ended, the new one has logged its guardian-set fetch, Run is parked in its final "
        "select and the new poller is idle after its first block read (goroutine states); the only real-time wait is the supervisor's own "
        "back-off. "
        "Failing FIRST block query of the poller (`pe=`/`nn=`/`tried=` of a start or restart line): the first eth_getBlockByNumber of a "
        "fresh BlockPollConnector fails (RPC error or number-less block) - 3 fixed scenarios on the chain read at finalized height "
        "(finalized 100 / latest 132, dev mode as control: a message logged in block 105, a re-observation request for block 104, "
        "finality advancing to 101, 105, 106), up to 3 generated cases per run in any configuration, and one restart scenario; the "
        "Spec judges every later hand-over against the heads the node served at the height the CONFIGURATION reads (`forwarded-not-final` "
        "when a message was handed over at a processed head beyond them, `reobs-not-final`, `head-not-served`). "
        "Op `rreobs` (96 fixed scenarios in 4 configurations + one in three generated re-observations while the poller is off): the node "
        "runs in step mode - every head / receipt / block-time request of the re-observation parks at the node and the harness releases "
        "them one by one - and changes branch after k = 0..4 of them (receipt gone / re-mined 0..3 blocks higher / failed there / "
        "untouched, heads moving up to or past the message's depth, or down); the line carries both views and the requests in order "
        "with the view each was answered in. A handed-over message must be justified in one of the two views by the heads the watcher "
        "had seen by then (`reobs-receipt-moved`: deep enough only under a head read after the receipt had stopped pointing to the block). "
        "Same-height reorg histories (`sh` cases, 3 configurations x 4 rounds): a transaction re-observed in block (N, h1, t1), again after it "
        "was re-mined in (N, h2, t2) (t2 later / earlier / far), another transaction of the new block, the chain flipping back, the "
        "transaction one block higher, a block of that height whose time lookup fails and then answers, the same change inside one request "
        "(step mode), and on the log path a message logged in (M, hA, tA) and again in (M, hB, tB): every hand-over must carry the time of "
        "the block the receipt points to at that moment (`forwarded-timestamp-not-block-time`, also reported by C04). "
        "Synchronised by barriers (RPC requests seen "
        "by the node, the watcher's own log lines, pointer identity of pending entries, an unbuffered request channel, goroutine "
        "states of the poller / the log goroutine); no sleeps, "
        "no wall-clock values in the output. direct cases: MessageEventsForTransaction / getBlock / pollBlocks with a scripted "
        "Connector (panics recovered). Compared per op: processed heads, receipt and block-time lookups, forwarded messages (all "
        "fields), per-message outcome, pending set with heights, poller enabled flag, Run exit kind, re-observation decisions in order, "
        "the block tag / method of the re-observation head read, whether a log delivered during a scan was inserted during or after it. "
        "distinct_nontrivial = cases (one Run, or one direct call) on which model and implementation agreed on every op and the Spec "
        "held on the implementation's results")
    ctx.cov["trusted_base"] += [
        "harness/ethereum/*_verif_test.go (fake node, barriers, generator, canonical rendering) and Whv/Driver/Evm.lean (comparison, Spec evaluation)",
        "go-ethereum v1.10.21 rpc/ethclient/abi (JSON-RPC transport, receipt decoding, ABI log decoding): what the client returns for "
        "a node answer is modelled by Whv.Evm.clientView and observed on every run, not proved",
        "supervisor, zap, readiness, p2p registry (p2p.Run stubbed): exercised, not modelled",
        "the node honours the eth_subscribe filter (the filter the watcher sends is checked, clause sub-filter)",
    ]
    ctx.assumptions += [
        "block heights, consistency level and the 60-block window do not overflow uint64 (theorems carry the hypothesis NoOverflow; the "
        "generator stays below 2^40)",
        "liveness half (forwarded at the first processed head with height+conf <= head) is relative to the poller publishing heads and "
        "to the node's answers; the poller only runs while something is pending",
        "re-observation during a change of branch: blocks stay retrievable by hash on either branch (as on a real node); a change after "
        "the request's last RPC request is outside what any implementation can see and is justified by the earlier view",
        "guardian-set polling (the 15 s ticker) and dial/subscribe failures at start-up other than a failing guardian-set call or a failing "
        "first block query of the poller are outside "
        "the modelled behaviour; restarts of Run by the supervisor are modelled (`restart`: the Watcher's pending set is kept, the new "
        "poller starts switched off with the current head as its last block)",
    ]
    ctx.notes += [
        "scope note (restart): the BlockPollConnector of a restarted Run starts disabled although w.pending may be non-empty; messages that "
        "were pending at the restart are examined again only after the next log delivery has switched the poller on (modelled: `restart`, "
        "witnessed: last conjunct of c10_restart_fresh_witness, observed on every restart line: en=0). Not reported: the liveness half of "
        "the Spec is relative to the heads the watcher processes.",
        "scope note: MessageEventsForTransaction panics (index out of range) on a topic-less log emitted by the core contract address, "
        "and (nil dereference) on a nil receipt or a receipt without block number; modelled as EvtRes.panic and confirmed on the direct "
        "layer (stat evt_panic_agree). Not reachable with a standard node: the core contract emits no anonymous events, ethclient turns a "
        "null receipt into an error and mined receipts carry a block number. Inside Run such a panic would crash the guardian.",
    ]
