"""C01 - see DESIGN.md §7 C01; processor family."""
from checks import proccommon


def run(ctx):
    ctx.prove(families=("processor",))
    proccommon.run_processor(ctx, "C01", "")
