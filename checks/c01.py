"""C01 - see DESIGN.md §7 C01; processor family. Whv/Props/C01.lean also uses the quorum formulas translated from the
contracts (published_accepted_on_chain), so the C07 facts are regenerated here as well."""
from checks import proccommon, c07


def gen(ctx):
    return c07.gen(ctx)


def run(ctx):
    facts, ok = gen(ctx)
    ctx.cov["gen_facts"] = {k: {"source": v[2], "expr": v[1]} for k, v in facts.items() if not k.startswith("_")}
    ctx.prove(families=("processor",))
    proccommon.run_processor(ctx, "C01", "")
