"""C01 - see DESIGN.md §7 C01; processor family. Whv/Props/C01.lean also uses the quorum formulas translated from the
contracts (published_accepted_on_chain), so the C07 facts are regenerated here as well."""
from checks import proccommon, c07, c12


def gen(ctx):
    return c07.gen(ctx)


def run(ctx):
    facts, ok = gen(ctx)
    ctx.cov["gen_facts"] = {k: {"source": v[2], "expr": v[1]} for k, v in facts.items() if not k.startswith("_")}
    ctx.prove(families=("processor", "db"))
    proccommon.run_processor(ctx, "C01", "")
    # "... or backfill responses": FindMissingMessages with RpcBackfill must hand what a node served to the processor's inbound
    # path (verified there, see the `inb` lines above) and never write the store itself
    rule = ctx.cov["rule"]
    c12.run_backfill_for(ctx, c12.BACKFILL_C01)
    ctx.cov["rule"] = rule + (" | backfill: nodePrivilegedService.FindMissingMessages with RpcBackfill against scripted fake nodes; what reaches the "
                              "inbound channel must be exactly what a node served for a missing id, and the store must be untouched by the call")
