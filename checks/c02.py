"""C02 - see DESIGN.md §7 C02; processor family."""
from checks import proccommon


def run(ctx):
    ctx.prove(families=("processor",))
    proccommon.run_processor(ctx, "C02", "SCALE (C02 only): remoteFirstFamily - 2100 messages on ONE Processor, each delivered other guardian's observation "
                             "first, then the local observation and its loopback (quorum of a two-guardian set); completed entries aged out every 16 "
                             "messages, the case id then changes (reset line, same Processor) so that state and store dumps stay small.")
