"""C16 - acknowledged VAA writes survive a crash of the node (fault enumeration; proof partial by nature)."""
import os

LEVEL = "fault_enumeration"


def classify(clause, case, verdict):
    return clause


def run(ctx):
    ctx.prove(families=("crash", "db"))
    ov = ctx.overlay({"node/pkg/db/zz_verif_c16_crash_test.go": "db/c16_crash_verif_test.go"})
    path = os.path.join(ctx.work, "crash.cases")
    rc, out = ctx.go_test("node", "./pkg/db", "^TestVerifCrash$", ov, timeout=600 if ctx.tier == "quick" else 5400)
    if rc != 0 or not os.path.exists(path):
        ctx.broken.append(("tie", "go-harness", out[-800:]))
        return
    n = 0
    samples = []
    seen = set()
    kinds = {}
    with open(path) as f:
        for ln in f:
            op = ln.split(" ", 1)[0]
            kinds[op] = kinds.get(op, 0) + 1
            if op in ("rec", "open"):
                n += 1
            if op not in seen and op != "begin" and len(samples) < 6:
                seen.add(op)
                samples.append(ln.strip()[:260])
    n_ok, stats = ctx.judge("crash", path, classify)
    ctx.cov["evaluations"] += n
    # distinct fault points = kill cycles in which the SIGKILL hit while the child was still storing
    ctx.cov["distinct_nontrivial"] += stats.get("kills_mid_stream", 0)
    ctx.cov["samples"] += samples
    ctx.cov["generator_distribution"] = kinds
    ctx.cov["rule"] = (
        "fault = SIGKILL of a child process that runs the real db.Open + StoreSignedVAA on a directory under .work, delivered after a "
        "PRNG-chosen number of acknowledged stores (0 .. quota, incl. before/right after Open and after the whole quota) plus a PRNG-chosen "
        "delay of 0-1.5 ms; %d-cycle sequences on the SAME directory (quick: 2 directories x 10 cycles x up to 1200 stores over 900 identifiers "
        "with a hot overwrite set, payloads 40 B - 32 KB, one attempt in 25 a VAA that StoreSignedVAA acknowledges and vaa.Unmarshal rejects - empty / nil payload, version 0 / 2 - which has to come back byte-exact and must not keep the directory from reopening; thorough: 4 directories x 40 cycles x 1500 stores over 2500 identifiers, payloads up to 1.3 MB so the value "
        "log is used); after every kill a second child reopens the directory with db.Open and reads back EVERY identifier of the universe "
        "(that child is then either closed cleanly or SIGKILLed too). evaluations = reopen results + lookups judged by acceptKey; "
        "distinct_nontrivial = kill cycles where the kill hit mid-stream (the child had not finished its quota); the verdict per lookup is "
        "acceptKey(attempt history, answer): an acknowledged id must be found with bytes not older than its newest acknowledged store, any bytes "
        "found must equal some store under that id, the store must reopen") % (10 if ctx.tier == "quick" else 40)
    ctx.cov["trusted_base"] += [
        "harness/db/c16_crash_verif_test.go: the parent's bookkeeping (an attempt counts as acknowledged iff its complete 'ack' line reached the parent's pipe) "
        "and Whv/Driver/Crash.lean",
        "the OS delivers SIGKILL asynchronously: the enumeration samples kill points, it does not cover every instruction boundary",
    ]
    ctx.assumptions += [
        "PARTIAL BY NATURE: the Lean theorems (acked_survive, acked_survive_forever, lookup_exact, accept_sound, accept_*_meaning) are about the crash CONTRACT "
        "(durable log; put appends then acknowledges; a crash loses only un-acknowledged newest entries; reopen replays). That badger v3 + the kernel "
        "implement this contract — memtable WAL via mmap, value log, manifest, the page cache surviving a process kill — is NOT modelled and not proved; "
        "it is only observed on the enumerated kill points",
        "process kill only: power loss / kernel crash are out of scope (db.Open uses badger.DefaultOptions, SyncWrites=false, so un-synced pages would be lost)",
        "the filesystem under .work is whatever the host provides; no fault is injected below the process (no torn sectors, no ENOSPC)",
        "a store that was in flight at the kill may or may not be visible afterwards; both are accepted (the statement only speaks about stores that returned success)",
    ]

    # "returned intact by every later lookup": the public RPC is such a lookup. The RPC part of the C12 harness (real
    # PublicrpcServer over a real store: miss, store, lookup again; overwrite, lookup again) - C16 reports only the clauses that say a
    # stored VAA is not (byte-exactly) returned
    from checks import c12
    rule = ctx.cov.get("rule", "")
    dist = ctx.cov.get("generator_distribution")
    c12.run_rpc_for(ctx, c12.RPC_C16)
    ctx.cov["rule"] = rule + " | RPC lookups: the publicrpc part of the C12 harness, clauses rpc-get-lost / rpc-get-wrong-bytes and, entry by entry for GetNonGovernanceVAABatch (all sequences of every stream, stored ones and holes, in batches of 2..20), rpc-batch-wrong-bytes / rpc-batch-phantom / rpc-batch-lost; a stored identifier whose lookup ends with an error on a readable store counts as rpc-get-lost / rpc-batch-lost too; chain ids over the whole uint16 range (enum values, their neighbours, 256+), lookups repeated after a clean restart of the store"
    if dist is not None:
        ctx.cov["generator_distribution"] = dist
