"""C15 - governance requests become exactly the VAA the contracts parse, or are rejected.

gen(ctx): extractor for the Ralph governance parsers -> lean/Whv/Gen/C15.lean.

For each governance action the contracts accept, the slice bounds `byteVecSlice!(payload, a, b)`, the width of the
`u256From<N>Byte!` conversion wrapped around it, the action byte, the module constant and the `size!(payload) == k`
equation are read from the sources of /repo's working tree.  The contracts cannot be executed here (no compiler, no VM):
this extraction is the only tie to them, so every pattern that is not found fails loudly (ctx.gen_fail).
The extraction is TOLERANT about values: whatever offsets / conversion widths / size equations the parsers carry are emitted
as data (also when a `u256From<N>Byte!` width does not fit its slice - that is recorded as a deviation, i.e. an obligation
that no longer checks, exactly as before); only a parser whose shape cannot be made sense of fails the extraction as a whole.

run(ctx): Gen -> lake build Whv.Props.C15 + drv_gov (axiom audit) -> Go harness (overlay, p2p stub) over the real
InjectGovernanceVAA -> Lean driver: Spec on the implementation's own VAAs first, then model-vs-implementation diff.
The extracted facts also travel to the driver as the first line of its input (`facts - k=v ...`): the driver evaluates the
contract-side parsers (Whv.Gov.RalF) instantiated with the facts of the CURRENT sources on every payload the real node
emitted, so a contract change that no longer parses what the node emits is reported with the concrete request
(`contract-rejects-node-payload` / `contract-reads-other-value`), not only as a theorem that stopped building.
`./check C15 --replay <file>` re-executes the recorded request(s) against the real code of the current tree.
"""
import os, re
import vlib

GOV = "alephium/contracts/governance.ral"
TBG = "alephium/contracts/token_bridge/token_bridge_governance.ral"
FAC = "alephium/contracts/token_bridge/token_bridge_factory.ral"
TBC = "alephium/contracts/token_bridge/token_bridge_for_chain.ral"


class Missing(Exception):
    pass


def fn_bodies(src):
    """name -> text of every `fn name(...) ... { ... }` (bodies end at a closing brace indented like the `fn`)."""
    out = {}
    for m in re.finditer(r"^([ \t]*)(?:@using\([^\n]*\)\s*\n[ \t]*)?(?:pub\s+)?fn\s+(\w+)\s*\(", src, re.M):
        indent = m.group(1)
        end = re.compile(r"^" + re.escape(indent) + r"\}", re.M).search(src, m.end())
        if end:
            out[m.group(2)] = src[m.start():end.end()]
    return out


def need(pat, text, what, flags=0):
    m = re.search(pat, text, flags)
    if not m:
        raise Missing(what)
    return m


def fn_for_action(fns, action, where):
    hits = [b for b in fns.values() if re.search(r"parseAndVerifyGovernanceVAA\(\s*vaa\s*,\s*ActionId\.%s\s*\)" % action, b)]
    if len(hits) != 1:
        raise Missing("exactly one function calling parseAndVerifyGovernanceVAA(vaa, ActionId.%s) in %s (found %d)" % (action, where, len(hits)))
    return hits[0]


def slice_named(body, name, what, conv=None, src="payload", dev=None):
    """`let <name> = [u256From<N>Byte!(]byteVecSlice!(payload, a, b)[)]` -> (a, b, N or None).
    A conversion width N that differs from the expected one or from b - a is a deviation (appended to `dev`), not a failure."""
    m = need(r"let\s+(?:mut\s+)?%s\s*=\s*(?:(\w+)!\()?byteVecSlice!\(\s*%s\s*,\s*(\d+)\s*,\s*(\d+)\s*\)\)?" % (name, src), body,
             "`let %s = ...byteVecSlice!(%s, a, b)` in %s" % (name, src, what))
    a, b = int(m.group(2)), int(m.group(3))
    c = m.group(1)
    if conv is not None:
        if c is None:
            raise Missing("%s in %s is no longer converted with u256From%dByte!" % (name, what, conv))
        mm = re.fullmatch(r"u256From(\d+)Byte", c)
        if not mm:
            raise Missing("%s in %s: unexpected conversion %s!" % (name, what, c))
        n = int(mm.group(1))
        if n != conv or b - a != conv:
            if dev is None:
                raise Missing("%s in %s: conversion %s! does not match a %d-byte slice [%d,%d)" % (name, what, c, conv, a, b))
            dev.append("%s in %s: conversion %s! over the slice [%d,%d) - expected u256From%dByte! over a %d-byte slice" % (name, what, c, a, b, conv, conv))
        return (a, b, n)
    elif c is not None and c != "byteVecToAddress":
        raise Missing("%s in %s: unexpected conversion %s!" % (name, what, c))
    return (a, b, None)


def size_literal(body, what):
    m = need(r"assert!\(\s*size!\(payload\)\s*==\s*(\d+)\s*,", body, "`assert!(size!(payload) == <n>` in " + what)
    return int(m.group(1))


def size_linear(body, var, what):
    """`let payloadSize = base + var [* stride]` + `assert!(size!(payload) == payloadSize` -> (base, stride)."""
    m = need(r"let\s+payloadSize\s*=\s*(\d+)\s*\+\s*%s(?:\s*\*\s*(\d+))?\s*\n" % var, body, "`let payloadSize = <base> + %s [* stride]` in %s" % (var, what))
    need(r"assert!\(\s*size!\(payload\)\s*==\s*payloadSize\s*,", body, "`assert!(size!(payload) == payloadSize` in " + what)
    return int(m.group(1)), int(m.group(2) or 1)


def enum_actions(src, where):
    m = need(r"enum\s+ActionId\s*\{(.*?)\}", src, "enum ActionId in " + where, re.S)
    acts = {k: int(v, 16) for k, v in re.findall(r"(\w+)\s*=\s*#([0-9a-fA-F]{2})\b", m.group(1))}
    return acts


def extract(dev=None):
    """facts dict; `dev` (a list) collects deviations the parsers' VALUES show (conversion widths that do not fit); without it
    every deviation is a Missing as well."""
    f = {}

    def sl(key, body, name, what, conv=None):
        a, b, n = slice_named(body, name, what, conv, dev=dev)
        f[key] = (a, b)
        if conv is not None:
            f[key + "Conv"] = n
    gov = vlib.read_contract(GOV)
    tbg = vlib.read_contract(TBG)
    fac = vlib.read_contract(FAC)
    gfn, tfn, ffn = fn_bodies(gov), fn_bodies(tbg), fn_bodies(fac)

    f["coreModule"] = int(need(r"const\s+CoreModule\s*=\s*0x([0-9a-fA-F]+)", gov, "const CoreModule in " + GOV).group(1), 16)
    f["tokenBridgeModule"] = int(need(r"const\s+TokenBridgeModule\s*=\s*0x([0-9a-fA-F]+)", tbg, "const TokenBridgeModule in " + TBG).group(1), 16)
    core, tb = enum_actions(gov, GOV), enum_actions(tbg, TBG)
    for k in ("ContractUpgrade", "NewGuardianSet", "NewMessageFee", "TransferFee"):
        if k not in core:
            raise Missing("ActionId.%s in %s" % (k, GOV))
    for k in ("RegisterChain", "ContractUpgrade", "DestroyUnexecutedSequences", "UpdateMinimalConsistencyLevel", "UpdateRefundAddress"):
        if k not in tb:
            raise Missing("ActionId.%s in %s" % (k, TBG))
    f["coreActions"], f["tbActions"] = core, tb

    # generic header: emitter, module, action
    gen = gfn.get("parseAndVerifyGovernanceVAAGeneric")
    if not gen:
        raise Missing("fn parseAndVerifyGovernanceVAAGeneric in " + GOV)
    need(r"assert!\(\s*emitterChainId\s*==\s*governanceChainId\s*,", gen, "emitter chain check in parseAndVerifyGovernanceVAAGeneric")
    need(r"assert!\(\s*emitterAddress\s*==\s*governanceEmitterAddress\s*,", gen, "emitter address check in parseAndVerifyGovernanceVAAGeneric")
    m = need(r"assert!\(\s*u256From(\d+)Byte!\(byteVecSlice!\(payload,\s*(\d+),\s*(\d+)\)\)\s*==\s*coreModule\s*,", gen, "module check in parseAndVerifyGovernanceVAAGeneric")
    f["moduleSlice"] = (int(m.group(2)), int(m.group(3)))
    f["moduleConv"] = int(m.group(1))
    if f["moduleSlice"][1] - f["moduleSlice"][0] != 32 or f["moduleConv"] != 32:
        msg = "module check reads u256From%dByte! over [%d,%d) - expected 32 bytes" % (f["moduleConv"], f["moduleSlice"][0], f["moduleSlice"][1])
        if dev is None:
            raise Missing(msg)
        dev.append(msg)
    m = need(r"assert!\(\s*byteVecSlice!\(payload,\s*(\d+),\s*(\d+)\)\s*==\s*action\s*,", gen, "action check in parseAndVerifyGovernanceVAAGeneric")
    f["actionSlice"] = (int(m.group(1)), int(m.group(2)))
    need(r"parseAndVerifyGovernanceVAAGeneric\(\s*vaa\s*,\s*receivedSequence\s*,\s*CoreModule\s*,\s*action\s*\)", gfn.get("parseAndVerifyGovernanceVAA", ""),
         "core parseAndVerifyGovernanceVAA passing CoreModule")
    need(r"parseAndVerifyGovernanceVAAGeneric\(\s*vaa\s*,\s*receivedSequence\s*,\s*TokenBridgeModule\s*,\s*action\s*\)", tfn.get("parseAndVerifyGovernanceVAA", ""),
         "token bridge parseAndVerifyGovernanceVAA passing TokenBridgeModule")
    # the header's guardian set index of a governance VAA must be the current one
    pv = gfn.get("parseAndVerifyVAA")
    if not pv:
        raise Missing("fn parseAndVerifyVAA in " + GOV)
    m = need(r"let\s+guardianKeyIndex\s*=\s*(\d+)\s*\+\s*guardianIndex\s*\*\s*(\d+)", pv, "guardianKeyIndex = 1 + guardianIndex * 20 in parseAndVerifyVAA")
    m2 = need(r"byteVecSlice!\(\s*guardians\s*,\s*guardianKeyIndex\s*,\s*guardianKeyIndex\s*\+\s*(\d+)\s*\)", pv, "guardian key slice in parseAndVerifyVAA")
    f["gsKey"] = (int(m.group(1)), int(m.group(2)), int(m2.group(1)))

    # --- core actions
    b = fn_for_action(gfn, "NewGuardianSet", GOV)
    sl("gsIndex", b, "newGuardianSetIndex", "NewGuardianSet", 4)
    sl("gsCount", b, "newGuardianSetSize", "NewGuardianSet", 1)
    f["gsSize"] = size_linear(b, "newGuardianSetSize", "NewGuardianSet")
    m = need(r"guardianSets\[1\]\s*=\s*byteVecSlice!\(\s*payload\s*,\s*(\d+)\s*,\s*payloadSize\s*\)", b, "guardianSets[1] = byteVecSlice!(payload, 37, payloadSize)")
    f["gsStoreFrom"] = int(m.group(1))
    need(r"assert!\(\s*newGuardianSetIndex\s*==\s*guardianSetIndexes\[1\]\s*\+\s*1\s*,", b, "new index = current + 1 assertion in NewGuardianSet")

    b = fn_for_action(gfn, "NewMessageFee", GOV)
    sl("feeValue", b, "fee", "NewMessageFee", 32)
    f["feeSize"] = size_literal(b, "NewMessageFee")

    b = fn_for_action(gfn, "TransferFee", GOV)
    sl("tfAmount", b, "amount", "TransferFee", 32)
    sl("tfRecipient", b, "recipient", "TransferFee")
    f["tfSize"] = size_literal(b, "TransferFee")

    # contract upgrades (core and token bridge) delegate to the factory's parser, which starts reading at `cuCodeLen`
    for fns, where in ((gfn, GOV), (tfn, TBG)):
        b = fn_for_action(fns, "ContractUpgrade", where)
        need(r"tokenBridgeFactory\.parseContractUpgrade\(\s*payload\s*\)", b, "parseContractUpgrade(payload) call in ContractUpgrade of " + where)
    b = ffn.get("parseContractUpgrade")
    if not b:
        raise Missing("fn parseContractUpgrade in " + FAC)
    sl("cuCodeLen", b, "contractCodeLength", "parseContractUpgrade", 2)
    lits = [int(a) for a in re.findall(r"byteVecSlice!\(\s*payload\s*,\s*(\d+)\s*,", b)]
    f["cuStart"] = min(lits)

    # --- token bridge actions
    b = fn_for_action(tfn, "RegisterChain", TBG)
    sl("rcChain", b, "remoteChainId", "RegisterChain", 2)
    sl("rcBridge", b, "remoteTokenBridgeId", "RegisterChain")
    f["rcSize"] = size_literal(b, "RegisterChain")

    b = fn_for_action(tfn, "DestroyUnexecutedSequences", TBG)
    sl("dsChain", b, "remoteChainIdBytes", "DestroyUnexecutedSequences")
    sl("dsCount", b, "length", "DestroyUnexecutedSequences", 2)
    f["dsSize"] = size_linear(b, "length", "DestroyUnexecutedSequences")
    m = need(r"let\s+paths\s*=\s*byteVecSlice!\(\s*payload\s*,\s*(\d+)\s*,\s*payloadSize\s*\)", b, "paths slice in DestroyUnexecutedSequences")
    f["dsPathsFrom"] = int(m.group(1))
    need(r"\.destroyUnexecutedSequenceContracts\(\s*paths\s*\)", b, "paths handed to TokenBridgeForChain.destroyUnexecutedSequenceContracts")
    tbc = vlib.read_contract(TBC)
    b = fn_bodies(tbc).get("destroyUnexecutedSequenceContracts")
    if not b:
        raise Missing("fn destroyUnexecutedSequenceContracts in " + TBC)
    m = need(r"for\s*\(let\s+mut\s+index\s*=\s*0\s*;\s*index\s*<\s*length\s*;\s*index\s*=\s*index\s*\+\s*(\d+)\s*\)", b, "path loop in " + TBC)
    m2 = need(r"byteVecSlice!\(\s*paths\s*,\s*index\s*,\s*index\s*\+\s*(\d+)\s*\)", b, "path slice in " + TBC)
    need(r"let\s+length\s*=\s*size!\(paths\)", b, "length = size!(paths) in " + TBC)
    if m.group(1) != m2.group(1):
        raise Missing("path loop step %s differs from path width %s in %s" % (m.group(1), m2.group(1), TBC))
    f["dsPathWidth"] = int(m2.group(1))

    b = fn_for_action(tfn, "UpdateMinimalConsistencyLevel", TBG)
    sl("clValue", b, "consistencyLevel", "UpdateMinimalConsistencyLevel", 1)
    f["clSize"] = size_literal(b, "UpdateMinimalConsistencyLevel")

    b = fn_for_action(tfn, "UpdateRefundAddress", TBG)
    sl("raLen", b, "addressSize", "UpdateRefundAddress", 2)
    f["raSize"] = size_linear(b, "addressSize", "UpdateRefundAddress")
    m = need(r"byteVecToAddress!\(byteVecSlice!\(\s*payload\s*,\s*(\d+)\s*,\s*payloadSize\s*\)\)", b, "address slice in UpdateRefundAddress")
    f["raAddrFrom"] = int(m.group(1))
    # the node side: the only bound the admin server applies to a guardian-set upgrade (adminserver.go: len(Guardians) > common.MaxGuardianCount)
    f["maxGuardianCount"] = go_const(vlib.gofold(GSET), "MaxGuardianCount", GSET)
    f["feeConv"] = f.pop("feeValueConv")
    f["clConv"] = f.pop("clValueConv")
    return f


GSET = "node/pkg/common/guardianset.go"


def go_const(src, name, where):
    """`const <name> = <integer constant expression>` of a Go file (literals, + - * / << >>, parentheses)."""
    m = need(r"^\s*(?:const\s+)?%s\s*(?:\w+\s*)?=\s*([^\n/]+?)\s*(?://[^\n]*)?$" % name, src, "const %s in %s" % (name, where), re.M)
    expr = m.group(1).strip()
    if not re.fullmatch(r"[0-9a-fA-FxX_\s+\-*/<>()]+", expr):
        raise Missing("const %s in %s is not an integer constant expression: %s" % (name, where, expr))
    try:
        v = eval(expr.replace("_", "").replace("/", "//"), {"__builtins__": {}}, {})
    except Exception:
        raise Missing("const %s in %s: cannot evaluate %s" % (name, where, expr))
    if not isinstance(v, int) or v < 0:
        raise Missing("const %s in %s: %s is not a natural number" % (name, where, expr))
    return v


def pair(p):
    return "(%d, %d)" % (p[0], p[1])


def render(f):
    L = ["namespace Whv.Gen.C15", ""]
    a = L.append
    a("/-- governance.ral: `const CoreModule`, token_bridge_governance.ral: `const TokenBridgeModule` (compared as U256 with payload[0,32)) -/")
    a("def coreModule : Nat := 0x%x" % f["coreModule"])
    a("def tokenBridgeModule : Nat := 0x%x" % f["tokenBridgeModule"])
    a("/-- parseAndVerifyGovernanceVAAGeneric: module and action slices -/")
    a("def moduleSlice : Nat × Nat := " + pair(f["moduleSlice"]))
    a("def actionSlice : Nat × Nat := " + pair(f["actionSlice"]))
    a("/-- the width N of the `u256From<N>Byte!` conversion wrapped around the module slice -/")
    a("def moduleConv : Nat := %d" % f["moduleConv"])
    a("/-- `enum ActionId` of both contracts -/")
    a("def actContractUpgrade : Nat := %d" % f["coreActions"]["ContractUpgrade"])
    a("def actNewGuardianSet : Nat := %d" % f["coreActions"]["NewGuardianSet"])
    a("def actNewMessageFee : Nat := %d" % f["coreActions"]["NewMessageFee"])
    a("def actTransferFee : Nat := %d" % f["coreActions"]["TransferFee"])
    a("def actRegisterChain : Nat := %d" % f["tbActions"]["RegisterChain"])
    a("def actBridgeContractUpgrade : Nat := %d" % f["tbActions"]["ContractUpgrade"])
    a("def actDestroy : Nat := %d" % f["tbActions"]["DestroyUnexecutedSequences"])
    a("def actMinConsistency : Nat := %d" % f["tbActions"]["UpdateMinimalConsistencyLevel"])
    a("def actRefundAddress : Nat := %d" % f["tbActions"]["UpdateRefundAddress"])
    a("/-- submitNewGuardianSet: index, count, `size!(payload) == base + count * stride`, stored blob start; parseAndVerifyVAA key i = blob[b + i*s, +w) -/")
    a("def gsIndex : Nat × Nat := " + pair(f["gsIndex"]))
    a("def gsCount : Nat × Nat := " + pair(f["gsCount"]))
    a("def gsIndexConv : Nat := %d\ndef gsCountConv : Nat := %d" % (f["gsIndexConv"], f["gsCountConv"]))
    a("def gsSizeBase : Nat := %d\ndef gsSizeStride : Nat := %d" % f["gsSize"])
    a("def gsStoreFrom : Nat := %d" % f["gsStoreFrom"])
    a("def gsKeyBase : Nat := %d\ndef gsKeyStride : Nat := %d\ndef gsKeyWidth : Nat := %d" % f["gsKey"])
    a("/-- submitSetMessageFee -/")
    a("def feeValue : Nat × Nat := " + pair(f["feeValue"]))
    a("def feeConv : Nat := %d" % f["feeConv"])
    a("def feeSize : Nat := %d" % f["feeSize"])
    a("/-- submitTransferFees -/")
    a("def tfAmount : Nat × Nat := " + pair(f["tfAmount"]))
    a("def tfAmountConv : Nat := %d" % f["tfAmountConv"])
    a("def tfRecipient : Nat × Nat := " + pair(f["tfRecipient"]))
    a("def tfSize : Nat := %d" % f["tfSize"])
    a("/-- TokenBridgeFactory.parseContractUpgrade: first thing read is the 2-byte code length; nothing is read below `cuStart` -/")
    a("def cuCodeLen : Nat × Nat := " + pair(f["cuCodeLen"]))
    a("def cuCodeLenConv : Nat := %d" % f["cuCodeLenConv"])
    a("def cuStart : Nat := %d" % f["cuStart"])
    a("/-- parseAndVerifyRegisterChain -/")
    a("def rcChain : Nat × Nat := " + pair(f["rcChain"]))
    a("def rcChainConv : Nat := %d" % f["rcChainConv"])
    a("def rcBridge : Nat × Nat := " + pair(f["rcBridge"]))
    a("def rcSize : Nat := %d" % f["rcSize"])
    a("/-- destroyUnexecutedSequenceContracts -/")
    a("def dsChain : Nat × Nat := " + pair(f["dsChain"]))
    a("def dsCount : Nat × Nat := " + pair(f["dsCount"]))
    a("def dsCountConv : Nat := %d" % f["dsCountConv"])
    a("def dsSizeBase : Nat := %d\ndef dsSizeStride : Nat := %d" % f["dsSize"])
    a("def dsPathsFrom : Nat := %d" % f["dsPathsFrom"])
    a("/-- TokenBridgeForChain.destroyUnexecutedSequenceContracts: paths are consumed in chunks of this many bytes -/")
    a("def dsPathWidth : Nat := %d" % f["dsPathWidth"])
    a("/-- updateMinimalConsistencyLevel -/")
    a("def clValue : Nat × Nat := " + pair(f["clValue"]))
    a("def clConv : Nat := %d" % f["clConv"])
    a("def clSize : Nat := %d" % f["clSize"])
    a("/-- updateRefundAddress -/")
    a("def raLen : Nat × Nat := " + pair(f["raLen"]))
    a("def raLenConv : Nat := %d" % f["raLenConv"])
    a("def raSizeBase : Nat := %d\ndef raSizeStride : Nat := %d" % f["raSize"])
    a("def raAddrFrom : Nat := %d" % f["raAddrFrom"])
    a("/-- node/pkg/common/guardianset.go `MaxGuardianCount`: the bound adminGuardianSetUpgradeToVAA applies to the number of guardians -/")
    a("def maxGuardianCount : Nat := %d" % f["maxGuardianCount"])
    a("")
    a("end Whv.Gen.C15")
    return "\n".join(L) + "\n"


def facts_line(f):
    """The facts as the header line of the driver's input (`facts - k=v ...`, pairs as `a:b`): Whv.Driver.GovFam parses it
    into a `Whv.Gov.Facts` and runs the contract-side parsers with THESE values, whatever Whv.Gen.C15 it was compiled against."""
    kv = []

    def put(k, v):
        kv.append("%s=%s" % (k, "%d:%d" % v if isinstance(v, tuple) else "%d" % v))
    put("coreModule", f["coreModule"]); put("tokenBridgeModule", f["tokenBridgeModule"])
    put("moduleSlice", f["moduleSlice"]); put("moduleConv", f["moduleConv"]); put("actionSlice", f["actionSlice"])
    for k, src in (("actContractUpgrade", "ContractUpgrade"), ("actNewGuardianSet", "NewGuardianSet"), ("actNewMessageFee", "NewMessageFee"),
                   ("actTransferFee", "TransferFee")):
        put(k, f["coreActions"][src])
    for k, src in (("actRegisterChain", "RegisterChain"), ("actBridgeContractUpgrade", "ContractUpgrade"), ("actDestroy", "DestroyUnexecutedSequences"),
                   ("actMinConsistency", "UpdateMinimalConsistencyLevel"), ("actRefundAddress", "UpdateRefundAddress")):
        put(k, f["tbActions"][src])
    for k in ("gsIndex", "gsIndexConv", "gsCount", "gsCountConv"):
        put(k, f[k])
    put("gsSizeBase", f["gsSize"][0]); put("gsSizeStride", f["gsSize"][1]); put("gsStoreFrom", f["gsStoreFrom"])
    put("gsKeyBase", f["gsKey"][0]); put("gsKeyStride", f["gsKey"][1]); put("gsKeyWidth", f["gsKey"][2])
    for k in ("feeValue", "feeConv", "feeSize", "tfAmount", "tfAmountConv", "tfRecipient", "tfSize", "cuCodeLen", "cuCodeLenConv", "cuStart",
              "rcChain", "rcChainConv", "rcBridge", "rcSize", "dsChain", "dsCount", "dsCountConv"):
        put(k, f[k])
    put("dsSizeBase", f["dsSize"][0]); put("dsSizeStride", f["dsSize"][1]); put("dsPathsFrom", f["dsPathsFrom"]); put("dsPathWidth", f["dsPathWidth"])
    for k in ("clValue", "clConv", "clSize", "raLen", "raLenConv"):
        put(k, f[k])
    put("raSizeBase", f["raSize"][0]); put("raSizeStride", f["raSize"][1]); put("raAddrFrom", f["raAddrFrom"])
    return "facts - " + " ".join(kv)


def gen(ctx):
    dev = []
    try:
        f = extract(dev)
    except Missing as e:
        ctx.gen_fail("C15", "not found: %s" % e)
        return None
    except OSError as e:
        ctx.gen_fail("C15", "cannot read contract source: %s" % e)
        return None
    for d in dev:
        # the values are still emitted (Gen + the driver's facts line), but the obligation "every conversion fits its slice"
        # no longer checks - reported as before
        ctx.gen_fail("C15", "deviation: %s" % d)
    ctx.gen("C15", render(f))
    return f


OVERLAY = {"node/cmd/guardiand/zz_verif_c15_test.go": "guardiand/c15_gov_verif_test.go"}


def classify(clause, case, verdict):
    return clause


def warm(ctx):
    """setup: compile package guardiand + harness once so that the quick tier only links from the build cache"""
    ov = ctx.overlay(OVERLAY, p2p_stub=True)
    if ov:
        ctx.go_test("node", "./cmd/guardiand", "^$", ov)


def harness(ctx, replay_lines=None):
    """Run the Go harness over the real InjectGovernanceVAA (generated requests, or the recorded request lines of a replay
    file re-executed against the code of the current tree); returns the path of the case file or None (recorded in ctx.broken)."""
    ov = ctx.overlay(OVERLAY, p2p_stub=True)
    if ov is None:
        return None
    env = {}
    if replay_lines:
        rfile = os.path.join(ctx.work, "replay.in")
        with open(rfile, "w") as f:
            f.write("\n".join(replay_lines) + "\n")
        env["VERIF_REPLAY"] = rfile
    rc, out = ctx.go_test("node", "./cmd/guardiand", "^TestVerifC15Gov$", ov, env=env)
    src = os.path.join(ctx.work, "gov.cases")
    if rc != 0 or not os.path.exists(src):
        ctx.broken.append(("tie", "go-harness", out[-800:]))
        return None
    return src


def with_facts(ctx, src, facts):
    """The driver's input: the facts of the CURRENT contract sources lead the case lines."""
    if facts is None:
        return src      # nothing could be extracted (reported as a gen failure): the driver falls back to Facts.node, the node's own layout
    fed = os.path.join(ctx.work, "gov.in")
    with open(fed, "w") as out, open(src) as f:
        out.write(facts_line(facts) + "\n")
        for ln in f:
            out.write(ln)
    return fed


def replay(ctx, path):
    """./check C15 --replay <file>: re-execute the recorded request(s) against the real code of the current tree, with the parser
    facts of the current contract sources; evidence/ and Whv/Gen are left alone."""
    import json
    d = json.load(open(path))
    print("replay of %s: kind=%s key=%s" % (path, d.get("kind"), d.get("key")))
    lines = [l for l in ((d.get("replay") or {}).get("case") or []) if l.startswith("inj ")]
    if not lines:
        print(json.dumps(d, indent=1)[:3000])
        print("to re-run: " + d.get("how_to_rerun", "./check C15"))
        return 1
    dev = []
    try:
        facts = extract(dev)
    except (Missing, OSError) as e:
        print("parser facts cannot be extracted from the current sources (%s): the driver uses the node's own layout (Facts.node)" % e)
        facts = None
    for x in dev:
        print("deviation in the current contract sources: " + x)
    ctx.lake_build(["drv_gov"])
    src = harness(ctx, lines)
    if src is None:
        print("the recorded request could not be re-executed: %s" % (ctx.broken[-1:],))
        return 1
    out = [l for l in ctx.drive("gov", with_facts(ctx, src, facts)) if l and not l.startswith("stat")]
    print("\n".join(l[:1500] for l in out))
    if any(l.startswith("spec") or l.startswith("diff") for l in out):
        print("VIOLATION property=C15 replay=%s" % path)
        return 1
    print("the recorded case no longer fails")
    import shutil
    shutil.rmtree(ctx.work, ignore_errors=True)
    return 0


def run(ctx):
    facts = gen(ctx)
    ctx.cov["gen_facts"] = facts
    ctx.cov["gen_sources"] = [GOV, TBG, FAC, TBC]
    if facts is not None:
        ctx.prove(families=("gov",))
    else:
        ctx.lake_build(["drv_gov"])
    src = harness(ctx)
    if src is None:
        return
    kinds, samples, total = {}, [], 0
    with open(src) as f:
        for ln in f:
            total += 1
            k = ln.split(" ", 2)[1].rstrip("0123456789")
            kinds[k] = kinds.get(k, 0) + 1
            if kinds[k] == 1 and len(samples) < 12 and len(ln) < 3000:
                samples.append(ln.strip()[:700])
    src = with_facts(ctx, src, facts)
    n_ok, stats = ctx.judge("gov", src, classify)
    ctx.cov["evaluations"] += total
    ctx.cov["distinct_nontrivial"] += n_ok
    ctx.cov["samples"] += samples
    ctx.cov["generator_distribution"] = kinds
    ctx.cov["rule"] = (
        "each case is one InjectGovernanceVAARequest, passed through protobuf Marshal/Unmarshal and then through the real "
        "(*nodePrivilegedService).InjectGovernanceVAA on nine service instances with the same governance configuration and different "
        "ambient node state: a reference instance, three in-process instances whose state fields are filled by type, and five built by the "
        "production constructor adminServiceRunnable, run under a supervisor and called over the admin unix socket (guardian-set state "
        "nil / empty / index 0 / equal to / higher than the request, empty and non-empty stores, different injectC fill levels and "
        "histories); any difference in status, message, any VAA field or digest is `result-depends-on-node-state`. What a call handed to "
        "injectC is read until QUIESCENCE, not only at the handler's return: an accepted request owes one VAA per returned digest (awaited), every "
        "goroutine the handler left behind must have ended (stack scan when the goroutine count grew), then the channel is emptied; nil "
        "pointers found there are `nil-vaa-injected`, an accepted request whose injected VAAs are not - as a multiset - the ones with the "
        "returned digests is `injected-vaas-not-the-acknowledged` (c15_accepted_handover_exact). Sweeps of very short "
        "hex fields (decoded length 0..3 with every leading-byte class, every 1-byte refund address 00..ff, address type bytes at lengths "
        "2..67) in every hex-carrying field. Single-message requests of "
        "each of the nine kinds (+ unset oneof) with field values across and beyond the wire ranges (chain ids and target chains up to "
        "2^32-1, consistency level up to 2^32-1, set index incl. 2^32-2 / 2^32-1, module names of 0/31/32/33/64+ bytes incl. multi-byte "
        "runes, hex fields valid / one byte short or long / odd length / one non-hex character / 0x prefix, guardian lists of 0..30 keys "
        "with duplicates, case variants, zero address, malformed keys; `gsz`: 18 / 19 / 20 / 21 / 32 / 127..129 / 254 / 255 / 256 / 257 / 300 / 511..513 / 1024 "
        "distinct guardians, and 19 / 20 / 255 / 256 / 257 with the last key repeating the first - the payload's guardian count is one byte, and the "
        "Spec reads it at the contract's slice whatever limit common.MaxGuardianCount is (clause guardian-count-lossy; the limit itself is "
        "extracted into Whv.Gen.C15.maxGuardianCount and tied by c15_admin_bound_fits_count_byte)), fixed boundary sweeps, 65535/65536/65537 sequences and refund "
        "address bytes, and 2-5-message requests mixing valid and invalid messages. distinct_nontrivial = cases on which the model "
        "predicted the exact status code, message, injected VAAs and the Spec (parser-side decoding at the extracted Ralph offsets, "
        "envelope, digest = Keccak^2(body), purity) held on the implementation's own results. Failing-input search for contract-side "
        "changes: the parser facts extracted from the CURRENT .ral sources (offsets, u256From<N>Byte! widths, size equations, action "
        "bytes, module constants) lead the driver's input; every payload the real node emitted is run through the executable parser "
        "model Whv.Gov.RalF instantiated with THOSE facts (specOkF; = specOk for the compiled-in facts, c15_specF_gen); a payload that "
        "equals the model's own (proved) payload yet is rejected / decoded to another value is reported with the request as "
        "contract-rejects-node-payload / contract-reads-other-value")
    ctx.cov["trusted_base"] += [
        "checks/c15.py: regex extraction of the Ralph parsers (slice bounds, conversion widths, ActionId bytes, module constants, size "
        "equations) from governance.ral, token_bridge_governance.ral, token_bridge_factory.ral, token_bridge_for_chain.ral; the contracts "
        "are never executed (no compiler / VM offline); Whv.Gov.Ral / Whv.Gov.RalF are hand models of the parsers' control flow around "
        "those constants (byteVecSlice! aborts unless a <= b <= size; u256From<N>Byte! aborts unless its argument is exactly N bytes)",
        "harness/guardiand/c15_gov_verif_test.go (generator, canonical rendering, Keccak recomputation) and Whv/Driver/Gov.lean (comparison)",
        "tools/p2pstub: package guardiand is compiled with the body of p2p.Run stubbed (quic-go does not build on this Go)",
        "Keccak-256 is an oracle (digest equality is derived from equality of signing bodies)",
        "a handler panic is only recoverable on the in-process instances; the socket instances are skipped for a request that already "
        "panicked in-process (in the thorough tier they see every 4th case)",
    ]
    ctx.assumptions += [
        "requests are those protobuf can carry: uint32/uint64 fields in range, strings valid UTF-8 (Req.WF / Payload.WF in the theorems)",
        "the model follows the code repaired by fixes/C15-governance-range-checks.diff; on the unrepaired tree the Spec clauses "
        "request-panic-*, *-lossy report the defects with the failing request",
        "a request whose k-th message is invalid has already injected the VAAs of messages 0..k-1 (InjectGovernanceVAA is not atomic); "
        "this is modelled as is and not counted as a violation: every injected VAA individually satisfies the property",
        "the contracts' semantic assertions on values (non-empty sequence list, remote chain != local chain, isAssetAddress) are outside "
        "the layout/losslessness statement and not modelled",
    ]
